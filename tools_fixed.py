#!/usr/bin/env python3
"""tools_fixed.py <pid> <commit> : move findings.d/<pid>.json entries into known_findings.json as status=fixed."""
import json, os, sys
pid, commit = sys.argv[1:3]
V = os.path.dirname(os.path.abspath(__file__))
kf = json.load(open(os.path.join(V, "known_findings.json")))
frag = os.path.join(V, "findings.d", pid + ".json")
for f in json.load(open(frag))["findings"]:
    f["status"] = "fixed"
    f["commit"] = commit
    f["line"] = "fixed: property=%s %s %s" % (pid, commit, f["what"][:160])
    kf["findings"].append(f)
json.dump(kf, open(os.path.join(V, "known_findings.json"), "w"), indent=1)
os.remove(frag)
print("moved", pid)
