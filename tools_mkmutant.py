#!/usr/bin/env python3
"""tools_mkmutant.py <name> <repo-relative file> <old> <new>  -> mutants/<name>.patch (unified diff against /repo)"""
import difflib, sys, os
name, rel, old, new = sys.argv[1:5]
src = open(os.path.join("/repo", rel)).read()
assert src.count(old) == 1, "old text must occur exactly once (found %d)" % src.count(old)
dst = src.replace(old, new)
d = difflib.unified_diff(src.splitlines(True), dst.splitlines(True), "a/" + rel, "b/" + rel)
open(os.path.join(os.path.dirname(os.path.abspath(__file__)), "mutants", name + ".patch"), "w").write("".join(d))
print("wrote mutants/%s.patch" % name)
