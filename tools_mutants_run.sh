#!/bin/sh
# usage: tools_mutants_run.sh "<patch>:<pid>" ...   (sequential; prints one line per mutant)
for pair in "$@"; do
  p="${pair%%:*}"; pid="${pair##*:}"
  out=$(/verif/tools_mutant.sh /verif/mutants/$p.patch $pid 2>&1); rc=$?
  echo "MUTANT $p $pid rc=$rc $(echo "$out" | grep -c '^VIOLATION') violations; $(echo "$out" | grep -m1 'clause=' )"
  echo "$out" | grep -m2 MACHINERY
done
