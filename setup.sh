#!/bin/sh
# MANIFEST.setup_cmd: offline sanity of the tool chain + SANY parse of every specification.
cd "$(dirname "$0")" || exit 2
set -e
java -version 2>&1 | head -1
test -f /opt/veriftools/tla/tla2tools.jar
/venv/bin/python -c "import sys; sys.path.insert(0, '${VERIF_REPO:-/repo}'); import testtools, twisted, fixtures; print('testtools from', testtools.__file__)"
mkdir -p build evidence
/venv/bin/python - <<'PY'
import glob, os, sys
sys.path.insert(0, os.getcwd())
from harness import tlc
bad = 0
for f in sorted(glob.glob("spec/*/*.tla")):
    area, mod = f.split("/")[1], os.path.basename(f)[:-4]
    ok, out = tlc.sany(area, mod)
    print(("ok   " if ok else "FAIL ") + f)
    if not ok:
        bad += 1
        print(out[-2000:])
sys.exit(1 if bad else 0)
PY
