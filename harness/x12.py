"""X12 - the stock matchers outside the matcher specification: DocTestMatches, Warnings / WarningMessage /
IsDeprecated, SamePath, HasPermissions, TarballContains, MatchesPredicateWithParams.

Specs: spec/extra/DocTestMatch.tla (texts as token sequences; the code path __init__/_with_nl -> check_output ->
' '.join(split()) -> _ellipsis_match, one action per stage, against Meaning: identity / equal word sequences / "there
are texts for the ellipsis markers") and spec/extra/WarnFsMatch.tla (one (matcher, matchee) case per behaviour: the
code path of each matcher against a predicate over the case alone).  TLC checks the invariants and exports every
behaviour; each is replayed with the real matcher: the texts after completion, the verdict after every stage (the real
matcher is run with the flags processed so far), the warnings the matcher was shown, the per-element verdicts of
WarningMessage, realpath / oct() / getnames() as the specification computed them, the final verdict, the mismatch
description of MatchesPredicateWithParams, and totality of str(matcher) / describe() / get_details().
"""

import contextlib
import os
import random
import shutil
import tempfile
import warnings

from . import tlc
from .common import Report, use_repo, jdump

PROPS = ("X12",)

TOK = {"_": " ", "|": "\n"}


def text(tokens):
    return "".join(TOK.get(t, t) for t in tokens)


class Bad(Exception):
    """A judged difference between the real code and the specification."""

    def __init__(self, clause, expected, observed, where=""):
        Exception.__init__(self, clause)
        self.clause = clause
        self.expected = expected
        self.observed = observed
        self.where = where


class Drift(Exception):
    """A difference that is not judged (outside what the documentation states)."""


# --------------------------------------------------------------------------------------------------------------
# totality


def total(matcher, mismatch, what, fs=False):
    """str(matcher), mismatch.describe(), mismatch.get_details() never raise and return str / str / dict."""
    try:
        s = str(matcher)
    except Exception as ex:
        if fs:
            # the filesystem matchers' __str__ is the finding recorded under C07
            # (proposed_fixes/C07-filesystem-matchers-str.patch); not reported a second time
            raise Drift("str(%s) raises %s (see C07 matcher-str)" % (what, type(ex).__name__))
        raise Bad("totality", "str(matcher) returns a str", "raises %s" % type(ex).__name__, "str:" + what)
    if not isinstance(s, str):
        raise Bad("totality", "str(matcher) returns a str", type(s).__name__, "str:" + what)
    if mismatch is None:
        return
    try:
        d = mismatch.describe()
    except Exception as ex:
        raise Bad("totality", "describe() returns a str", "raises %s" % type(ex).__name__, "describe:" + what)
    if not isinstance(d, str):
        raise Bad("totality", "describe() returns a str", type(d).__name__, "describe:" + what)
    try:
        g = mismatch.get_details()
    except Exception as ex:
        raise Bad("totality", "get_details() returns a dict", "raises %s" % type(ex).__name__, "details:" + what)
    if not isinstance(g, dict):
        raise Bad("totality", "get_details() returns a dict", type(g).__name__, "details:" + what)


def is_mismatch(res):
    return res is not None and hasattr(res, "describe")


def verdict_of(res, what):
    if res is None:
        return "match"
    if is_mismatch(res):
        return "mismatch"
    raise Bad("matcher-protocol", "None or a Mismatch", repr(res)[:80], what)


# --------------------------------------------------------------------------------------------------------------
# DocTestMatches


def dt_flags(fl, extra=0):
    import doctest

    v = extra
    if "E" in fl:
        v |= doctest.ELLIPSIS
    if "N" in fl:
        v |= doctest.NORMALIZE_WHITESPACE
    return v


def blank_only_line(got):
    """The undocumented doctest rule applies: a line of the (completed) actual text consists of blanks only."""
    return any(line and not line.strip(" ") for line in (got if got.endswith("\n") else got + "\n").split("\n"))


def dt_replay(b, report_flag=0, notes=None):
    """Replay one exported DocTestMatch behaviour.  Raises Bad; unjudged differences are appended to `notes`."""
    import doctest
    from testtools.matchers import DocTestMatches

    notes = [] if notes is None else notes
    hist = b["hist"]
    init = hist[0]
    want, got, fl = text(init["want"]), text(init["got"]), sorted(init["flags"])
    judged = b["judged"]
    so_far = False
    for h in hist[1:]:
        a = h["a"]
        if a == "complete":
            # how the two texts are held is not documented (only the verdict is): compared, reported as drift
            m = DocTestMatches(want, dt_flags(fl))
            if getattr(m, "want", None) != text(h["w"]):
                notes.append("DocTestMatches(example).want is not the example completed by a newline")
            with_nl = getattr(m, "_with_nl", None)
            if with_nl is not None and with_nl(got) != text(h["g"]):
                notes.append("DocTestMatches._with_nl(actual) is not the actual text completed by a newline")
        elif a in ("exact", "blank", "norm"):
            so_far = so_far or h["sofar"]
            stage_flags = {"exact": doctest.DONT_ACCEPT_BLANKLINE, "blank": 0, "norm": doctest.NORMALIZE_WHITESPACE}[a]
            res = DocTestMatches(want, stage_flags).match(got)
            v = verdict_of(res, "doctest stage " + a)
            exp = "match" if so_far else "mismatch"
            if v != exp:
                if a == "blank" and blank_only_line(got):
                    notes.append("whitespace-only lines: the real verdict differs from the modelled code path")
                    continue
                raise Bad("doctest-stage", exp, v, a)
    m = DocTestMatches(want, dt_flags(fl, report_flag))
    res = m.match(got)
    v = verdict_of(res, "doctest")
    if v != b["verdict"]:
        if not judged:
            notes.append("whitespace-only lines: the real verdict differs from the modelled code path")
            return v
        raise Bad("doctest-verdict", b["verdict"], v, "final")
    total(m, res, "DocTestMatches")
    return v


def dt_shape(b):
    i = b["hist"][0]
    return {"want": text(i["want"]), "got": text(i["got"]), "flags": sorted(i["flags"])}


def dt_signature(b, bad):
    return "x12:doctest:%s:%s:%s->%s" % (bad.clause, bad.where, bad.expected, bad.observed)


# --------------------------------------------------------------------------------------------------------------
# the world of WarnFsMatch


class SubDeprecation(DeprecationWarning):
    pass


CATS = {"Dep": DeprecationWarning, "Sub": SubDeprecation, "User": UserWarning, "Pend": PendingDeprecationWarning}
CATNAME = {v: k for k, v in CATS.items()}
MSG = {"foo": "foo is deprecated, use quux", "bar": "bar will go away"}
FILES = {"f1": "/x12/one.py", "f2": "/x12/two.py"}
LINES = {1: 11, 2: 22}


class Spy:
    """A matcher that remembers what it was shown and passes the verdict of the wrapped matcher on."""

    def __init__(self, inner):
        self.inner = inner
        self.seen = None

    def match(self, matchee):
        self.seen = list(matchee)
        return self.inner.match(matchee)

    def __str__(self):
        return "Spy(%s)" % (self.inner,)


class World:
    def __init__(self, rng):
        self.rng = rng
        self.root = os.path.realpath(tempfile.mkdtemp(prefix="x12-"))
        self.labels = {}
        self.idents = {}
        self.tars = {}
        self.modes = {}
        self.skipped_modes = set()
        r = self.root
        for f in ("f", "h"):
            self._touch(os.path.join(r, f))
        os.makedirs(os.path.join(r, "d", "e"))
        self._touch(os.path.join(r, "d", "h"))
        self._touch(os.path.join(r, "d", "e", "g"))
        os.symlink("f", os.path.join(r, "l"))
        os.symlink(os.path.join(r, "f"), os.path.join(r, "la"))
        os.symlink(os.path.join("d", "e"), os.path.join(r, "ld"))
        os.symlink(os.path.join("..", "h"), os.path.join(r, "d", "lu"))
        os.mkdir(os.path.join(r, "perm"))
        os.mkdir(os.path.join(r, "tar"))

    def _touch(self, p):
        with open(p, "w") as f:
            f.write("x12\n")

    def close(self):
        for p in self.modes.values():
            try:
                os.chmod(p, 0o700)
            except OSError:
                pass
        shutil.rmtree(self.root, ignore_errors=True)

    @contextlib.contextmanager
    def inside(self):
        old = os.getcwd()
        os.chdir(self.root)
        try:
            yield
        finally:
            os.chdir(old)

    # -- paths ---------------------------------------------------------------
    def path_str(self, p):
        rel = os.path.join(*p["comps"])
        return os.path.join(self.root, rel) if p["abs"] else rel

    def check_label(self, p):
        """The MC table says what a path expression refers to; validate it against the real directory (cwd = root):
        same label <=> same inode, resp. same (directory inode, name) for a path that does not exist."""
        s = self.path_str(p)
        key = (p["abs"], tuple(p["comps"]))
        if key in self.labels:
            return
        label = p["node"]
        if label.startswith("M:"):
            if os.path.lexists(s):
                raise tlc.MachineryError("X12: %s exists, the table says it is missing" % s)
            st = os.stat(os.path.dirname(s) or ".")
            ident = ("missing", st.st_dev, st.st_ino, os.path.basename(s))
        else:
            st = os.stat(s)
            ident = ("node", st.st_dev, st.st_ino)
        if self.idents.setdefault(ident, label) != label:
            raise tlc.MachineryError("X12: path table: %s and %s are the same thing (%s)" % (self.idents[ident], label, s))
        for k, (l2, i2) in self.labels.items():
            if l2 == label and i2 != ident:
                raise tlc.MachineryError("X12: path table: label %s names two things (%s)" % (label, s))
        self.labels[key] = (label, ident)

    # -- permissions ---------------------------------------------------------
    def mode_path(self, mode):
        import stat

        if mode in self.modes:
            return self.modes[mode]
        if mode in self.skipped_modes:
            return None
        p = os.path.join(self.root, "perm", "m%o" % mode)
        if stat.S_ISDIR(mode):
            os.mkdir(p)
        else:
            self._touch(p)
        os.chmod(p, stat.S_IMODE(mode))
        if os.stat(p).st_mode != mode:
            self.skipped_modes.add(mode)  # the platform does not keep these bits for us
            return None
        # every other one through a symbolic link: os.stat follows it
        if len(self.modes) % 2:
            l = p + ".lnk"
            os.symlink(p, l)
            p = l
        self.modes[mode] = p
        return p

    # -- tarballs --------------------------------------------------------------
    def tar_path(self, members):
        import io
        import tarfile

        key = tuple(members)
        if key in self.tars:
            return self.tars[key]
        gz = self.rng.random() < 0.5
        p = os.path.join(self.root, "tar", "t%d.tar%s" % (len(self.tars), ".gz" if gz else ""))
        t = tarfile.open(p, "w:gz" if gz else "w")
        for n in members:
            ti = tarfile.TarInfo(n)
            if n == "d":
                ti.type = tarfile.DIRTYPE
                t.addfile(ti)
            else:
                ti.size = 3
                t.addfile(ti, io.BytesIO(b"x12"))
        t.close()
        self.tars[key] = p
        return p


def field(v, table=None):
    from testtools.matchers import Equals

    if v in ("*", 0):
        return None
    return Equals(table[v] if table else v)


def wm_matcher(s):
    from testtools.matchers._warnings import WarningMessage

    kw = {}
    for name, v, table in (("message", s["msg"], MSG), ("filename", s["file"], FILES), ("lineno", s["line"], LINES)):
        m = field(v, table)
        if m is not None:
            kw[name] = m
    return WarningMessage(CATS[s["cat"]], **kw)


def w_build(m):
    """-> (Warnings matcher, spy or None, element matchers)"""
    from testtools.matchers import Always, Contains, HasLength, MatchesListwise
    from testtools.matchers._warnings import IsDeprecated, Warnings, WarningMessage

    k = m["k"]
    if k == "any":
        return Warnings(), None, []
    if k == "len":
        spy = Spy(HasLength(m["n"]))
        return Warnings(spy), spy, []
    if k == "list":
        elems = [wm_matcher(s) for s in m["specs"]]
        spy = Spy(MatchesListwise(elems))
        return Warnings(warnings_matcher=spy), spy, elems
    word = m["msg"]
    mm = Always() if word == "*" else Contains(word)
    w = IsDeprecated(mm)
    spy = None
    if getattr(w, "warnings_matcher", None) is not None:
        spy = Spy(w.warnings_matcher)
        w.warnings_matcher = spy
    return w, spy, [WarningMessage(DeprecationWarning, message=mm)]


def emitter(ws):
    registry = {}

    def emit():
        for x in ws:
            warnings.warn_explicit(MSG[x["msg"]], CATS[x["cat"]], FILES[x["file"]], LINES[x["line"]], module="x12_emitter", registry=registry)
        return "emitted"

    return emit


def project(wmsg):
    return {
        "cat": CATNAME.get(wmsg.category, getattr(wmsg.category, "__name__", "?")),
        "msg": {v: k for k, v in MSG.items()}.get(str(wmsg.message), str(wmsg.message)),
        "file": {v: k for k, v in FILES.items()}.get(wmsg.filename, wmsg.filename),
        "line": {v: k for k, v in LINES.items()}.get(wmsg.lineno, wmsg.lineno),
    }


def w_replay(b, world):
    c = b["hist"][0]["case"]
    judged = b["judged"]
    kind = c["m"]["k"]
    matcher, spy, elems = w_build(c["m"])
    filters_before = list(warnings.filters)
    res = matcher.match(emitter(c["emits"]))
    if list(warnings.filters) != filters_before:
        warnings.filters[:] = filters_before
    v = verdict_of(res, "Warnings")
    total(matcher, res, "Warnings:" + kind)
    for h in b["hist"][1:]:
        if h["a"] == "record" and spy is not None:
            if spy.seen is None:
                raise Bad("warnings-captured", "the matcher is shown the list of warnings", "matcher not consulted", kind)
            got = [project(x) for x in spy.seen]
            if got != h["rec"]:
                raise Bad("warnings-captured", "%d warnings, in order of emission" % len(h["rec"]), "%d: %s" % (len(got), jdump(got)[:160]), kind)
        elif h["a"] == "elem" and spy is not None and spy.seen is not None:
            i = h["i"] - 1
            if i < len(elems) and i < len(spy.seen):
                r = elems[i].match(spy.seen[i])
                ev = verdict_of(r, "WarningMessage")
                total(elems[i], r, "WarningMessage")
                exp = "match" if not h["bad"] else "mismatch"
                if ev != exp:
                    spec_cat = "Dep" if kind == "dep" else c["m"]["specs"][i]["cat"]
                    if spec_cat == "Dep" and c["emits"][i]["cat"] == "Sub" and set(h["bad"]) == {"category"}:
                        continue  # a subclass of the given type: not stated which way
                    raise Bad("warningmessage-verdict", exp, ev, "fields=" + ",".join(sorted(h["bad"])))
    exp = b["out"][0]["v"]
    if v != exp:
        if not judged:
            raise Drift("%s on a case the documentation leaves open: real %s, code path %s" % (kind, v, exp))
        raise Bad("isdeprecated-verdict" if kind == "dep" else "warnings-verdict", exp, v, kind)
    return v


def sp_replay(b, world):
    from testtools.matchers import SamePath

    c = b["hist"][0]["case"]
    with world.inside():
        world.check_label(c["p"])
        world.check_label(c["q"])
        ps, qs = world.path_str(c["p"]), world.path_str(c["q"])
        for h in b["hist"]:
            if h["a"] == "resolved":
                s = ps if h["which"] == "self" else qs
                exp = os.path.join(world.root, *h["real"]) if h["real"] else world.root
                if os.path.realpath(s) != exp:
                    raise tlc.MachineryError("X12: the model of realpath gives %s for %s, the platform %s" % (exp, s, os.path.realpath(s)))
        m = SamePath(ps)
        res = m.match(qs)
        v = verdict_of(res, "SamePath")
        exp = b["out"][0]["v"]
        if v != exp:
            raise Bad("samepath-verdict", exp, v, "%s~%s" % (kind_of_label(c["p"]["node"]), kind_of_label(c["q"]["node"])))
        total(m, res, "SamePath", fs=True)
    return v


def kind_of_label(l):
    return "missing" if l.startswith("M:") else "existing"


def hp_replay(b, world):
    from testtools.matchers import HasPermissions

    c = b["hist"][0]["case"]
    p = world.mode_path(c["mode"])
    if p is None:
        return None
    for h in b["hist"]:
        if h["a"] == "oct" and oct(os.stat(p).st_mode) != "".join(h["s"]):
            raise tlc.MachineryError("X12: the model of oct() gives %s, the platform %s" % ("".join(h["s"]), oct(os.stat(p).st_mode)))
    m = HasPermissions("".join(c["perm"]))
    res = m.match(p)
    v = verdict_of(res, "HasPermissions")
    exp = b["out"][0]["v"]
    if v != exp:
        special = "special-bits" if c["mode"] & 0o7000 else "plain"
        raise Bad("haspermissions-verdict", exp, v, special)
    total(m, res, "HasPermissions", fs=True)
    return v


def tb_replay(b, world):
    import tarfile

    from testtools.matchers import TarballContains

    c = b["hist"][0]["case"]
    p = world.tar_path(c["members"])
    for h in b["hist"]:
        if h["a"] == "getnames":
            t = tarfile.open(p)
            try:
                names = t.getnames()
            finally:
                t.close()
            if names != h["names"]:
                raise tlc.MachineryError("X12: getnames() gives %r, the model %r" % (names, h["names"]))
    given = list(c["paths"])
    m = TarballContains(given)
    res = m.match(p)
    v = verdict_of(res, "TarballContains")
    exp = b["out"][0]["v"]
    if v != exp:
        same_set = "same-names" if sorted(c["members"]) == sorted(c["paths"]) else "different-names"
        raise Bad("tarballcontains-verdict", exp, v, same_set)
    total(m, res, "TarballContains", fs=True)
    return v


def conv(ret, truth):
    if ret == "bool":
        return bool(truth)
    if ret == "int":
        return 1 if truth else 0
    return "yes" if truth else ""


def pp_replay(b, world):
    from testtools.matchers import MatchesPredicateWithParams

    c = b["hist"][0]["case"]
    ret = c["ret"]
    if c["pred"] == "div":

        def pred(x, k):
            return conv(ret, x % k == 0)

    else:

        def pred(x, lo, hi=5):
            return conv(ret, lo < x < hi)

    message = "".join("{%d}" % t["i"] if t["t"] == "pos" else "{%s}" % t["n"] if t["t"] == "kw" else t["s"] for t in c["tmpl"])
    factory = MatchesPredicateWithParams(pred, message, "Named") if c["named"] else MatchesPredicateWithParams(pred, message)
    made = []
    vs = []
    for h in b["hist"][1:]:
        if h["a"] == "make":
            made.append(factory(*h["args"], **{k: v for k, v in h["kw"]}))
        elif h["a"] == "match":
            m = made[h["k"] - 1]
            res = m.match(c["x"])
            v = verdict_of(res, "MatchesPredicateWithParams")
            total(m, res, "MatchesPredicateWithParams")
            vs.append(v)
            which = c["pred"] + (":kw" if c["cons"][h["k"] - 1]["kw"] else "")
            if v != h["v"]:
                raise Bad("predicate-verdict", h["v"], v, which)
            if v == "mismatch":
                exp = "".join(str(t["v"]) if t["t"] == "val" else t["s"] for t in h["desc"])
                if res.describe() != exp:
                    raise Bad("predicate-message", exp, res.describe()[:80], which)
    return tuple(vs)


WF = {"W": w_replay, "SP": sp_replay, "HP": hp_replay, "TB": tb_replay, "PP": pp_replay}


def wf_shape(b):
    c = b["hist"][0]["case"]
    k = c["kind"]
    if k == "W":
        return {"matcher": c["m"], "emits": [[x["cat"], x["msg"], x["file"], x["line"]] for x in c["emits"]]}
    if k == "SP":
        return {"SamePath": "/".join(c["p"]["comps"]) + (" (absolute)" if c["p"]["abs"] else ""), "other": "/".join(c["q"]["comps"]) + (" (absolute)" if c["q"]["abs"] else "")}
    if k == "HP":
        return {"st_mode": oct(c["mode"]), "HasPermissions": "".join(c["perm"])}
    if k == "TB":
        return {"tar members": c["members"], "TarballContains": c["paths"]}
    return {"predicate": c["pred"], "returns": c["ret"], "constructed": [[x["args"], x["kw"]] for x in c["cons"]], "x": c["x"]}


def wf_nontrivial(b):
    c = b["hist"][0]["case"]
    k = c["kind"]
    if not b["judged"]:
        return False
    if k == "W":
        return len(c["emits"]) >= 1 and c["m"]["k"] != "any"
    if k == "SP":
        return c["p"] != c["q"]
    if k == "HP":
        return True
    if k == "TB":
        return len(c["members"]) >= 2 or len(c["paths"]) >= 2
    return True


def wf_signature(b, bad):
    c = b["hist"][0]["case"]
    k = c["kind"]
    sub = c["m"]["k"] if k == "W" else k
    return "x12:%s:%s:%s:%s->%s" % (sub, bad.clause, bad.where, str(bad.expected)[:40] if bad.clause not in ("predicate-message", "warnings-captured") else "spec", str(bad.observed)[:40] if bad.clause not in ("predicate-message", "warnings-captured") else "differs")


# --------------------------------------------------------------------------------------------------------------


def run(tier, pid="X12"):
    use_repo()
    import doctest

    rep = Report(
        "X12",
        tier,
        "model_checking",
        "cases = (matcher, matchee), enumerated by TLC from the alphabets of spec/extra/MCDocTestMatch.tla (want: token "
        "sequences over letters, blank, newline and the ellipsis marker, up to 5 tokens; got: up to 5 tokens; every "
        "subset of {ELLIPSIS, NORMALIZE_WHITESPACE}) and spec/extra/MCWarnFsMatch.tla (Warnings() / Warnings(HasLength) / "
        "Warnings(MatchesListwise of 0-2 WarningMessage(category, message, filename, lineno)) / IsDeprecated x lists of "
        "0-3 warnings of 4 categories; SamePath over pairs of 32 path expressions (symlinks, '..', '.', absolute, missing); "
        "HasPermissions over 11 modes x 11 octal strings; TarballContains over member orders x given orders; "
        "MatchesPredicateWithParams factories with 1-2 constructed matchers), each replayed against the real matcher. "
        "Non-trivial = a judged case that is not decided by identity of the two inputs: doctest cases that reach the "
        "normalisation / ellipsis stage or match without being identical; warning lists that are not empty against a "
        "matcher; distinct path expressions; all permission, predicate cases; tarballs with two or more names on a side. "
        "Distinct by the case.",
    )
    rep.assume("DocTestMatches: both texts are completed by a final newline (the output of a doctest example ends with one); with both flags the ellipsis is matched on the whitespace-normalised texts (comment in doctest.check_output)")
    rep.assume("not judged (undocumented doctest behaviour, replayed against the mechanism only): without NORMALIZE_WHITESPACE a line of the actual text made of blanks only is taken as an empty line")
    rep.assume("not judged: a warning whose category is a strict subclass of the category given to WarningMessage / IsDeprecated; IsDeprecated when the readings 'exactly one warning, a DeprecationWarning' / 'exactly one DeprecationWarning among others' / 'one warning of any category' (the rst example warns with a UserWarning) disagree")
    rep.assume("SamePath: a path that does not exist refers to (the directory it would be created in, its name); the table of what each path expression refers to (MCWarnFsMatch.tla) is validated against the scratch directory by inode")
    rep.assume("TarballContains: no name twice on either side; HasPermissions: four-digit strings only")
    rep.assume("str() of SamePath / HasPermissions / TarballContains raising is the finding recorded under C07 (matcher-str) and would be reported as DRIFT here, not as a second violation")
    rng = random.Random(rep.seed)

    # ---- DocTestMatches ----
    r = tlc.run_tlc("extra", "MCDocTestMatch", "sm_dt_exp.cfg", coverage=True, timeout=600, workers=4)
    tlc.require_ok(r, "X12 sm_dt_exp.cfg")
    tlc.require_coverage(r, ["Complete", "Exact", "BlankLines", "Normalize", "Anchor", "Scan"], "X12 sm_dt_exp.cfg")
    rep.add_tlc(r, "sm_dt_exp.cfg")
    report_flags = [0, doctest.REPORT_NDIFF, doctest.REPORT_UDIFF, doctest.REPORT_CDIFF]
    nb = 0
    unjudged = 0
    drift = {}
    for b in tlc.exported(r):
        nb += 1
        hist = b["hist"]
        stages = {h["a"] for h in hist}
        nk = None
        if b["judged"] and (stages & {"norm", "anchor"} or (b["verdict"] == "match" and hist[0]["want"] != hist[0]["got"])):
            nk = jdump(dt_shape(b))
        if not b["judged"]:
            unjudged += 1
            if b["meaning"] != (b["verdict"] == "match"):
                drift["doctest-blank-lines"] = drift.get("doctest-blank-lines", 0) + 1
        notes = []
        try:
            dt_replay(b, report_flags[rng.randrange(4)], notes)
        except Bad as bad:
            rep.violation(bad.clause, dt_signature(b, bad), {"family": "doctest", "behaviour": b, "case": dt_shape(b), "where": bad.where}, expected=bad.expected, observed=bad.observed)
        for d in set(notes):
            drift[d] = drift.get(d, 0) + 1
        rep.case(sample=dict(dt_shape(b), verdict=b["verdict"], stages=[h["a"] for h in hist[1:]]) if nk and b["verdict"] == "match" and nb % 1000 == 11 and len(rep.samples) < 2 else None, nontrivial_key=nk)
        rep.traces += 1
    if nb == 0:
        raise tlc.MachineryError("X12 sm_dt_exp.cfg exported no behaviours")
    rep.extra["doctest_behaviours"] = nb
    rep.extra["doctest_not_judged"] = unjudged
    if drift.get("doctest-blank-lines"):
        rep.note_drift(
            "doctest (Python, not testtools): unless DONT_ACCEPT_BLANKLINE is given, blank-only lines of the actual text are compared as empty lines "
            "- %d explored cases get a verdict other than 'whitespace must match exactly' would give, e.g. DocTestMatches('a\\n\\nb').match('a\\n \\nb') matches "
            "and DocTestMatches('... ', ELLIPSIS).match(' ') does not; not judged" % drift.pop("doctest-blank-lines")
        )

    if tier == "thorough":
        r = tlc.run_tlc("extra", "MCDocTestMatch", "sm_dt_mc.cfg", coverage=True, timeout=1500, workers=4)
        tlc.require_ok(r, "X12 sm_dt_mc.cfg")
        tlc.require_coverage(r, ["Complete", "Exact", "BlankLines", "Normalize", "Anchor", "Scan"], "X12 sm_dt_mc.cfg")
        rep.add_tlc(r, "sm_dt_mc.cfg")

    # ---- warnings, paths, permissions, tarballs, predicates ----
    r = tlc.run_tlc("extra", "MCWarnFsMatch", "sm_wf_exp.cfg", coverage=True, timeout=600, workers=4)
    tlc.require_ok(r, "X12 sm_wf_exp.cfg")
    tlc.require_coverage(r, ["WRecord", "WApply", "WElem", "SPWalk", "SPCompare", "HPOct", "HPSlice", "HPCompare", "TBNames", "TBSort", "TBCompare", "PPMake", "PPMatch"], "X12 sm_wf_exp.cfg")
    rep.add_tlc(r, "sm_wf_exp.cfg")
    world = World(rng)
    per_kind = {}
    realised = {}
    sampled = set()
    rst_example = 0
    try:
        nw = 0
        for b in tlc.exported(r):
            nw += 1
            kind = b["hist"][0]["case"]["kind"]
            per_kind[kind] = per_kind.get(kind, 0) + 1
            nk = jdump(wf_shape(b)) if wf_nontrivial(b) else None
            try:
                got = WF[kind](b, world)
                if got is not None:
                    realised[kind] = realised.get(kind, 0) + 1
                if kind == "W" and got == "mismatch":
                    c = b["hist"][0]["case"]
                    if c["m"]["k"] == "dep" and [x["cat"] for x in c["emits"]] == ["User"] and c["m"]["msg"] in ("*", c["emits"][0]["msg"]):
                        rst_example += 1
            except Drift as d:
                drift[str(d)] = drift.get(str(d), 0) + 1
            except Bad as bad:
                rep.violation(bad.clause, wf_signature(b, bad), {"family": "warnfs", "behaviour": b, "case": wf_shape(b), "where": bad.where}, expected=bad.expected, observed=bad.observed)
            if nk and kind not in sampled and per_kind[kind] % 53 == 17:
                sampled.add(kind)
                rep.sample(dict(wf_shape(b), verdict=[o["v"] for o in b["out"]]), force=True)
            rep.case(nontrivial_key=nk)
            rep.traces += 1
        if nw == 0:
            raise tlc.MachineryError("X12 sm_wf_exp.cfg exported no behaviours")
        for k in WF:
            if not realised.get(k):
                raise tlc.MachineryError("X12: no %s case could be realised in the scratch directory" % k)
        if world.skipped_modes:
            rep.assume("modes the platform did not keep on the scratch files (not replayed): %s" % sorted(oct(m) for m in world.skipped_modes))
    finally:
        world.close()
    for d, n in sorted(drift.items()):
        rep.note_drift("%s (%d cases)" % (d, n))
    if rst_example:
        rep.note_drift(
            "documentation: the IsDeprecated example of doc/for-test-authors.rst warns with warnings.warn(text), a UserWarning; IsDeprecated rejects a single "
            "UserWarning whose message matches (%d cases), as its docstring ('exactly one DeprecationWarning') says; not judged" % rst_example
        )
    rep.extra["warnfs_behaviours"] = per_kind
    rep.extra["warnfs_replayed"] = realised
    rep.exhaustive = True
    rep.extra["explanation"] = "exhaustive over the alphabets of spec/extra/MCDocTestMatch.tla (CasesQuick) and MCWarnFsMatch.tla (AllCases): every case model-checked and replayed"
    return rep.finish()


def replay_file(path, pid="X12"):
    import json

    use_repo()
    v = json.load(open(path))
    sc = v["scenario"]
    b = sc["behaviour"]
    bad = None
    try:
        if sc["family"] == "doctest":
            notes = []
            dt_replay(b, 0, notes)
            for n in notes:
                print("replay: not judged: %s" % n)
        else:
            world = World(random.Random(0))
            try:
                WF[b["hist"][0]["case"]["kind"]](b, world)
            finally:
                world.close()
    except Drift as d:
        print("replay: not judged: %s" % d)
        return 0
    except Bad as ex:
        bad = ex
    if bad:
        print("VIOLATION property=X12 replay=%s" % path)
        print("  clause=%s where=%s expected=%r observed=%r" % (bad.clause, bad.where, bad.expected, bad.observed))
        return 1
    print("replay: behaviour conforms")
    return 0
