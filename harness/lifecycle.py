"""C01, C02, C03, C05 - the test-run lifecycle (spec/lifecycle/RunTest.tla).

1. TLC model-checks the lifecycle spec (nondeterministic user code, outcome selection as the relation
   Allowed) for all invariants, and - as a non-vacuity demonstration - the `asCoded` variant, in which
   the last collected exception selects the outcome, must violate them.
2. TLC exports every program of the bounded instances (rt_exp*.cfg); each is synthesised into a real
   TestCase (harness/synth.py) and run against the result flavours, with a second run() of the same
   instance; everything observed is written as one trace per program.
3. TLC validates the traces against RunTestTrace.tla (the model follows the program with the framework
   actions, the outcome is taken from the observation) and prints one VERDICT per trace naming each
   property clause that failed."""

import json
import os
import random
import re
import tempfile

from . import tlc
from .common import BUILD, Report, jdump, sig_hash, use_repo

PROPS = ("C01", "C02", "C03", "C05")

CLAUSES = {
    "C01": ("c01_bracket", "c01_base"),
    "C02": ("c02_order", "c02_undone", "c02_rerun"),
    "C03": ("c03_sound", "c03_verdict"),
    "C05": ("c05_details", "c05_bytes", "c05_handlers"),
}
# configs whose programs are also run by SynchronousDeferredRunTest / AsynchronousDeferredRunTest: cfg -> modulus of
# the sample (hash % m == 0: syncd, == 1: async)
RUNNER_CFGS = {"rt_exp_faults1.cfg": 3, "rt_exp_faults.cfg": 6, "rt_exp_faults_t.cfg": 3, "rt_exp_nested.cfg": 2, "rt_exp_patch.cfg": 2}

MC_CFGS = {
    "quick": (("rt_mc1.cfg", False), ("rt_mc_x.cfg", False), ("rt_coded.cfg", True)),
    "thorough": (("rt_mc1.cfg", False), ("rt_mc_x.cfg", False), ("rt_mc_t.cfg", False), ("rt_coded.cfg", True)),
}
UNITS = ["setUp", "body", "tearDown", "c1", "c2", "c3"]
BASES = ["traceback", "Failed expectation", "foo", "fxd", "diff", "reason", "hx", "empty"]


def normalise_prog(p):
    script = {u: list(p["script"].get(u, [])) for u in UNITS}
    return {"decor": bool(p["decor"]), "onexc": bool(p["onexc"]), "preforce": bool(p.get("preforce", False)), "xfdec": bool(p.get("xfdec", False)), "script": script}


def split_name(nm):
    """name -> (base, n): base = the longest known base name the observed name starts with (renamed details keep
    their base as a prefix: 'traceback-1', 'traceback-1-2'); n = 0 for the bare name."""
    for b in sorted(BASES, key=len, reverse=True):
        if nm == b:
            return b, 0
        if nm.startswith(b + "-"):
            m = re.match(r"^-(\d+)$", nm[len(b) :])
            return b, (int(m.group(1)) if m else 99)
    return nm, 0


def parse_details(snap, env):
    """observed details -> [{"b","n","cids":[...],"epoch":int}]"""
    out = []
    used_fmarks = set()
    for nm, ctype, data in snap or []:
        b, n = split_name(nm)
        text = data.decode("utf8", "replace")
        cids = []
        if b == "empty" and data == b"":
            cids.append("user:empty-%d" % n)
        epoch = 0
        for m in re.finditer(r"MARK-([A-Za-z0-9_:]+)-(\d+)", text):
            c = "tb:%s:%s" % (m.group(1), m.group(2))
            if c not in cids:
                cids.append(c)
        m = re.match(r"^(user:[A-Za-z ]+-\d+)\|", text)
        if m:
            cids.append(m.group(1))
            e = re.search(r"epoch=(\d+)", text)
            epoch = int(e.group(1)) if e else -1
        if re.match(r"^hx:[A-Za-z0-9_:]+:\d+$", text):
            cids.append(text)
        m = re.match(r"^((mm|fx):[a-z0-9_]+:[A-Za-z ]+(-\d+)?)(\|epoch=(\d+))?$", text)
        if m:
            cids.append(m.group(1))
            if m.group(5) is not None:
                epoch = int(m.group(5))
        for m in re.finditer(r"fe:(m\d)", text):
            cids.append("fe:" + m.group(1))
        for m in re.finditer(r"skipreason:[A-Za-z0-9_:]+:\d+", text):
            cids.append(m.group(0))
        # framework-raised exceptions carry no marker of ours: recognise them by their text
        if "Forced Test Failure" in text:
            cids.append("tb:force:1")
        for k, (snippet, cid) in enumerate(env.fmarks):
            if snippet in text and k not in used_fmarks:
                # a framework exception raised while handling ours chains ours into its traceback text;
                # several framework exceptions with the same text (nested SetupErrors) are taken in order
                cids = [c for c in cids if not c.startswith("tb:")] + [cid]
                used_fmarks.add(k)
                break
        out.append({"b": b, "n": n, "cids": cids or ["?"], "epoch": epoch})
    return out


def observe(prog, flavours, runner=None):
    """runner: None (RunTest) or "async" / "syncd": the same program run by the Twisted runners (plain programs only)."""
    from . import synth

    prog = normalise_prog(prog)
    flav = []
    first = None
    for fl in flavours:
        env = synth.Env(prog)
        cls = (
            synth.RUNNER_CLASSES[runner] if runner
            else synth.SynthSkipped if prog["decor"]
            else synth.SynthExpectedFailure if prog["xfdec"]
            else synth.SynthRunTestWith if fl == "rtw"
            else synth.SynthPlain
        )
        case = cls(env)
        o, res = synth._run(case, env, fl)
        flav.append(o)
        if fl == "ext":
            first = (case, env, res, o)
    if prog["decor"] and not runner:
        # the reason of the decorator is data: an empty one must give the same bracket and outcome
        for fl in flavours:
            env2 = synth.Env(prog)
            o, _res = synth._run(synth.SynthSkippedEmpty(env2), env2, fl)
            o["name"] = fl + "-emptyreason"
            flav.append(o)
    assert flavours[0] == "ext"
    case, env, res, o = first
    hpos = [i for i, e in enumerate(env.events) if e[0] == "handler"]
    opos = [i for i, e in enumerate(env.events) if e[0] == "outcome"]
    obs = {
        "flav": flav,
        "ran": list(env.ran),
        "seen": list(env.seen),
        "left": len(case._cleanups),
        "attrsAfter": env.attrs(),
        "details": parse_details(res.snap, env),
        "hcalls": len(hpos),
        "hbefore": len([i for i in hpos if not opos or i < opos[0]]),
        "anomalies": len(env.anomalies),
    }
    # second run of the SAME instance against a fresh extended result
    ran1, seen1 = obs["ran"], obs["seen"]
    env.reset()
    o2, res2 = synth._run(case, env, "ext")
    obs["run2"] = {"ran": list(env.ran), "seen": list(env.seen), "names": o2["names"], "outcome": o2["outcome"], "prop": o2["prop"]}
    obs["anomalies"] += len(env.anomalies)
    # ... and a third one: state that only accumulates shows from the third run on
    env.reset()
    o3, res3 = synth._run(case, env, "ext")
    run3 = {"ran": list(env.ran), "seen": list(env.seen), "names": o3["names"], "outcome": o3["outcome"], "prop": o3["prop"]}
    obs["anomalies"] += len(env.anomalies)
    if run3 != obs["run2"]:
        # reported through the same clause: make run2 carry the divergent third run
        obs["run2"] = run3
    return {"prog": prog, "obs": obs}


def _observe_job(job):
    tr = observe(job[0], job[1], job[2] if len(job) > 2 else None)
    if len(job) > 2 and job[2]:
        tr["runner"] = job[2]
        tr["judge"] = runner_clauses(job[0], job[2])
    return tr


BASE_KINDS = ("ki", "exit", "subki", "abort")
C02_CLAUSES = ("c01_bracket", "c02_order", "c02_undone", "c02_rerun")


def _mentions(prog, names, units=None):
    return any(
        st.get("a") in names or st.get("b") in names
        for u, sc in prog["script"].items()
        if units is None or u in units
        for st in sc
    )


def runner_clauses(prog, runner):
    """Which clauses a run of `prog` by one of the Twisted runners is judged on (None = all, () = do not run).
    SynchronousDeferredRunTest: everything (a synchronous program must behave as under RunTest, cf. C20).
    AsynchronousDeferredRunTest: its cleanup loop is a different mechanism (tracebacks attached directly, only the last
    cleanup exception takes part in the outcome, MultipleExceptions not unpacked there) and the listed properties do not
    quantify over runners: staging, order, undo and re-run (C02) are judged for every program without a
    non-Exception fault; outcome and details (C01 base / C03 / C05) only when no cleanup raises."""
    if prog["decor"] or prog["xfdec"]:
        return ()
    if runner == "syncd":
        return None
    if _mentions(prog, BASE_KINDS):
        return ()
    cleanup_faulty = any(
        sc and sc[-1]["op"] not in ("ret",) for u, sc in prog["script"].items() if u not in ("setUp", "body", "tearDown")
    )
    return C02_CLAUSES if cleanup_faulty else None


def fault_key(prog):
    ks = []
    for u in UNITS:
        sc = prog["script"].get(u, [])
        if sc and sc[-1]["op"] in ("raise", "raise2", "raise2n", "raise0", "retnoup", "failfixture"):
            ks.append("%s:%s:%s:%s" % (u, sc[-1]["op"], sc[-1]["a"], sc[-1]["b"]))
    return ks


def prog_key(prog):
    return jdump(prog)


def classify(trace, verdict, clause):
    """Signature of a failing clause: coarse explanation class + the minimal shape of the program."""
    obs = trace["obs"]
    ext = obs["flav"][0]
    faults = fault_key(trace["prog"])
    kinds = [f.split(":")[2] for f in faults]
    if clause in ("c03_sound", "c01_base"):
        return "%s:obs=%s/%s:allowed=%s:nraised=%d" % (
            clause,
            ext["outcome"],
            ext["prop"],
            "+".join(sorted(verdict["allowed"])),
            verdict["nraised"],
        )
    return "%s:faults=%s" % (clause, "+".join(sorted(set(kinds))) or "none")


def export_programs(rep, cfg, workers=8, simulate=None, seed=None):
    kw = {}
    if simulate:
        kw = dict(simulate=simulate, seed=seed)
    r = tlc.run_tlc("lifecycle", "MCRunTest", cfg, coverage=True, timeout=3000, workers=workers, **kw)
    tlc.require_ok(r, "lifecycle " + cfg)
    rep.add_tlc(r, cfg)
    progs = {}
    for row in tlc.exported(r):
        p = normalise_prog(row["prog"])
        progs.setdefault(prog_key(p), p)
    if not progs:
        raise tlc.MachineryError("lifecycle %s exported no programs" % cfg)
    return list(progs.values())


def validate(rep, traces, workers=8):
    """Run TLC on RunTestTrace.tla over a batch of traces; returns {tid: verdict}."""
    os.makedirs(BUILD, exist_ok=True)
    fd, path = tempfile.mkstemp(prefix="rt-trace-", suffix=".json", dir=BUILD)
    try:
        with os.fdopen(fd, "w") as f:
            # "runner" / "judge" are the driver's own bookkeeping (and JSON null is not a TLA+ value)
            json.dump([{k: v for k, v in t.items() if k in ("prog", "obs")} for t in traces], f)
        r = tlc.run_tlc(
            "lifecycle",
            "RunTestTrace",
            "rt_trace.cfg",
            env={"TRACE_FILE": path},
            workers=workers,
            timeout=3000,
            collect=("VERDICT",),
        )
    finally:
        os.unlink(path)
    tlc.require_ok(r, "lifecycle trace validation")
    rep.add_tlc(r, "rt_trace.cfg (%d traces)" % len(traces))
    out = {}
    for t in r.printed:
        if t[0] == "VERDICT":
            out[t[1]] = json.loads(t[2])
    return out


def run(tier, pid):
    use_repo()
    from . import synth

    rep = Report(
        pid,
        tier,
        "model_checking",
        "programs = (skip decorator?, addOnException handler?, one script of user steps per unit: setUp/body/tearDown/"
        "cleanups) exported by TLC from RunTest.tla (exhaustive within the bounds of rt_exp*.cfg, random via -simulate); "
        "each is synthesised into a real TestCase, run against 7 result flavours and re-run; the observation is validated "
        "by TLC against RunTestTrace.tla. Non-trivial = program with >= 1 faulty unit (or a nested/late cleanup "
        "registration, expectThat, patch or fixture); distinct by program.",
    )
    rng = random.Random(rep.seed)
    # 1. the design itself
    for cfg, expect_violation in MC_CFGS[tier]:
        r = tlc.run_tlc("lifecycle", "MCRunTest", cfg, coverage=not expect_violation, timeout=3000, workers=8)
        if expect_violation:
            if r.violated not in ("OutcomeSound", "BaseExcSurvives"):
                raise tlc.MachineryError("asCoded variant should violate OutcomeSound/BaseExcSurvives, got %r %r" % (r.violated, r.error))
            rep.extra["asCoded_counterexample"] = r.violated
        else:
            tlc.require_ok(r, "lifecycle " + cfg)
            tlc.require_coverage(
                r,
                ["StartTest", "EnterUnit", "Step", "EndUnit", "PopCleanup", "SysCleanup", "ForceFail", "Report", "StopTest", "Rerun"]
                + ([] if cfg == "rt_mc_x.cfg" else ["DecoratedSkip"]),
                cfg,
            )
        rep.add_tlc(r, cfg)
    # 2. programs: (config, flavours to run against)
    ALL = synth.FLAVOURS
    if tier == "quick":
        plan = [
            ("rt_exp_faults.cfg", ALL, {}),
            ("rt_exp_faults1.cfg", ("ext", "py26", "stream", "rtw"), {}),
            ("rt_exp_preforce.cfg", ("ext", "tt"), {}),
            ("rt_exp_xfdec.cfg", ("ext", "py26", "stream"), {}),
            ("rt_exp_details.cfg", ("ext", "tt"), {}),
            ("rt_exp_nested.cfg", ("ext",), {}),
            ("rt_exp_sibling.cfg", ("ext", "tt"), {}),
            ("rt_exp_patch.cfg", ("ext",), {}),
            ("rt_exp_handlers.cfg", ("ext", "py27"), {}),
            ("rt_exp_triples.cfg", ("ext", "py27", "stream"), {}),
            ("rt_sim.cfg", ALL, dict(workers=4, simulate=dict(num=100, depth=80), seed=rep.seed + 1)),
        ]
        mc_cfgs = (("rt_mc1.cfg", False), ("rt_coded.cfg", True))
    else:
        plan = [
            ("rt_exp_faults_t.cfg", ALL, {}),
            ("rt_exp_faults1.cfg", ALL, {}),
            ("rt_exp_preforce.cfg", ("ext", "tt"), {}),
            ("rt_exp_xfdec.cfg", ("ext", "py26", "stream"), {}),
            ("rt_exp_faults3.cfg", ("ext", "tt", "stream"), {}),
            ("rt_exp_details_t.cfg", ("ext", "tt"), {}),
            ("rt_exp_details2.cfg", ("ext",), {}),
            ("rt_exp_nested.cfg", ("ext",), {}),
            ("rt_exp_sibling.cfg", ("ext", "tt"), {}),
            ("rt_exp_patch.cfg", ("ext",), {}),
            ("rt_exp_handlers.cfg", ("ext", "py27"), {}),
            ("rt_exp_triples.cfg", ("ext", "py27", "stream"), {}),
            ("rt_sim.cfg", ALL, dict(workers=8, simulate=dict(num=2500, depth=80), seed=rep.seed + 1)),
        ]
        mc_cfgs = (("rt_mc1.cfg", False), ("rt_mc_t.cfg", False), ("rt_coded.cfg", True))
    seen_progs = set()
    ntraces = 0

    def judge(batch):
        """4. TLC decides a batch of observations; violations of `pid` are recorded."""
        nonlocal ntraces
        if not batch:
            return
        verdicts = validate(rep, batch)
        for i, tr in enumerate(batch):
            v = verdicts.get(i + 1)
            if v is None:
                # TLC could not follow the program to completion with the framework actions; the model is
                # deterministic in follow mode, so this is a machinery problem, not a verdict
                raise tlc.MachineryError("trace not completed by the trace spec: %s" % jdump(tr["prog"]))
            ntraces += 1
            faults = fault_key(tr["prog"])
            steps = sum(len(s) for s in tr["prog"]["script"].values())
            nk = prog_key(tr["prog"]) if (faults or steps > 4) else None
            rep.case(
                sample={"prog": tr["prog"], "outcome": tr["obs"]["flav"][0]["outcome"]} if (nk and ntraces % 997 == 3) else None,
                nontrivial_key=nk,
            )
            rep.traces += 1
            if not v["anomalies"]:
                raise tlc.MachineryError("synthesised program misbehaved (harness anomaly): %s" % jdump(tr["prog"]))
            for clause in CLAUSES[pid]:
                if tr.get("judge") is not None and clause not in tr["judge"]:
                    continue
                if not v[clause]:
                    rep.violation(
                        clause,
                        classify(tr, v, clause) + (":runner=" + tr["runner"] if tr.get("runner") else ""),
                        {"prog": tr["prog"], "runner": tr.get("runner")},
                        expected={"allowed": v["allowed"], "nraised": v["nraised"]},
                        observed=tr["obs"],
                    )

    selftested = []

    def selftest(batch):
        """Binding self-test: corrupted copies of a real observation must fail the corresponding clause."""
        import copy

        probe = next(
            (t for t in batch if len(t["obs"]["ran"]) >= 3 and t["obs"]["details"] and t["obs"]["flav"][0]["outcome"] in ("failure", "error")),
            None,
        )
        if probe is None:
            return
        c1 = copy.deepcopy(probe)
        c1["obs"]["flav"][0]["names"] = ["startTest", "stopTest"]
        c2 = copy.deepcopy(probe)
        c2["obs"]["ran"] = list(reversed(c2["obs"]["ran"]))
        c3 = copy.deepcopy(probe)
        c3["obs"]["flav"][0]["outcome"] = "success"
        c4 = copy.deepcopy(probe)
        c4["obs"]["details"] = []
        v = validate(rep, [c1, c2, c3, c4])
        got = [v[1]["c01_bracket"], v[2]["c02_order"], v[3]["c03_sound"], v[4]["c05_details"]]
        if any(got):
            raise tlc.MachineryError("corrupted lifecycle traces were accepted (bracket, order, sound, details) = %r" % (got,))
        selftested.append(True)
        rep.extra["trace_selftest"] = "4 corrupted copies of a recorded run rejected by c01_bracket / c02_order / c03_sound / c05_details"

    batch = []
    import multiprocessing

    pool = multiprocessing.Pool(int(os.environ.get("VERIF_PROCS", "8")))  # forked after use_repo(): same tree under test
    try:
        for cfg, flavours, kw in plan:
            todo = []
            for p in export_programs(rep, cfg, **kw):
                k = prog_key(p)
                if k in seen_progs:
                    continue
                seen_progs.add(k)
                todo.append((p, flavours))
                # the same programs run by the Twisted runners (a deterministic sample: by content hash)
                if cfg in RUNNER_CFGS:
                    h = int(sig_hash(k), 16)
                    for i, runner in enumerate(("syncd", "async")):
                        if h % RUNNER_CFGS[cfg] == i and runner_clauses(p, runner) != ():
                            todo.append((p, ("ext",), runner))
            # 3. run the real code (programs are independent: in parallel, order preserved)
            for obs in pool.imap(_observe_job, todo, chunksize=64):
                batch.append(obs)
                if len(batch) >= 20000:
                    if not selftested:
                        selftest(batch)
                    judge(batch)
                    batch = []
    finally:
        pool.close()
        pool.join()
    if not selftested:
        selftest(batch)
    judge(batch)

    # 5. executions nobody here constructed: the repository's own suite under the TESTTOOLS_VERIF hooks
    if pid in ("C01", "C02", "C03"):
        from . import suitetrace

        suitetrace.run(rep, pid)
        rep.assume("suite traces: runs whose result is not wrapped by ExtendedToOriginalDecorator, or whose _run_core was stubbed by the test, are skipped")
    rep.extra["programs"] = ntraces
    rep.extra["flavours"] = list(synth.FLAVOURS)
    rep.assume("user addDetail names are absent from the details at the time of the call; 'reason' is never used")
    rep.assume("addOnException handlers never raise; custom handlers only for Exception subclasses")
    rep.assume("stream flavour: startTest = 'inprogress' event, outcome = the single final status, stopTest emits nothing")
    return rep.finish()


def expect_that_check(rep, tier):
    """For C07: programs in which expectThat mismatches (possibly followed by a skip / expected failure / failure in a
    later stage or cleanup) - the test must fail once finished and the mismatch details must all arrive.
    Decided by RunTestTrace.tla like the lifecycle properties; returns the number of programs."""
    from . import synth

    progs = [p for p in export_programs(rep, "rt_exp_expect.cfg")
             if any(st["op"] == "expect" for sc in p["script"].values() for st in sc)]
    traces = [observe(p, ("ext", "tt")) for p in progs]
    verdicts = validate(rep, traces)
    for i, tr in enumerate(traces):
        v = verdicts.get(i + 1)
        if v is None:
            raise tlc.MachineryError("expectThat program not completed by the trace spec: %s" % jdump(tr["prog"]))
        rep.case(nontrivial_key="expect:" + prog_key(tr["prog"]))
        rep.traces += 1
        for clause in ("c03_sound", "c03_verdict", "c05_details"):
            if not v[clause]:
                rep.violation(
                    "expectThat:" + clause,
                    "expectThat:" + classify(tr, v, clause),
                    {"prog": tr["prog"]},
                    expected={"allowed": v["allowed"]},
                    observed=tr["obs"]["flav"][0],
                )
    return len(traces) + expect_that_async(rep)


def expect_that_async(rep):
    """C07's "expectThat never raises but makes the test fail once it has finished" under the Twisted runner:
    scenarios of AsyncRunTest.tla (spec/twisted, ar_expect.cfg) in which one unit - setUp, test, tearDown or a
    cleanup - makes a mismatching expectThat; the real AsynchronousDeferredRunTest must not report success."""
    import gc

    from . import c14

    r = tlc.run_tlc("twisted", "MCAsyncRunTest", "ar_expect.cfg", coverage=True, timeout=1800, workers=4)
    tlc.require_ok(r, "C07 ar_expect.cfg")
    rep.add_tlc(r, "ar_expect.cfg")
    n = 0
    was = gc.isenabled()
    gc.collect()
    gc.disable()
    try:
        for row in tlc.exported(r):
            scen, exp = row["scen"], row["exp"]
            if scen["side"]["what"] != "expect":
                continue
            n += 1
            scen["suppress"], scen["store"] = True, True
            obs = c14.observe(scen)
            if c14.risky(scen) or n % 50 == 0:
                gc.collect(0)
            rep.case(nontrivial_key="expect-async:" + jdump(scen))
            rep.traces += 1
            bad = c14.compare(exp, obs)
            if "success-iff" in bad or "one-outcome" in bad:
                rep.violation(
                    "expectThat:async-runner",
                    "expectThat:async:" + c14.signature(scen, "success-iff" if "success-iff" in bad else "one-outcome"),
                    {"scenario": scen},
                    expected=exp,
                    observed=obs,
                )
    finally:
        gc.collect()
        if was:
            gc.enable()
    if n == 0:
        raise tlc.MachineryError("C07: ar_expect.cfg exported no expectThat scenario")
    return n


def replay_file(path, pid):
    use_repo()
    from . import synth

    v = json.load(open(path))
    runner = v["scenario"].get("runner")
    tr = observe(v["scenario"]["prog"], ("ext",) if runner else synth.FLAVOURS, runner)
    rep = Report(pid, "quick", "model_checking", "replay")
    verdict = validate(rep, [tr])[1]
    mask = runner_clauses(tr["prog"], runner) if runner else None
    bad = [c for c in CLAUSES[pid] if not verdict[c] and (mask is None or c in mask)]
    print("replay verdict:", {c: verdict[c] for c in CLAUSES[pid]})
    if bad:
        print("VIOLATION property=%s replay=%s" % (pid, path))
        return 1
    return 0
