"""X05 - ResourcedToStreamDecorator: one stream event per resource lifecycle stage, ordinary reporting unaffected.

Spec: spec/extra/ResStream.tla.  TLC checks the code-shaped decorator (supplied time, tag context, in-progress table
and counters of the StreamSummary hook: mechanism) against folds over the call history and over the emitted stream
(meaning): OneEventPerStage, ResourceEvents, OrdinaryUnaffected, SummaryMeaning, ResourceStagesCounted - and exports
every behaviour of the bounded instance (plus random deeper ones from tlc -simulate).  Each behaviour is replayed into
a real ResourcedToStreamDecorator wrapping the logging StreamResult double; after EVERY call the events that reached
the decorated result (test_id, test_status, runnable, timestamp, test_tags, file_name) and the decorator's own
summary (testsRun, errors+failures, skipped, expectedFailures, unexpectedSuccesses, wasSuccessful) are compared with
the spec.  Differentially, the same history without the resource calls is run through a plain
ExtendedToStreamDecorator: the ordinary events must be the same.
"""

import datetime

from . import tlc
from .common import Report, use_repo, jdump

PROPS = ("X05",)

UTC = datetime.timezone.utc
ACTIONS = ["StartTestRun", "Time", "TagsOn", "StartTest", "Outcome", "StraySkip", "StopTest", "Resource", "StopTestRun"]

TESTS = {"t1": "pkg.mod.T.test_é", "t2": "t2"}


class WithId:
    def id(self):
        return "res.one"


class Plain:
    pass


class Other:
    def id(self):
        return "res.one"


def make_resources():
    r3 = Plain()
    r3.id = lambda: "nice.res"
    return {"R1": WithId(), "R2": Plain(), "R3": r3, "R4": Other()}


# abstract identifier -> concrete string (the class-name fallback is computed here, independently of the code)
IDENT = {
    "res.one": "res.one",
    "nice.res": "nice.res",
    "mod.Plain": "%s.%s" % (Plain.__module__, Plain.__name__),
    "mod.WithId": "%s.%s" % (WithId.__module__, WithId.__name__),
    "mod.Other": "%s.%s" % (Other.__module__, Other.__name__),
}


def ts_of(s):
    return datetime.datetime(2000, 1, 1, 0, 0, int(s), tzinfo=UTC)


def concrete_id(i):
    if len(i) == 2:
        return "%s.%s" % (IDENT[i[0]], i[1])
    return TESTS[i[0]]


class _Test:
    def __init__(self, tid):
        self._id = tid

    def id(self):
        return self._id


def proj_event(ev):
    return {
        "id": ev.test_id,
        "status": ev.test_status,
        "runnable": ev.runnable,
        "tags": None if ev.test_tags is None else sorted(ev.test_tags),
        "fname": ev.file_name,
    }


def exp_event(e):
    return {
        "id": concrete_id(e["id"]),
        "status": None if e["status"] == "none" else e["status"],
        "runnable": e["runnable"],
        "tags": None if e["tags"] == ["~"] else sorted(e["tags"]),
        "fname": None if e["fname"] == "none" else e["fname"],
    }


def ts_ok(e, ev, before, after):
    if e["ts"] == "clock":
        t = ev.timestamp
        return isinstance(t, datetime.datetime) and t.tzinfo is not None and before <= t <= after
    return ev.timestamp == ts_of(e["ts"])


class Driver:
    def __init__(self, cls):
        from testtools.testresult import doubles

        self.target = doubles.StreamResult()
        self.obj = cls(self.target)
        self.res = make_resources()
        self.tests = {k: _Test(v) for k, v in TESTS.items()}
        self.seen = 0

    def call(self, h):
        a, arg = h["a"], h["arg"]
        o = self.obj
        if a == "startTestRun":
            o.startTestRun()
        elif a == "stopTestRun":
            o.stopTestRun()
        elif a == "time":
            o.time(ts_of(arg))
        elif a == "tags":
            o.tags({"g"}, set())
        elif a == "startTest":
            o.startTest(self.tests[arg])
        elif a == "stopTest":
            o.stopTest(self.tests[arg])
        elif a == "outcome":
            t = self.tests[arg["t"]]
            k = arg["k"]
            if k == "success":
                o.addSuccess(t)
            elif k == "fail":
                o.addFailure(t, details={})
            elif k == "skip":
                o.addSkip(t, reason="why é")
            elif k == "xfail":
                o.addExpectedFailure(t, details={})
            elif k == "uxsuccess":
                o.addUnexpectedSuccess(t)
            else:
                raise tlc.MachineryError("X05: unknown outcome %r" % k)
        elif a == "resource":
            name = {"start": "start", "stop": "stop"}[arg["ph"]] + {"make": "MakeResource", "clean": "CleanResource"}[arg["m"]]
            getattr(o, name)(self.res[arg["r"]])
        else:
            raise tlc.MachineryError("X05: unknown action %r" % a)

    def fresh_events(self):
        evs = self.target._events[self.seen :]
        self.seen = len(self.target._events)
        return evs

    def summary(self):
        o = self.obj
        return {
            "testsRun": o.testsRun,
            "problems": sorted([c.id() for c, _ in o.errors] + [c.id() for c, _ in o.failures]),
            "skipped": sorted(c.id() for c, _ in o.skipped),
            "xfails": sorted(c.id() for c, _ in o.expectedFailures),
            "uxs": sorted(c.id() for c in o.unexpectedSuccesses),
        }


def exp_summary(s):
    return {
        "testsRun": s["testsRun"],
        "problems": sorted(concrete_id(i) for i in s["errors"]),
        "skipped": sorted(concrete_id(i) for i in s["skipped"]),
        "xfails": sorted(concrete_id(i) for i in s["xfails"]),
        "uxs": sorted(concrete_id(i) for i in s["uxs"]),
    }


def replay(hist):
    """Return None or (step index, clause, expected, observed)."""
    from testtools.testresult import real

    d = Driver(real.ResourcedToStreamDecorator)
    plain = Driver(real.ExtendedToStreamDecorator)
    plain_events, ord_events = [], []
    for i, h in enumerate(hist):
        a = h["a"]
        before = datetime.datetime.now(UTC)
        try:
            d.call(h)
        except tlc.MachineryError:
            raise
        except Exception as ex:  # none of these calls is documented to raise
            return (i, "raised", None, "%s: %s" % (type(ex).__name__, ex))
        after = datetime.datetime.now(UTC)
        got = d.fresh_events()
        # run-level calls forwarded to the decorated result
        lead = []
        while got and got[0][0] in ("startTestRun", "stopTestRun"):
            lead.append(got.pop(0)[0])
        exp_lead = ["startTestRun"] if h["fresh"] else (["stopTestRun"] if a == "stopTestRun" else [])
        if lead != exp_lead or any(ev[0] != "status" for ev in got):
            return (i, "run-bracket-forwarded", exp_lead, lead + [ev[0] for ev in got if ev[0] != "status"])
        exp = h["new"]
        is_res = a == "resource"
        if len(got) != len(exp):
            clause = "one-event-per-stage" if is_res else "ordinary-events"
            return (i, clause, [exp_event(e) for e in exp], [proj_event(ev) for ev in got])
        for e, ev in zip(exp, got):
            pe, pg = exp_event(e), proj_event(ev)
            if is_res:
                # D2-D4 name test_id, test_status, runnable; nothing is promised about the other fields
                for fld, clause in (("id", "resource-test-id"), ("status", "resource-status"), ("runnable", "resource-runnable")):
                    if pe[fld] != pg[fld]:
                        return (i, clause, pe, pg)
                if not ts_ok(e, ev, before, after):
                    return (i, "resource-timestamp", e["ts"], repr(ev.timestamp))
            else:
                if pe != pg:
                    return (i, "ordinary-events", pe, pg)
                if not ts_ok(e, ev, before, after):
                    return (i, "ordinary-timestamp", e["ts"], repr(ev.timestamp))
                ord_events.append((pg, None if e["ts"] == "clock" else ev.timestamp))
        if d.obj.__dict__.get("_started"):
            obs = d.summary()
            es = exp_summary(h["sum"])
            if obs != es:
                clause = "summary-resource-stage" if is_res or a == "stopTestRun" else "summary"
                return (i, clause, es, obs)
            ok = not es["problems"]
            if d.obj.wasSuccessful() != ok:
                return (i, "summary-wasSuccessful", ok, d.obj.wasSuccessful())
        # the same history without the resource calls, through the plain decorator
        if not is_res:
            try:
                plain.call(h)
            except Exception as ex:
                raise tlc.MachineryError("X05: plain ExtendedToStreamDecorator raised %r at %r" % (ex, h))
            for ev in plain.fresh_events():
                if ev[0] == "status":
                    plain_events.append((proj_event(ev), ev.timestamp if ev.timestamp is not None and ev.timestamp.year == 2000 else None))
            if plain_events != ord_events:
                return (i, "ordinary-unaffected", plain_events[-3:], ord_events[-3:])
    return None


def shape(hist):
    out = []
    for h in hist:
        a, arg = h["a"], h["arg"]
        if a == "resource":
            out.append("%s%s(%s)" % (arg["ph"], arg["m"].capitalize(), arg["r"]))
        elif a == "outcome":
            out.append("%s(%s)" % (arg["k"], arg["t"]))
        elif a in ("time", "startTest", "stopTest"):
            out.append("%s(%s)" % (a, arg))
        else:
            out.append(a + ("*" if a == "startTest" and h["fresh"] else ""))
    return out


def nontrivial_key(hist):
    """Non-trivial: a resource stage inside a test, after a time() call, left open at stopTestRun, started twice,
    or two resources / make+clean interleaved."""
    in_test = timed = False
    kinds = set()
    res_calls = []
    hit = False
    for h in hist:
        a = h["a"]
        if a == "startTestRun":
            in_test = timed = False
        elif a == "startTest":
            in_test = True
        elif a == "stopTest":
            in_test = False
        elif a == "time":
            timed = True
        elif a == "resource":
            arg = h["arg"]
            res_calls.append((arg["r"], arg["m"], arg["ph"]))
            kinds.add((arg["r"], arg["m"]))
            if in_test or timed:
                hit = True
        elif a == "stopTestRun" and any(len(i) == 2 for i in h["sum"]["errors"]):
            hit = True
    if len(kinds) > 1 or len(res_calls) != len(set(res_calls)):
        hit = True
    return jdump(shape(hist)) if hit else None


def signature(hist, clause, observed):
    """One defect, one signature: the failing clause, the call it failed at (resource calls: which stage and which
    kind of resource; outcomes: which outcome) and the exception class when the call raised."""
    last = hist[-1]
    a, arg = last["a"], last["arg"]
    if a == "resource":
        at = "%s%s:%s" % (arg["ph"], arg["m"].capitalize(), {"R1": "id-method", "R2": "no-id", "R3": "id-attribute", "R4": "id-method"}[arg["r"]])
        if clause not in ("resource-test-id",):
            at = "%s%s" % (arg["ph"], arg["m"].capitalize())
    elif a == "outcome":
        at = "outcome:" + arg["k"]
    else:
        at = a
    extra = ""
    if clause == "raised":
        extra = ":" + str(observed).split(":", 1)[0]
    return "x05:%s:%s%s" % (clause, at, extra)


def run(tier, pid="X05"):
    use_repo()
    rep = Report(
        "X05",
        tier,
        "model_checking",
        "behaviours = startTestRun ... stopTestRun brackets (1-2 runs, also the old-style startTest that starts the run "
        "itself) of time() / tags() / startTest / outcome (success, fail, skip with reason, xfail, uxsuccess, skip without "
        "startTest) / stopTest / start|stop Make|Clean Resource over resources with an id() method, without any id, with "
        "an instance-attribute id, and two objects sharing an identifier; exported by TLC (exhaustive up to the bounds of "
        "spec/extra/rs_expA.cfg) or tlc -simulate; each replayed into the real ResourcedToStreamDecorator with per-call "
        "comparison. Non-trivial = a resource stage inside a test, after a time() call, left open at stopTestRun, "
        "repeated, or several resources/stages interleaved; distinct by call sequence.",
    )
    rep.assume("lifecycle calls are explored inside startTestRun/stopTestRun (a lifecycle call on a never-started decorator raises AttributeError in the current tree; the documentation says nothing about that order)")
    rep.assume("of a resource event only test_id, test_status, runnable and timestamp are compared (the fields the docstring names + the current time()); with no time() supplied the timestamp must be an aware datetime between the instants just before and after the call")
    rep.assume("'fail' may land in errors or failures of the summary (compared as their union); incomplete stages are reported when stopTestRun is called, as StreamSummary.wasSuccessful documents")
    rep.assume("tags() is called at run level only; details other than the skip reason are the business of C09")
    jobs = [("rs_mcB.cfg", {}, False), ("rs_expA.cfg", {}, True)]
    nsim = 120 if tier == "quick" else 4000
    jobs.append(("rs_sim.cfg", dict(simulate=dict(num=nsim, depth=24), seed=rep.seed + 1), True))
    for cfg, kw, export in jobs:
        r = tlc.run_tlc("extra", "MCResStream", cfg, coverage=True, timeout=600, workers=4, **kw)
        tlc.require_ok(r, "X05 " + cfg)
        if "simulate" not in kw:
            tlc.require_coverage(r, ACTIONS, "X05 " + cfg)
        rep.add_tlc(r, cfg)
        if not export:
            continue
        nb = 0
        for hist in tlc.exported(r):
            nb += 1
            nk = nontrivial_key(hist)
            bad = replay(hist)
            rep.case(sample={"calls": shape(hist)} if nk and rep.evaluations % 2500 == 17 else None, nontrivial_key=nk)
            rep.traces += 1
            if bad:
                i, clause, exp, obs = bad
                cut = hist[: i + 1]
                rep.violation(clause, signature(cut, clause, obs), {"behaviour": cut, "cfg": cfg}, expected=exp, observed=obs)
        if nb == 0:
            raise tlc.MachineryError("X05 %s exported no behaviours" % cfg)
    if not rep.samples:
        rep.sample({"note": "see tlc_runs"})
    rep.exhaustive = False
    rep.extra["explanation"] = "exhaustive for rs_mcB/rs_expA (bounds in spec/extra/rs_*.cfg); random for rs_sim.cfg"
    return rep.finish()


def replay_file(path, pid="X05"):
    import json

    use_repo()
    v = json.load(open(path))
    bad = replay(v["scenario"]["behaviour"])
    if bad:
        print("VIOLATION property=X05 replay=%s" % path)
        print("  step=%s clause=%s expected=%r observed=%r" % bad)
        return 1
    print("replay: behaviour conforms")
    return 0
