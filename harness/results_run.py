"""C04, harness-side clauses that need real TestCases: exit status of testtools.run and suites that stop dispatching.

The expected values come from the model: an exported behaviour of Results.tla gives, for its list of outcomes,
the verdict, the counters and the step at which shouldStop turns true.  Import after common.use_repo()."""

import io
import os
import re
import subprocess
import sys
import tempfile
import types
import unittest

from .common import BUILD, repo_path

BAD = ("error", "failure", "uxsuccess")

BODY = {
    "success": "pass",
    "error": "raise ValueError('boom')",
    "failure": "self.fail('nope')",
    "skip": "self.skipTest('why')",
    "xfail": "self.expectFailure('known', self.assertEqual, 1, 2)",
    "uxsuccess": "self.expectFailure('known', self.assertEqual, 1, 1)",
}


def module_source(kinds):
    lines = ["import testtools", "", "STARTED = []", "", "class Sample(testtools.TestCase):"]
    for i, k in enumerate(kinds):
        lines += ["    def test_%d_%s(self):" % (i + 1, k), "        STARTED.append(%d)" % (i + 1), "        " + BODY[k]]
    if not kinds:
        lines.append("    pass")
    return "\n".join(lines) + "\n"


def make_module(kinds, name="verif_sample"):
    mod = types.ModuleType(name)
    exec(compile(module_source(kinds), "<%s>" % name, "exec"), mod.__dict__)
    mod.Sample.__module__ = name
    return mod


def outcome_kinds(beh):
    return [h["c"]["kind"] for h in beh["hist"] if h["c"]["op"] == "add"]


def executed_prefix(beh, top=0):
    """number of tests a suite dispatches according to the model: up to the stopTest after which shouldStop is true"""
    n = 0
    for h in beh["hist"]:
        if h["c"]["op"] == "stopTest":
            n += 1
            if h["obs"][top]["stop"] == "T":
                return n
    return n


def final_obs(beh, node=0):
    return beh["hist"][-1]["obs"][node]


def single_plain_run(beh):
    ops = [h["c"]["op"] for h in beh["hist"]]
    return (
        ops.count("startTestRun") == 1
        and ops and ops[0] in ("startTestRun", "setff")
        and ops[-1] == "stopTestRun"
        and not any(o in ("stop", "tags", "time", "done", "progress", "subtest") for o in ops)
        and all(h["c"]["t"] == "none" or any(x["c"]["op"] == "startTest" and x["c"]["t"] == h["c"]["t"] for x in beh["hist"]) for h in beh["hist"])
    )


def run_program(kinds, failfast):
    """testtools.run.TestProgram in-process -> (exit code, parsed summary, tests started)"""
    from testtools import run
    from . import results_rt as rt

    mod = make_module(kinds)
    out = io.StringIO()
    argv = ["prog"] + (["-f"] if failfast else [])
    code = "no-exit"
    try:
        run.TestProgram(module=mod, argv=argv, stdout=out)
    except SystemExit as ex:
        code = ex.code
    return code, rt.parse_text_summary(out.getvalue()), list(mod.STARTED)


def run_subprocess(kinds, failfast):
    """python -m testtools.run <module> in a child process -> (exit status, parsed summary)"""
    from . import results_rt as rt

    os.makedirs(BUILD, exist_ok=True)
    d = tempfile.mkdtemp(prefix="c04-run-", dir=BUILD)
    try:
        with open(os.path.join(d, "verif_sample_mod.py"), "w") as f:
            f.write(module_source(kinds))
        env = dict(os.environ)
        env["PYTHONPATH"] = repo_path() + os.pathsep + d
        env["PYTHONDONTWRITEBYTECODE"] = "1"
        cmd = [sys.executable, "-m", "testtools.run"] + (["-f"] if failfast else []) + ["verif_sample_mod"]
        p = subprocess.run(cmd, cwd=d, env=env, stdout=subprocess.PIPE, stderr=subprocess.STDOUT, text=True, timeout=120)
        return p.returncode, rt.parse_text_summary(p.stdout), p.stdout[-600:]
    finally:
        import shutil

        shutil.rmtree(d, ignore_errors=True)


def run_suite(beh):
    """A unittest.TestSuite of real TestCases run against the real stack of the behaviour, failfast applied the way the
    behaviour applies it.  -> (tests started, top.wasSuccessful() or 'na', shouldStop)"""
    from . import results_rt as rt

    kinds = outcome_kinds(beh)
    mod = make_module(kinds)
    nodes = rt.build(beh["stack"]["nodes"], bool(beh["preff"]))
    top = nodes[0].obj
    for h in beh["hist"]:
        if h["c"]["op"] == "setff":
            top.failfast = bool(h["c"]["b"])
        if h["c"]["op"] == "startTest":
            break
    suite = unittest.TestSuite(unittest.defaultTestLoader.loadTestsFromTestCase(mod.Sample))
    top.startTestRun()
    try:
        suite.run(top)
    finally:
        top.stopTestRun()
    try:
        stop = top.shouldStop
    except Exception as ex:  # noqa
        stop = "raises:%s" % type(ex).__name__
    return list(mod.STARTED), stop


def run_two_problems_one_test():
    """A stdlib unittest.TestCase whose body fails and whose tearDown raises, run by TestToolsTestRunner: one test,
    two problems.  -> (parsed summary, number of problems the result holds)"""
    from testtools import run
    from . import results_rt as rt

    class Twice(unittest.TestCase):
        def test_x(self):
            self.fail("body")

        def tearDown(self):
            raise RuntimeError("teardown")

    out = io.StringIO()
    result = run.TestToolsTestRunner(stdout=out).run(unittest.TestSuite([Twice("test_x")]))
    return rt.parse_text_summary(out.getvalue()), len(result.errors) + len(result.failures) + len(result.unexpectedSuccesses)


def poll_while_forwarding(scenario):
    """Two ThreadsafeForwardingResults share a target and a semaphore.  While A is in the middle of forwarding (inside the
    target's outcome method, semaphore held) a second thread reads B.shouldStop.  scenario 'failfast': the target has failfast
    and A forwards a failure; 'stop-elsewhere': stop() was requested through a third forwarder before, A forwards a success.
    Sequentially (the model) shouldStop is true in both; the concurrent reader must be told so too.
    -> (values B read, whether B answered before A was allowed to finish)"""
    import threading

    from testtools import PlaceHolder
    from testtools.content import text_content
    from testtools.testresult import real

    inside, go = threading.Event(), threading.Event()

    class Target(real.TestResult):
        def addFailure(self, test, err=None, details=None):
            super().addFailure(test, err, details)
            inside.set()
            go.wait(10)

        def addSuccess(self, test, details=None):
            super().addSuccess(test, details=details)
            inside.set()
            go.wait(10)

    sem = threading.Semaphore(1)
    target = Target(failfast=(scenario == "failfast"))
    a = real.ThreadsafeForwardingResult(target, sem)
    b = real.ThreadsafeForwardingResult(target, sem)
    if scenario == "stop-elsewhere":
        real.ThreadsafeForwardingResult(target, sem).stop()
    t = PlaceHolder("t1")
    a.startTest(t)
    if scenario == "failfast":
        ta = threading.Thread(target=lambda: a.addFailure(t, details={"foo": text_content("x")}), daemon=True)
    else:
        ta = threading.Thread(target=lambda: a.addSuccess(t), daemon=True)
    seen = []
    tb = threading.Thread(target=lambda: seen.append(b.shouldStop), daemon=True)
    ta.start()
    try:
        if not inside.wait(10):
            return ["A never reached the target"], False
        tb.start()
        tb.join(0.3)
        early = not tb.is_alive()
    finally:
        go.set()
    ta.join(10)
    tb.join(10)
    return list(seen), early
