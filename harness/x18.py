"""X18 - Twisted log fixtures, flush_logged_errors, assert_fails_with, DebugTwisted.

Specs: spec/extra/LogFix.tla, AssertFails.tla, DebugTw.tla.

LogFix: TLC checks the two Twisted publishers (global list of observers / legacy list of wrappers, new wrapper per
log.addObserver, first-equal removal) driven by the fixtures' setUp and LIFO cleanups (mechanism) against a fold over
the stack of active fixtures (meaning): ObserversAreVisible, LegacyAgrees, DeliveryMeaning, ErrorsPartition,
FlushMeaning.  Every exported behaviour (initial registrations, enter / leave / emit / flush ..., final unwind) is
replayed on the REAL twisted.python.log / twisted.logger publishers with the real _NoTwistedLogObservers,
_TwistedLogObservers (also with an observers iterable that raises: failing setUp), _ErrorObserver (fresh _LogObserver and
the module's global one + flush_logged_errors), CaptureTwistedLogs: after EVERY call the observers of the global and of
the legacy publisher, what every observer received, the errors stored, what flush returned, the single twisted-log
detail and its text are compared.  The publishers are emptied for a behaviour and put back afterwards; the run ends by
checking that they, _log_observer and the debug flags are as the harness found them.

AssertFails: every (ending of d, exc_types, failureException, fire-before/after) replayed with real Deferreds.
DebugTw: every initial (Deferred.debug, DelayedCall.debug) x nestings of DebugTwisted(True|False) replayed.
"""

import re

from . import tlc
from .common import Report, use_repo, jdump

PROPS = ("X18",)

KNOWN_HAZARD = "x18:log:publisher-state:shadowed-observer-readded"

# ---------------------------------------------------------------------------------------------- environment


class E(Exception):
    pass


class Sub(E):
    pass


class U(Exception):
    pass


class MyFail(Exception):
    pass


CLASSES = {"E": E, "Sub": Sub, "U": U, "KI": KeyboardInterrupt}


class IterFails(Exception):
    pass


def env():
    from twisted.internet import base, defer
    from twisted.logger import globalLogPublisher
    from twisted.python import log

    from testtools.twistedsupport import _runtest as rt

    return {"g": globalLogPublisher, "lp": log.theLogPublisher, "log": log, "rt": rt, "defer": defer, "base": base}


def global_state():
    en = env()
    return {
        "global": list(en["g"]._observers),
        "legacy": list(en["lp"]._legacyObservers),
        "errors": list(en["rt"]._log_observer._errors),
        "dd": en["defer"].Deferred.debug,
        "dc": en["base"].DelayedCall.debug,
    }


class Isolated:
    """Empty publishers (and an empty global _log_observer) for one behaviour; everything put back afterwards."""

    def __enter__(self):
        en = env()
        self.en = en
        self.saved = global_state()
        en["g"]._observers[:] = []
        en["lp"]._legacyObservers[:] = []
        en["rt"]._log_observer._errors = []
        return self

    def __exit__(self, *exc):
        en = self.en
        en["g"]._observers[:] = self.saved["global"]
        en["lp"]._legacyObservers[:] = self.saved["legacy"]
        en["rt"]._log_observer._errors = list(self.saved["errors"])
        return False


_EV = re.compile(r"ev(\d+)")


def marker(ev):
    if ev.get("isError") and "failure" in ev:
        return int(_EV.search(str(ev["failure"].value)).group(1))
    msg = ev.get("message") or ()
    m = _EV.search(" ".join(map(str, msg)))
    if m is None:
        return -1
    return int(m.group(1))


# ---------------------------------------------------------------------------------------------- LogFix


class World:
    def __init__(self, en):
        self.en = en
        self.recv = {"a": [], "b": [], "m": []}
        self.a = lambda ev: self.recv["a"].append(marker(ev))
        self.b = lambda ev: self.recv["b"].append(marker(ev))
        self.m = lambda ev: self.recv["m"].append(marker(ev))
        self.eo = {"eo1": en["rt"]._LogObserver(), "eoG": en["rt"]._log_observer}
        self.eo_fixture = {}
        self.known = [(self.a, "a"), (self.b, "b"), (self.m, "m"), (self.eo["eo1"].gotEvent, "eo1"), (self.eo["eoG"].gotEvent, "eoG")]
        self.caps = {}  # name -> (fixture, content)
        self.stack = []

    def callable_of(self, name):
        return {"a": self.a, "b": self.b}[name]

    def name_of(self, observer):
        legacy = getattr(observer, "legacyObserver", None)
        target = observer if legacy is None else legacy
        for c, name in self.known:
            if c == target:
                return name
        return "?%r" % (target,)

    def global_names(self):
        return [self.name_of(o) for o in self.en["g"]._observers]

    def legacy_names(self):
        return [self.name_of(o) for o in self.en["lp"].observers]

    def learn_capture(self, name):
        for o in self.en["g"]._observers:
            legacy = getattr(o, "legacyObserver", None)
            if legacy is not None and self.name_of(o).startswith("?"):
                self.known.append((legacy, name))

    def cap_markers(self, name):
        if name not in self.caps:
            return []
        text = self.caps[name][1].as_text()
        out = []
        for x in _EV.findall(text):
            if not out or out[-1] != int(x):
                out.append(int(x))
        return out

    def tokens(self, failures):
        return [{"n": int(_EV.search(str(f.value)).group(1)), "cls": f.type.__name__} for f in failures]


def same_observers(exp, got, dup):
    if dup:
        return sorted(exp) == sorted(got)
    return exp == got


def log_replay(hist):
    """Return None or (step index, clause, expected, observed)."""
    from twisted.python.failure import Failure

    with Isolated() as iso:
        en = iso.en
        rt, log, g = en["rt"], en["log"], en["g"]
        w = World(en)
        try:
            for i, h in enumerate(hist):
                a, arg = h["a"], h["arg"]
                o = h["obs"]
                try:
                    if a == "init":
                        for name in arg:
                            if name == "m":
                                g.addObserver(w.m)
                            else:
                                log.addObserver(w.callable_of(name))
                    elif a == "enter":
                        ft = arg["ft"]
                        if ft == "noobs":
                            fx = rt._NoTwistedLogObservers()
                        elif ft == "obs":
                            fx = rt._TwistedLogObservers([w.callable_of(x) for x in arg["obs"]])
                        elif ft == "obsfail":

                            def gen(names=arg["obs"]):
                                for x in names:
                                    yield w.callable_of(x)
                                raise IterFails("the observers iterable fails")

                            fx = rt._TwistedLogObservers(gen())
                        elif ft == "err":
                            fx = rt._ErrorObserver(w.eo[arg["obs"][0]])
                            w.eo_fixture[arg["obs"][0]] = fx
                        elif ft == "cap":
                            fx = rt.CaptureTwistedLogs()
                        else:
                            raise tlc.MachineryError("X18: unknown fixture %r" % ft)
                        if ft == "obsfail":
                            try:
                                fx.setUp()
                            except Exception:
                                pass
                            else:
                                return (i, "failing-setup-not-reported", "setUp raises", "setUp returned")
                        else:
                            fx.setUp()
                            w.stack.append(fx)
                        if ft == "cap":
                            name = arg["obs"][0]
                            det = fx.getDetails()
                            if sorted(det) != ["twisted-log"]:
                                return (i, "capture-detail", ["twisted-log"], sorted(det))
                            w.caps[name] = (fx, det["twisted-log"])
                            w.learn_capture(name)
                    elif a == "leave":
                        w.stack.pop(arg - 1).cleanUp()
                    elif a == "unwind":
                        while w.stack:
                            w.stack.pop().cleanUp()
                    elif a == "emit":
                        if arg == "msg":
                            log.msg("ev%d" % h["out"])
                        else:
                            log.err(Failure(CLASSES[arg]("ev%d" % h["out"])))
                    elif a == "flush":
                        types = [CLASSES[t] for t in arg["types"]]
                        if arg["eo"] == "eoG":
                            from testtools.twistedsupport import flush_logged_errors

                            got = flush_logged_errors(*types)
                        elif arg["eo"] in w.eo_fixture:
                            got = w.eo_fixture[arg["eo"]].flush_logged_errors(*types)
                        else:
                            raise tlc.MachineryError("X18: flush for an observer that was never installed")
                        got = w.tokens(list(got))
                        if got != h["out"]:
                            return (i, "flush-returned", h["out"], got)
                    else:
                        raise tlc.MachineryError("X18: unknown action %r" % a)
                except tlc.MachineryError:
                    raise
                except Exception as ex:
                    return (i, "raised", None, "%s: %s" % (type(ex).__name__, str(ex)[:200]))
                gn = w.global_names()
                if not same_observers(o["glob"], gn, o["dup"]):
                    clause = "observers-added" if a in ("enter", "init") and not (a == "enter" and arg["ft"] == "obsfail") else "observers-restored"
                    if a in ("emit", "flush"):
                        clause = "observers-untouched"
                    return (i, clause, o["glob"], gn)
                if not o["noobs"]:
                    ln = w.legacy_names()
                    if not same_observers(o["legacy"], ln, o["dup"]):
                        return (i, "legacy-publisher-agrees", o["legacy"], ln)
                for name in ("a", "b", "m"):
                    if w.recv[name] != o["recv"][name]:
                        return (i, "delivery", {name: o["recv"][name]}, {name: w.recv[name]})
                for name in sorted(o["recv"]):
                    if name.startswith("c"):
                        got = w.cap_markers(name)
                        if got != o["recv"][name]:
                            return (i, "capture-text", {name: o["recv"][name]}, {name: got})
                for name in sorted(o["errs"]):
                    got = w.tokens(w.eo[name].getErrors())
                    if got != o["errs"][name]:
                        return (i, "errors-stored", {name: o["errs"][name]}, {name: got})
            return None
        finally:
            while w.stack:
                try:
                    w.stack.pop().cleanUp()
                except Exception:
                    pass


def log_shape(hist):
    out = []
    for h in hist:
        a, arg = h["a"], h["arg"]
        if a == "init":
            out.append("registered:" + ",".join(arg))
        elif a == "enter":
            out.append("enter %s%s" % (arg["ft"], "(%s)" % ",".join(arg["obs"]) if arg["obs"] else ""))
        elif a == "leave":
            out.append("leave #%d" % arg)
        elif a == "emit":
            out.append("log %s" % arg)
        elif a == "flush":
            out.append("flush %s(%s)" % (arg["eo"], ",".join(arg["types"])))
        else:
            out.append(a)
    return out


def log_nontrivial(hist):
    """Non-trivial: something is logged or flushed while a fixture is active, or fixtures are nested, or a setUp fails."""
    depth = max(h["obs"]["depth"] for h in hist)
    acts = [h["a"] for h in hist]
    fails = any(h["a"] == "enter" and h["arg"]["ft"] == "obsfail" for h in hist)
    if depth >= 2 or fails or (depth >= 1 and ("emit" in acts or "flush" in acts)):
        return jdump(log_shape(hist))
    return None


def log_signature(hist, clause, observed):
    last = hist[-1]
    if last["obs"]["hazard"]:
        return KNOWN_HAZARD
    at = last["a"]
    if at == "enter":
        at = "enter-" + last["arg"]["ft"]
    extra = ""
    if clause == "raised":
        extra = ":" + str(observed).split(":", 1)[0]
    return "x18:log:%s:%s%s" % (clause, at, extra)


# ---------------------------------------------------------------------------------------------- assert_fails_with


def afw_replay(hist):
    from twisted.internet import defer
    from twisted.python.failure import Failure

    import testtools
    from testtools.twistedsupport import assert_fails_with

    init = hist[0]
    ending, types, fexc = init["ending"], init["types"], init["fexc"]
    d = defer.Deferred()
    got = []
    exc = None
    result_obj = {"r1": "result r1 é", "None": None}.get(ending["v"])
    fexc_cls = MyFail if fexc == "custom" else testtools.TestCase.failureException
    names = ", ".join(CLASSES[t].__name__ for t in types)
    for i, h in enumerate(hist[1:], 1):
        try:
            if h["a"] == "fire":
                if ending["k"] == "succ":
                    d.callback(result_obj)
                else:
                    exc = CLASSES[ending["v"]]("boom")
                    d.errback(Failure(exc))
            else:
                kw = {"failureException": MyFail} if fexc == "custom" else {}
                d2 = assert_fails_with(d, *[CLASSES[t] for t in types], **kw)
                if not isinstance(d2, defer.Deferred):
                    return (i, "returns-a-deferred", "Deferred", repr(d2))
                d2.addBoth(got.append)
        except Exception as ex:
            return (i, "raised", None, "%s: %s" % (type(ex).__name__, ex))
        o = h["obs"]
        if o["k"] == "none":
            if got:
                return (i, "decided-before-fire", "pending", repr(got))
            continue
        if len(got) != 1:
            return (i, "fires-once", 1, len(got))
        r = got[0]
        if o["k"] == "value":
            if r is not exc:
                return (i, "fires-with-the-exception", repr(exc), repr(r))
            continue
        if not isinstance(r, Failure):
            return (i, "fails-with-failureException", fexc_cls.__name__, "succeeded with %r" % (r,))
        if r.type is not fexc_cls:
            return (i, "fails-with-failureException", fexc_cls.__name__, r.type.__name__)
        msg = str(r.value)
        if o["actual"] != "none":
            want = [CLASSES[o["actual"]].__name__] + [CLASSES[t].__name__ for t in types]
            if any(x not in msg.split(":\n")[0] for x in want):
                return (i, "message-names-types", want, msg[:120])
        else:
            want = "%s not raised (%r returned)" % (names, result_obj)
            if msg != want:
                return (i, "message-names-result", want, msg[:120])
    return None


def afw_shape(hist):
    i = hist[0]
    return {"d": "%s %s" % (i["ending"]["k"], i["ending"]["v"]), "exc_types": i["types"], "failureException": i["fexc"], "order": [h["a"] for h in hist[1:]]}


def afw_signature(hist, clause, observed):
    i = hist[0]
    rel = "succ" if i["ending"]["k"] == "succ" else ("listed" if i["ending"]["v"] in i["types"] else ("sub" if i["ending"]["v"] == "Sub" and "E" in i["types"] else "other"))
    return "x18:afw:%s:%s:%s:%s" % (clause, rel, i["fexc"], hist[-1]["a"] + "-last")


# ---------------------------------------------------------------------------------------------- DebugTwisted


def dbg_replay(hist):
    from twisted.internet import base, defer

    from testtools.twistedsupport._deferreddebug import DebugTwisted

    saved = (defer.Deferred.debug, base.DelayedCall.debug)
    stack = []
    try:
        for i, h in enumerate(hist):
            try:
                if h["a"] == "init":
                    defer.Deferred.debug, base.DelayedCall.debug = h["arg"]
                elif h["a"] == "enter":
                    fx = DebugTwisted(h["arg"]) if not h["arg"] else (DebugTwisted() if i % 2 else DebugTwisted(True))
                    fx.setUp()
                    stack.append(fx)
                else:
                    stack.pop().cleanUp()
            except Exception as ex:
                return (i, "raised", None, "%s: %s" % (type(ex).__name__, ex))
            obs = {"dd": defer.Deferred.debug, "dc": base.DelayedCall.debug, "getDebugging": defer.getDebugging()}
            exp = {"dd": h["dd"], "dc": h["dc"], "getDebugging": h["dd"]}
            if obs != exp:
                clause = "debug-set" if h["a"] == "enter" else "debug-restored"
                return (i, clause, exp, obs)
        return None
    finally:
        while stack:
            try:
                stack.pop().cleanUp()
            except Exception:
                pass
        defer.Deferred.debug, base.DelayedCall.debug = saved


def dbg_shape(hist):
    return ["initial %s" % (hist[0]["arg"],)] + ["%s%s" % (h["a"], "(%s)" % h["arg"] if h["a"] == "enter" else "") for h in hist[1:]]


def dbg_signature(hist, clause, observed):
    which = ""
    if isinstance(observed, dict):
        last = hist[-1]
        which = ":" + ",".join(k for k in ("dd", "dc") if observed.get(k) != last[k])
    return "x18:dbg:%s:%s%s" % (clause, hist[-1]["a"], which)


# ---------------------------------------------------------------------------------------------- driver

LF_ACTIONS = ["Enter", "Leave", "Emit", "Flush", "Unwind"]


def run(tier, pid="X18"):
    use_repo()
    rep = Report(
        "X18",
        tier,
        "model_checking",
        "LogFix: behaviours = initial registrations (none / a legacy observer and a modern one) then 3 (exhaustive) / 9 "
        "(random) calls of enter _NoTwistedLogObservers | _TwistedLogObservers([a] | [a,b] | [b] | iterable that raises) | "
        "_ErrorObserver(fresh | global _LogObserver) | CaptureTwistedLogs, leave (innermost; siblings in any order), log a "
        "message or an error of E / Sub(E) / U, flush_logged_errors(() | E | Sub | U | E,U), then leave everything; replayed "
        "on the real Twisted publishers. AssertFails: 6 endings x 6 type tuples x default/custom failureException x fired "
        "before/after. DebugTw: 4 initial flag pairs x nestings of DebugTwisted(True|False) up to depth 3 in 5 calls. "
        "Non-trivial = nested fixtures, a failing setUp, or logging/flushing under a fixture; every assert_fails_with and "
        "DebugTwisted behaviour; distinct by call sequence.",
    )
    rep.assume("the two Twisted publishers are emptied (and the global _log_observer's error list set aside) for each behaviour and put back afterwards; the run ends by checking they are as found")
    rep.assume("when the same callable is registered twice at once, log.removeObserver takes out 'the first equal one': from then on the observers are compared as a multiset, not as a sequence")
    rep.assume("_NoTwistedLogObservers is left only as the innermost fixture, and nothing below an active one is left (what 'temporarily' means for other orders is not documented)")
    rep.assume("assert_fails_with: the 'raised instead of' message must name the actual and every expected type; the 'not raised' message is compared literally")
    before = global_state()
    jobs = [
        ("MCLogFix", "lf_mc.cfg", {}, LF_ACTIONS, None, None, None, "log"),
        ("MCLogFix", "lf_exp.cfg", {}, LF_ACTIONS, log_replay, log_shape, log_signature, "log"),
        ("MCLogFix", "lf_sim.cfg", dict(simulate=dict(num=100 if tier == "quick" else 3000, depth=14), seed=rep.seed + 1), None, log_replay, log_shape, log_signature, "log"),
        ("MCAssertFails", "afw_exp.cfg", {}, ["Fire", "DoAssert"], afw_replay, afw_shape, afw_signature, "afw"),
        ("MCDebugTw", "dbg_exp.cfg", {}, ["Enter", "Leave"], dbg_replay, dbg_shape, dbg_signature, "dbg"),
    ]
    for mod, cfg, kw, actions, replay, shape, signature, kind in jobs:
        r = tlc.run_tlc("extra", mod, cfg, coverage=True, timeout=600, workers=4, **kw)
        tlc.require_ok(r, "X18 " + cfg)
        if actions:
            tlc.require_coverage(r, actions, "X18 " + cfg)
        rep.add_tlc(r, cfg)
        if replay is None:
            continue
        nb = 0
        for hist in tlc.exported(r):
            nb += 1
            nk = log_nontrivial(hist) if kind == "log" else jdump(shape(hist))
            bad = replay(hist)
            rep.case(sample={kind: shape(hist)} if nk and rep.evaluations % 1300 == 37 else None, nontrivial_key=nk)
            rep.traces += 1
            if bad:
                i, clause, exp, obs = bad
                cut = hist[: i + 1]
                rep.violation(clause, signature(cut, clause, obs), {"kind": kind, "behaviour": cut, "cfg": cfg}, expected=exp, observed=obs)
        if nb == 0:
            raise tlc.MachineryError("X18 %s exported no behaviours" % cfg)
    after = global_state()
    if after != before:
        raise tlc.MachineryError("X18: the harness did not leave Twisted's global state as found: %r -> %r" % (before, after))
    if not rep.samples:
        rep.sample({"note": "see tlc_runs"})
    rep.exhaustive = False
    rep.extra["explanation"] = "exhaustive for lf_mc/lf_exp/afw_exp/dbg_exp (bounds in spec/extra/lf_*.cfg); random for lf_sim.cfg"
    return rep.finish()


def replay_file(path, pid="X18"):
    import json

    use_repo()
    v = json.load(open(path))
    sc = v["scenario"]
    bad = {"log": log_replay, "afw": afw_replay, "dbg": dbg_replay}[sc["kind"]](sc["behaviour"])
    if bad:
        print("VIOLATION property=X18 replay=%s" % path)
        print("  step=%s clause=%s expected=%r observed=%r" % bad)
        return 1
    print("replay: behaviour conforms")
    return 0
