"""C07 - mismatches are always describable; assertThat/expectThat report them faithfully; text_repr round-trips.

Specs: spec/match/MatcherSem.tla + Matchers.tla (the same oracle rows as C06: the spec's verdict decides which pairs
must produce a MismatchError / a failing test), spec/match/TextRepr.tla (text_repr's escaping, code-shaped, against an
abstract reader of Python literals: TLC checks RoundTrip for every class string up to the bound and exports the rows).

Four parts:
 A  pairs   - for every (expression, value) TLC enumerates, under several concretisations of the text alphabet (str,
              bytes, non-ASCII, control characters, quotes/backslash, newline, astral): str(matcher) is a str; when the
              real matcher mismatches, describe() is a str and get_details() a dict; str(MismatchError(...)) for
              verbose in {False, True} x {no message, Annotate message} does not raise.
 B  tests   - for a sample of the pairs real TestCases are run: assertThat / assert_that raise MismatchError exactly when
              the spec says mismatch; expectThat never raises, the code after it runs, and the test is reported as a
              failure afterwards; details of the mismatch arrive in the outcome next to colliding user details (nothing
              is overwritten, even with several collisions).
 C  stock   - every name in testtools.matchers.__all__ is instantiated from a table and goes through the checks of A.
 D  text_repr - every row exported from TextRepr.tla is concretised with several representatives per class and
              eval(text_repr(s, multiline)) == s is checked with Python's own evaluator; the real output is also
              tokenised and compared with the model's output (reported as DRIFT only: the property is the round trip).
"""

import os
import random
import re
import sys
import traceback

from . import tlc
from . import matchers_common as mc
from .c06 import show_expr, show_value
from .common import Report, jdump, repo_path, sig_hash, use_repo

PROPS = ("C07",)

# the `message` of assertThat / expectThat / assert_that and the annotation of Annotate: no message, text with awkward
# characters, and annotations that are not text (they must be rendered, not joined as if they were str)
MESSAGES = ("", "note: é語'\"\\\n\x01", b"bytes \xff\x00", 7, ValueError("exc é"), ("tuple", 1))


# ---------------------------------------------------------------------------------------------------------
def culprit(ex):
    """'<Class>.<function>' of the innermost frame of the library under test in the traceback of `ex`."""
    root = os.path.realpath(repo_path())
    best = None
    tb = ex.__traceback__
    while tb is not None:
        fn = os.path.realpath(tb.tb_frame.f_code.co_filename)
        if fn.startswith(root + os.sep):
            slf = tb.tb_frame.f_locals.get("self")
            name = tb.tb_frame.f_code.co_name
            best = "%s.%s" % (type(slf).__name__, name) if slf is not None else name
        tb = tb.tb_next
    return best or "?"


def sig_of(ex):
    return "raises:%s:%s" % (culprit(ex), type(ex).__name__)


class Fail(Exception):
    def __init__(self, clause, signature, observed):
        Exception.__init__(self, clause)
        self.clause = clause
        self.signature = signature
        self.observed = observed


def must_str(clause, fn):
    try:
        s = fn()
    except mc.VerifBase:
        raise
    except BaseException as ex:  # noqa
        raise Fail(clause, sig_of(ex), "%s: %s" % (type(ex).__name__, str(ex)[:200]))
    if not isinstance(s, str):
        raise Fail(clause, "%s:not-str:%s" % (clause, type(s).__name__), repr(s)[:200])
    return s


_HOLDER = []


def holder_case():
    """A real TestCase instance to call assertThat / expectThat on (outside a run, as user code in a test would)."""
    if not _HOLDER:
        from testtools import TestCase

        class Holder(TestCase):
            def test_nothing(self):
                pass

        _HOLDER.append(Holder)
    return _HOLDER[0]("test_nothing")


def children_of(mm):
    out = []
    for x in list(getattr(mm, "__dict__", {}).values()):
        if hasattr(x, "describe") and hasattr(x, "get_details"):
            out.append(x)
        elif isinstance(x, (list, tuple)):
            out += [y for y in x if hasattr(y, "describe") and hasattr(y, "get_details")]
        elif isinstance(x, dict):
            out += [y for y in x.values() if hasattr(y, "describe") and hasattr(y, "get_details")]
    return out


def unstable_class(mm, depth=0):
    """Class of the innermost mismatch object (of a fresh mismatch tree) whose describe() does not repeat itself."""
    if depth < 30:
        for c in children_of(mm):
            got = unstable_class(c, depth + 1)
            if got:
                return got
    try:
        if mm.describe() != mm.describe():
            return type(mm).__name__
    except BaseException:  # noqa
        return type(mm).__name__
    return None


_ADDR = re.compile(r"0x[0-9a-fA-F]+")


def norm(text):
    """Descriptions may show objects created per match() call (warnings, results): addresses are not compared."""
    return _ADDR.sub("0x", text)


def fresh(matcher, matchee, clause="annotated-match"):
    try:
        mm = matcher.match(matchee)
    except BaseException as ex:  # noqa
        raise Fail(clause, sig_of(ex), repr(ex)[:200])
    if mm is None:
        raise Fail(clause, "annotate-changes-verdict", "the matcher matched on a second call")
    return mm


def describable(matcher, matchee, mismatch, rot=0, with_expect=False):
    """All C07 clauses about one mismatch; raises Fail at the first clause that fails.
    Calls are made in the order the library makes them: get_details() first, then describe() / str(error); every
    text is compared with the description of a FRESH mismatch of the same pair that was described first."""
    from testtools.assertions import assert_that
    from testtools.matchers import Annotate, MismatchError

    d0 = must_str("describe", mismatch.describe)
    if not d0.strip():
        raise Fail("describe", "describe-empty:%s" % type(mismatch).__name__, repr(d0))
    b = fresh(matcher, matchee)
    try:
        d = b.get_details()
    except BaseException as ex:  # noqa
        raise Fail("get_details", sig_of(ex), repr(ex)[:200])
    if not isinstance(d, dict):
        raise Fail("get_details", "get_details:not-dict:%s" % type(b).__name__, repr(d)[:200])
    d1 = must_str("describe", b.describe)
    if norm(d1) != norm(d0):
        raise Fail(
            "describe-after-get_details",
            "describe-after-get_details:%s" % (unstable_class(fresh(matcher, matchee)) or type(b).__name__),
            "%r, but a fresh mismatch of the same pair describes itself as %r" % (d1[:120], d0[:120]),
        )
    # one message / verbosity combination per pair, rotating (a matcher meets every combination over its values)
    msg = MESSAGES[rot % len(MESSAGES)]
    verbose = bool((rot // len(MESSAGES)) % 2)
    m2 = Annotate.if_message(msg, matcher)
    want = must_str("describe", fresh(m2, matchee).describe) if msg else d0
    mm2 = fresh(m2, matchee)
    mm2.get_details()  # as TestCase._matchHelper does before the error is built
    err = MismatchError(matchee, m2, mm2, verbose)
    text = must_str("mismatcherror-str", lambda: str(err))
    if norm(want) not in norm(text):
        raise Fail("mismatcherror-text", "mismatcherror-text:lacks-description:%s" % type(mm2).__name__, "%r lacks %r" % (text[:160], want[:120]))
    # through the real entry points
    case = holder_case()
    try:
        case.assertThat(matchee, matcher, msg, verbose)
        got = None
    except MismatchError as ex:
        got = ex
    except BaseException as ex:  # noqa
        raise Fail("assertThat-raises", sig_of(ex), repr(ex)[:200])
    if got is None:
        raise Fail("assertThat-raises", "assertThat:no-MismatchError-on-mismatch", "no exception")
    text = must_str("mismatcherror-str", lambda: str(got))
    if norm(want) not in norm(text):
        raise Fail("assertThat-report", "assertThat:error-text-lacks-description", "%r lacks %r" % (text[:160], want[:120]))
    try:
        assert_that(matchee, matcher, msg, verbose)
        got = None
    except MismatchError as ex:
        got = ex
    if got is None:
        raise Fail("assert_that-raises", "assert_that:no-MismatchError-on-mismatch", "no exception although match() returned a mismatch")
    text = must_str("mismatcherror-str", lambda: str(got))
    if norm(want) not in norm(text):
        raise Fail("assert_that-report", "assert_that:error-text-lacks-description", "%r lacks %r" % (text[:160], want[:120]))
    if with_expect:
        case = holder_case()
        try:
            case.expectThat(matchee, matcher, msg, verbose)
        except BaseException as ex:  # noqa
            raise Fail("expectThat-raises", "expectThat:raised:%s" % type(ex).__name__, repr(ex)[:200])
        det = case.getDetails().get("Failed expectation")
        text = must_str("expectThat-report", det.as_text) if det is not None else ""
        if norm(want) not in norm(text) or not getattr(case, "force_failure", False):
            raise Fail("expectThat-report", "expectThat:failed-expectation-lacks-description", "%r lacks %r" % (text[-200:], want[:120]))
    # last (the clauses above use one describe() per mismatch object): describing a mismatch again gives the same text
    second = must_str("describe", b.describe)
    if norm(second) != norm(d1):
        raise Fail(
            "describe-unstable",
            "describe-unstable:%s" % (unstable_class(fresh(matcher, matchee)) or type(b).__name__),
            "first %r, then %r" % (d1[:120], second[:120]),
        )


def check_pair_describable(e, v, cx, pool):
    """Returns (real verdict, Fail or None)."""
    env = mc.Env(cx, pool)
    val = mc.build_value(v, env)
    m = mc.build_matcher(e, env)
    try:
        must_str("matcher-str", lambda: str(m))
        r, mm = mc.verdict(m, val)
        if r == "T":
            # assert_that raises MismatchError exactly when match() returned a mismatch (the mismatching side is in
            # describable()) - on every pair, not only on
            # the sample run as real tests (a mismatch object that is falsy must still count as a mismatch)
            from testtools.assertions import assert_that
            from testtools.matchers import MismatchError

            try:
                assert_that(val, m)
                got = None
            except MismatchError as ex:
                got = ex
            except BaseException as ex:  # noqa
                raise Fail("assert_that-raises", sig_of(ex), repr(ex)[:200])
            if r == "F" and got is None:
                raise Fail("assert_that-raises", "assert_that:no-MismatchError-on-mismatch", "no exception although match() returned %r" % (mm,))
            if r == "T" and got is not None:
                raise Fail("assert_that-raises", "assert_that:raises-on-match", repr(got)[:200])
        if r == "F":
            _ROT[0] += 1
            describable(m, val, mm, _ROT[0], with_expect=_ROT[0] % 4 == 0)
        return r, None
    except Fail as f:
        return None, f


_ROT = [0]


# ---------------------------------------------------------------------------------------------------------
NEXTRA = 2  # concretisations besides ASCII per text expression (1 in the quick tier)


def part_pairs_chunk(rep, rows, uni, pool, rnd, source, test_every):
    """Part A over TLC rows; returns (failures {(clause, signature): (e, v, cx, observed, source)}, sample for part B)."""
    fails = {}
    sample = []
    n = 0
    for row in rows:
        e, srt = row["e"], row["srt"]
        texty = mc.has_text(e) or srt in ("str", "lstr")
        if srt == "path" or not texty:
            cxs = [mc.CX_ASCII]
        else:
            ok = [c for c in mc.CX_ALL if mc.cx_applicable(c, srt, e)]
            cxs = [ok[0]] + rnd.sample(ok[1:], min(NEXTRA, len(ok) - 1))
        nontriv = mc.depth_of(e) >= 2
        for v, expected in zip(uni[srt], row["r"]):
            if expected == "X":
                continue
            for cx in cxs:
                r, f = check_pair_describable(e, v, cx, pool)
                n += 1
                rep.case(
                    sample={"matcher": show_expr(e), "matchee": show_value(v), "text_as": cx.name, "spec_verdict": expected,
                            "checked": "get_details() then describe() vs a fresh mismatch; str(MismatchError); assertThat / assert_that / expectThat texts"}
                    if nontriv and expected == "F" and rep.evaluations % 20011 == 23
                    else None,
                    nontrivial_key=sig_hash(("A", e, v, cx.name)) if expected == "F" and (texty or nontriv) else None,
                )
                if f is not None:
                    k = (f.clause, f.signature)
                    if k not in fails or len(jdump(e)) < len(jdump(fails[k][0])):
                        fails[k] = (e, v, cx, f.observed, source)
                if n % test_every == 0 and expected in ("T", "F"):
                    sample.append((e, v, cx, expected))
    return fails, sample


def _pairs_worker(args):
    rows, uni, seed, source, test_every, nextra = args
    global NEXTRA
    NEXTRA = nextra
    acc = mc.Acc()
    pool = mc.PathPool("c07w")
    try:
        fails, sample = part_pairs_chunk(acc, rows, uni, pool, random.Random(seed), source, test_every)
    finally:
        pool.close()
    return acc, fails, sample


def part_pairs(rep, rows, uni, pool, rnd, source, test_every, nproc=3):
    """Part A (in worker processes for large jobs); reports the violations, returns the sample of pairs for part B."""
    if len(rows) < 600:
        parts = [part_pairs_chunk(rep, rows, uni, pool, rnd, source, test_every)]
    else:
        out = mc.run_parallel(
            _pairs_worker, [(c, uni, rnd.randrange(2**31), source, test_every, NEXTRA) for c in mc.split(rows, nproc)], nproc
        )
        parts = []
        for acc, fails, sample in out:
            mc.merge_acc(rep, acc)
            parts.append((fails, sample))
    fails = {}
    sample = []
    for fs, smp in parts:
        sample += smp
        for k, t in fs.items():
            if k not in fails or len(jdump(t[0])) < len(jdump(fails[k][0])):
                fails[k] = t
    for (clause, sig), (e, v, cx, observed, src) in sorted(fails.items()):
        rep.violation(
            clause,
            sig,
            {"part": "pairs", "expr": e, "value": v, "cx": cx.name, "shown": "%s vs %s" % (show_expr(e), show_value(v)), "source": src},
            expected="no exception, a str",
            observed=observed,
        )
    return sample


# ---------------------------------------------------------------------------------------------------------
def make_detailed(inner, names, tag):
    """A user-defined matcher whose mismatch carries details under the given names (stock mismatches have none)."""
    from testtools.content import text_content
    from testtools.matchers import Mismatch

    contents = {n: text_content("%s:%s" % (tag, n)) for n in names}

    class DetailedMismatch(Mismatch):
        def __init__(self, original):
            self.original = original

        def describe(self):
            return self.original.describe()

        def get_details(self):
            d = dict(self.original.get_details())  # what a decorating mismatch does: ask the original first
            d.update(contents)
            return d

    class Detailed:
        def __str__(self):
            return "Detailed(%s)" % inner

        def match(self, x):
            mm = inner.match(x)
            return None if mm is None else DetailedMismatch(mm)

    return Detailed(), list(contents.values())


COLLIDING = ("x", "traceback", "Failed expectation", "x-1")


def run_case(body):
    """Run a real testtools.TestCase whose test method is `body(self)`; returns (events, log)."""
    from testtools import TestCase
    from testtools.testresult.doubles import ExtendedTestResult

    class T(TestCase):
        def test_it(self):
            body(self)

    res = ExtendedTestResult()
    T("test_it").run(res)
    return res._events


def outcome_of(events):
    outs = [ev for ev in events if ev[0].startswith("add")]
    if len(outs) != 1:
        return ("?", {})
    ev = outs[0]
    det = ev[-1] if isinstance(ev[-1], dict) else {}
    return ev[0], det


def holds_all(details, contents):
    vals = list(details.values())
    return all(any(c is x for x in vals) for c in contents)


def part_tests(rep, sample, pool, rnd):
    from testtools.assertions import assert_that
    from testtools.content import text_content
    from testtools.matchers import MismatchError

    fails = {}
    shown_b = []

    def bad(clause, sig, e, v, cx, expected, observed):
        k = (clause, sig)
        if k not in fails or len(jdump(e)) < len(jdump(fails[k][0])):
            fails[k] = (e, v, cx, expected, observed)

    for e, v, cx, expected in sample:
        if mc.has_op(e, ("FileContains", "FileContainsM", "DirContains", "DirContainsM")):
            continue  # str() of these raises (known finding of part A); messages cannot be formed
        msg = rnd.choice(MESSAGES)
        verbose = rnd.random() < 0.5
        # ---- assertThat
        env = mc.Env(cx, pool)
        val = mc.build_value(v, env)
        inner0 = mc.build_matcher(e, env)
        # the property: "exactly when match() returns a mismatch" - match() of these very objects is the reference
        # (whether that verdict is the documented one is C06's business; disagreements are only counted here)
        r0, _ = mc.verdict(inner0, val)
        if r0 not in ("T", "F"):
            continue
        if r0 != expected:
            rep.extra["tests_where_match_disagrees_with_spec_see_C06"] = rep.extra.get("tests_where_match_disagrees_with_spec_see_C06", 0) + 1
        mism = r0 == "F"
        want = None
        if mism:
            from testtools.matchers import Annotate

            try:  # the description of a fresh mismatch of this pair, described first: what the reports must carry
                want = Annotate.if_message(msg, inner0).match(val).describe()
            except BaseException:  # noqa  (part A reports describe() problems)
                want = None
        m, dcont = make_detailed(inner0, COLLIDING, "a")
        user = [text_content("user:%s" % n) for n in COLLIDING[:2]]
        log = {}

        def body_assert(self):
            for n, c in zip(COLLIDING[:2], user):
                self.addDetail(n, c)
            try:
                self.assertThat(val, m, msg, verbose)
            except BaseException as ex:  # noqa
                log["raised"] = ex
                raise
            log["after"] = True

        name, det = outcome_of(run_case(body_assert))
        raised = log.get("raised")
        rep.case(nontrivial_key=sig_hash(("B-assert", e, v, cx.name)) if mism else None)
        rep.traces += 1
        if mism:
            if not isinstance(raised, MismatchError) or log.get("after"):
                bad("assertThat-raises", "assertThat:no-MismatchError-on-mismatch", e, v, cx, "MismatchError", repr(raised))
            elif name != "addFailure":
                bad("assertThat-outcome", "assertThat:mismatch-not-a-failure:%s" % name, e, v, cx, "addFailure", name)
            elif not holds_all(det, user + dcont):
                bad("assertThat-details", "assertThat:details-lost", e, v, cx, "user and mismatch details all present", sorted(det))
            elif want is not None:
                # the runner has rendered the error into the traceback detail: that is the report of the failure
                texts = []
                for k, c in det.items():
                    if not any(c is x for x in user + dcont):
                        try:
                            texts.append(c.as_text())
                        except BaseException as ex:  # noqa
                            texts.append("<as_text raised %r>" % ex)
                if not any(norm(want) in norm(t) for t in texts):
                    bad("assertThat-report", "assertThat:error-text-lacks-description", e, v, cx, want[:160], [t[-200:] for t in texts])
        else:
            if raised is not None or name != "addSuccess":
                bad("assertThat-raises", "assertThat:raises-on-match:%s" % type(raised).__name__, e, v, cx, "no exception, addSuccess", "%r %s" % (raised, name))
        # ---- assert_that
        val2, m2 = val, inner0
        try:
            assert_that(val2, m2, msg, verbose)
            got = None
        except BaseException as ex:  # noqa
            got = ex
        rep.case(nontrivial_key=sig_hash(("B-assert_that", e, v, cx.name)) if mism else None)
        if mism != isinstance(got, MismatchError) or (not mism and got is not None):
            bad("assert_that-raises", "assert_that:%s" % ("no-MismatchError-on-mismatch" if mism else "raises-on-match"), e, v, cx, "MismatchError" if mism else None, repr(got))
        elif mism:
            try:
                must_str("mismatcherror-str", lambda: str(got))
            except Fail as f:
                bad(f.clause, f.signature, e, v, cx, "a str", f.observed)
        # ---- expectThat (three times, same colliding detail names)
        val3, inner = val, inner0
        ms = [make_detailed(inner, COLLIDING, "e%d" % i) for i in range(3)]
        log3 = {}

        def body_expect(self):
            for n, c in zip(COLLIDING[:2], user):
                self.addDetail(n, c)
            try:
                for i, (mm_, _) in enumerate(ms):
                    self.expectThat(val3, mm_, msg, verbose)
                    log3["after%d" % i] = True
            except BaseException as ex:  # noqa
                log3["raised"] = ex
                raise

        name, det = outcome_of(run_case(body_expect))
        rep.case(nontrivial_key=sig_hash(("B-expect", e, v, cx.name)) if mism else None)
        if mism and not shown_b and mc.depth_of(e) >= 2:
            shown_b.append(1)
            rep.sample({"real TestCase": "3 x expectThat(%s, Detailed(%s), %r, verbose=%r)" % (show_value(v), show_expr(e), msg, verbose),
                        "outcome": name, "detail names": sorted(det)}, force=True)
        rep.traces += 1
        if log3.get("raised") is not None or not log3.get("after2"):
            bad("expectThat-raises", "expectThat:raised:%s" % type(log3.get("raised")).__name__, e, v, cx, "never raises", repr(log3.get("raised")))
        elif mism and name != "addFailure":
            bad("expectThat-outcome", "expectThat:mismatch-but-%s" % name, e, v, cx, "addFailure once finished", name)
        elif not mism and name != "addSuccess":
            bad("expectThat-outcome", "expectThat:match-but-%s" % name, e, v, cx, "addSuccess", name)
        elif mism and not holds_all(det, user + [c for _, cs in ms for c in cs]):
            bad("expectThat-details", "expectThat:details-lost", e, v, cx, "user details and the details of all three mismatches present", sorted(det))
        elif mism and sum(1 for k in det if k.startswith("Failed expectation")) < 3 + 3:
            bad("expectThat-details", "expectThat:failed-expectation-clobbered", e, v, cx, ">= 6 'Failed expectation*' details", sorted(det))
        elif mism and want is not None:
            mine = [c for _, cs in ms for c in cs]
            texts = []
            for k, c in det.items():
                if k.startswith("Failed expectation") and not any(c is x for x in mine):
                    try:
                        texts.append(c.as_text())
                    except BaseException as ex:  # noqa
                        texts.append("<as_text raised %r>" % ex)
            if sum(1 for t in texts if norm(want) in norm(t)) < 3:
                bad("expectThat-report", "expectThat:failed-expectation-lacks-description", e, v, cx, want[:160], [t[-160:] for t in texts])
    for (clause, sig), (e, v, cx, expected, observed) in sorted(fails.items()):
        rep.violation(
            clause,
            sig,
            {"part": "tests", "expr": e, "value": v, "cx": cx.name, "shown": "%s vs %s" % (show_expr(e), show_value(v))},
            expected=expected,
            observed=observed,
        )


# ---------------------------------------------------------------------------------------------------------
def stock_table(tmp):
    """name -> list of (matcher factory, [mismatching matchees]).  Covers testtools.matchers.__all__."""
    import doctest
    import tarfile
    import warnings

    from testtools import matchers as M

    texts = ["", "a", "é語", b"by\xfftes", "ctl\x00\x1b\x7f", "q'\"\\", "multi\nline", "\U0001f600", b"\n\x00"]
    f = os.path.join(tmp, "afile")
    with open(f, "w") as fh:
        fh.write("content")
    d = os.path.join(tmp, "adir")
    os.makedirs(d, exist_ok=True)
    missing = os.path.join(tmp, "missing-é")
    tar = os.path.join(tmp, "t.tar")
    with tarfile.open(tar, "w") as t:
        t.add(f, arcname="afile")

    def warn():
        warnings.warn("old é", DeprecationWarning)

    def quiet():
        pass

    class O:
        x = 1
        real = 2

        def __repr__(self):
            return "<O é\x00>"

    strs = [t for t in texts if isinstance(t, str)]
    byts = [t for t in texts if isinstance(t, bytes)]
    any_ = texts + [0, [1, "é"], {"k": b"\xff"}, O(), None]
    return {
        "AfterPreprocessing": [(lambda: M.AfterPreprocessing(repr, M.Equals("zz")), any_)],
        "AllMatch": [(lambda: M.AllMatch(M.Equals("zz")), [["é", b"\xff"], [1], "ab\x00"])],
        "Always": [(lambda: M.Always(), [])],
        "Annotate": [(lambda: M.Annotate("é\x00\n'", M.Never()), any_), (lambda: M.Annotate(7, M.Never()), [0, "é"]),
                     (lambda: M.Annotate(b"\xff", M.Never()), [0]), (lambda: M.Annotate(KeyError("é"), M.Never()), [0]),
                     (lambda: M.Annotate((1, "t"), M.Never()), [0])],
        "AnyMatch": [(lambda: M.AnyMatch(M.Equals("zz")), [[], ["é", b"\xff"], "ab\x00"])],
        "Contains": [(lambda: M.Contains("zz"), strs + [0, ["é"], {"k": 1}]), (lambda: M.Contains(b"zz"), byts)],
        "ContainsAll": [(lambda: M.ContainsAll(["zz", "é"]), strs + [["é"], 0])],
        "ContainedByDict": [(lambda: M.ContainedByDict({"a": M.Equals(1)}), [{"é\x00": b"\xff"}, {"a": "é"}])],
        "ContainsDict": [(lambda: M.ContainsDict({"é\x00": M.Equals(1)}), [{}, {"é\x00": b"\xff"}])],
        "DirContains": [(lambda: M.DirContains(["zz"]), [d, f, missing]), (lambda: M.DirContains(matcher=M.Never()), [d])],
        "DirExists": [(lambda: M.DirExists(), [f, missing])],
        "DocTestMatches": [(lambda: M.DocTestMatches("zz ... é", doctest.ELLIPSIS), strs)],
        "EndsWith": [(lambda: M.EndsWith("zz"), strs), (lambda: M.EndsWith(b"zz"), byts)],
        "Equals": [(lambda: M.Equals("zz" * 40), any_), (lambda: M.Equals(b"\xffzz"), any_), (lambda: M.Equals(-1), any_)],
        "FileContains": [(lambda: M.FileContains("zz"), [f, missing]), (lambda: M.FileContains(matcher=M.Never()), [f])],
        "FileExists": [(lambda: M.FileExists(), [d, missing])],
        "GreaterThan": [(lambda: M.GreaterThan("\U0010ffff\U0010ffff"), strs), (lambda: M.GreaterThan(b"\xff\xff\xff\xff\xff\xff\xff"), byts)],
        "HasLength": [(lambda: M.HasLength(77), texts + [[1, "é"], {"k": b"\xff"}])],
        "HasPermissions": [(lambda: M.HasPermissions("7777"), [f, d])],
        "Is": [(lambda: M.Is(O()), any_)],
        "IsDeprecated": [(lambda: M.IsDeprecated(M.Contains("zz")), [warn, quiet])],
        "IsInstance": [(lambda: M.IsInstance(tuple, frozenset), any_)],
        "KeysEqual": [(lambda: M.KeysEqual("é\x00", "b"), [{}, {"é": 1}, {"é\x00": 1}])],
        "LessThan": [(lambda: M.LessThan(""), strs), (lambda: M.LessThan(b""), byts), (lambda: M.LessThan(-5), [0, 7])],
        "MatchesAll": [(lambda: M.MatchesAll(M.Never(), M.Equals("zz")), any_), (lambda: M.MatchesAll(M.Never(), M.Equals(1), first_only=True), any_)],
        "MatchesAny": [(lambda: M.MatchesAny(M.Never(), M.Equals("zz")), any_)],
        "MatchesDict": [(lambda: M.MatchesDict({"é\x00": M.Equals(1), "b": M.Never()}), [{}, {"é\x00": b"\xff", "c'": "\n"}])],
        "MatchesException": [
            (lambda: M.MatchesException(ValueError("é\x00")), [mc._raise_info(ValueError, "zz"), mc._raise_info(KeyError, b"\xff"), 0, "é"]),
            (lambda: M.MatchesException(ValueError, "zz.*é"), [mc._raise_info(ValueError, "é\x00\n"), mc._raise_info(KeyError, "k")]),
            (lambda: M.MatchesException((ValueError, KeyError), M.Never()), [mc._raise_info(ValueError, "é")]),
        ],
        "MatchesListwise": [(lambda: M.MatchesListwise([M.Equals("zz"), M.Never()]), [["é", b"\xff"], ["zz"], "ab", "\x00é"])],
        "MatchesPredicate": [(lambda: M.MatchesPredicate(lambda x: False, "%s is wrong: é\x00"), texts + [0, [1, "é"], None])],
        "MatchesPredicateWithParams": [(lambda: M.MatchesPredicateWithParams(lambda x, y: False, "{0} is not {1} é\x00", "Weird")("p'\n"), any_),
                                       (lambda: M.MatchesPredicateWithParams(lambda x, y: False, "{0} is not {1}")(b"\xff"), any_)],
        "MatchesRegex": [(lambda: M.MatchesRegex("zz\\s+é\x00|\n'"), strs), (lambda: M.MatchesRegex(b"zz\\s+\xff\x00|\n'"), byts)],
        "MatchesSetwise": [(lambda: M.MatchesSetwise(M.Equals("zz"), M.Never()), [[], ["é", b"\xff"], ["zz"], ["a", "b", "\x00"], "é\x00"])],
        "MatchesStructure": [(lambda: M.MatchesStructure(x=M.Equals("é\x00"), real=M.Never()), [O()])],
        "Never": [(lambda: M.Never(), any_)],
        "NotEquals": [(lambda: M.NotEquals("é\x00'\n"), ["é\x00'\n"]), (lambda: M.NotEquals(b"\xff\n"), [b"\xff\n"])],
        "Not": [(lambda: M.Not(M.Always()), any_), (lambda: M.Not(M.Contains("é")), ["é\x00"])],
        "PathExists": [(lambda: M.PathExists(), [missing])],
        "Raises": [(lambda: M.Raises(), [quiet]), (lambda: M.Raises(M.MatchesException(KeyError)), [mc._raises(ValueError, "é\x00"), quiet])],
        "raises": [(lambda: M.raises(KeyError("é")), [mc._raises(ValueError, "é\x00"), mc._raises(KeyError, b"\xff"), quiet])],
        "SameMembers": [(lambda: M.SameMembers(["zz", "é\x00", b"\xff"]), [[], ["é"], ["x" * 80, b"\x00"]])],
        "SamePath": [(lambda: M.SamePath(d), [f, missing])],
        "StartsWith": [(lambda: M.StartsWith("zz"), strs), (lambda: M.StartsWith(b"zz"), byts)],
        "TarballContains": [(lambda: M.TarballContains(["zz", "é"]), [tar])],
        "Warnings": [(lambda: M.Warnings(), [quiet]), (lambda: M.Warnings(M.HasLength(5)), [warn, quiet])],
        "WarningMessage": [(lambda: M.WarningMessage(DeprecationWarning, message=M.Contains("zz"), lineno=M.Equals(-1)),
                            [__import__("warnings").WarningMessage("é\x00", UserWarning, "file'\n", 3)])],
    }


def part_stock(rep, pool):
    from testtools import matchers as M

    tmp = os.path.join(pool.root, "stock")
    os.makedirs(tmp, exist_ok=True)
    table = stock_table(tmp)
    missing = [n for n in M.__all__ if n not in table]
    for n in missing:
        rep.note_drift("stock matcher %s has no entry in harness/c07.py:stock_table (not checked)" % n)
    fails = {}
    for name in sorted(table):
        if name not in M.__all__:
            rep.note_drift("stock_table entry %s is not in testtools.matchers.__all__" % name)
            continue
        for mk, matchees in table[name]:
            m = mk()
            try:
                must_str("matcher-str", lambda: str(m))
            except Fail as f:
                fails.setdefault((f.clause, f.signature), (name, None, f))
            rep.case(nontrivial_key="C-str-%s-%d" % (name, table[name].index((mk, matchees))))
            for x in matchees:
                m = mk()
                rep.case(nontrivial_key="C-%s-%d-%s" % (name, table[name].index((mk, matchees)), sig_hash(repr(x))),
                         sample={"stock matcher": name, "matchee": repr(x)[:80]} if name == "MatchesRegex" and x == "é語" else None)
                try:
                    r, mm = mc.verdict(m, x)
                    if r.startswith("E:"):
                        raise Fail("match-raises", sig_of(mm), repr(mm)[:200])
                    if r == "F":
                        describable(m, x, mm, 0, with_expect=True)
                        for rot in range(1, 2 * len(MESSAGES)):  # every message / verbosity combination
                            m = mk()
                            describable(m, x, fresh(m, x), rot, with_expect=True)
                except Fail as f:
                    fails.setdefault((f.clause, f.signature), (name, x, f))
    for (clause, sig), (name, x, f) in sorted(fails.items()):
        rep.violation(clause, sig, {"part": "stock", "matcher": name, "matchee": repr(x)[:200]}, expected="no exception, a str", observed=f.observed)
    rep.extra["stock_matchers_checked"] = len(table)
    rep.extra["stock_matchers_without_table_entry"] = missing


# ---------------------------------------------------------------------------------------------------------
REPS = {
    "str": {
        "sq": ["'"],
        "dq": ['"'],
        "bs": ["\\"],
        "nl": ["\n"],
        "pa": ["a", "n", "x", "u", "N", "0", " ", "b", "r", "#", "{", "%", "~", "t", "U"],
        "cc": ["\x00", "\t", "\r", "\x1b", "\x7f", "\x0b", "\x0c", "\x1f"],
        "nap": ["é", "語", "ÿ", "¡", "ǅ", "ß"],
        "npu": ["\x85", "\xa0", "\xad", "\u200b", "\u2028", "\u2029", "\ufeff", "\ud800", "\udfff", "\U000e0001", "\U0010ffff", "\u3000"],
        "as": ["\U0001f600", "\U00010000", "\U0002000b", "\U0001d11e"],
    },
    "bytes": {
        "sq": [b"'"],
        "dq": [b'"'],
        "bs": [b"\\"],
        "nl": [b"\n"],
        "pa": [bytes([c]) for c in b"anxuN0 br#{%~tU"],
        "cc": [b"\x00", b"\t", b"\r", b"\x1b", b"\x7f", b"\x0b"],
        "hb": [b"\x80", b"\xff", b"\xa0", b"\xe9", b"\xc3"],
    },
}


def tokenise(out, kind):
    """Real text_repr output -> the output symbols of TextRepr.tla (None when it does not fit the alphabet)."""
    syms = []
    i = 0
    if kind == "bytes":
        if not out.startswith("b"):
            return None
        syms.append("b")
        i = 1
    n = len(out)
    while i < n:
        c = out[i]
        if c == "'":
            syms.append("Q1")
        elif c == '"':
            syms.append("Q2")
        elif c == "\n":
            syms.append("NL")
        elif c == "\\":
            syms.append("BS")
            i += 1
            if i >= n:
                return None
            d = out[i]
            if d == "'":
                syms.append("Q1")
            elif d == '"':
                syms.append("Q2")
            elif d == "\\":
                syms.append("BS")
            elif d == "\n":
                syms.append("NL")
            elif d == "n":
                syms.append("n")
            elif d in "tr":
                syms.append("CC")
            elif d == "x":
                val = int(out[i + 1 : i + 3], 16)
                i += 2
                if val >= 0x80:
                    syms.append("HB" if kind == "bytes" else "NPU")
                else:
                    syms.append("CC")
            elif d == "u":
                i += 4
                syms.append("NPU")
            elif d == "U":
                i += 8
                syms.append("NPU")
            else:
                return None
        elif ord(c) < 0x80:
            syms.append("PA")
        elif ord(c) > 0xFFFF:
            syms.append("AS")
        else:
            syms.append("NAP")
        i += 1
    return syms


def part_text_repr(rep, cfg, rnd, per_row):
    from testtools.compat import text_repr

    r = tlc.run_tlc("match", "TextRepr", cfg, workers=8, coverage=True, timeout=1500)
    tlc.require_ok(r, "C07 " + cfg)
    tlc.require_coverage(r, ["AddChar"], "C07 " + cfg)
    rep.add_tlc(r, cfg)
    ML = {"none": None, "true": True, "false": False}
    fails = {}
    drift = set()
    nrows = 0
    for row in tlc.exported(r):
        nrows += 1
        kind, ml, classes = row["kind"], ML[row["ml"]], row["text"]
        reps = REPS[kind]
        empty = b"" if kind == "bytes" else ""
        cands = [empty.join(reps[c][0] for c in classes)]
        for _ in range(per_row - 1):
            cands.append(empty.join(rnd.choice(reps[c]) for c in classes))
        seen = set()
        for s in cands:
            if s in seen:
                continue
            seen.add(s)
            nontriv = len(classes) >= 2 and any(c != "pa" for c in classes)
            rep.case(nontrivial_key=sig_hash(("D", kind, row["ml"], s)) if nontriv else None)
            if nontriv and nrows % 9973 == 4000 and s is cands[-1]:
                rep.sample({"text_repr of": repr(s), "multiline": ml, "classes": classes, "model output": row["out"]}, force=len(rep.samples) < 6)
            try:
                out = text_repr(s, ml)
                back = eval(out, {"__builtins__": {}}, {})  # Python's own evaluator is the oracle
                ok = type(back) is type(s) and back == s and isinstance(out, str)
                observed = repr(out)
            except BaseException as ex:  # noqa
                ok = False
                out = None
                observed = "%s: %s" % (type(ex).__name__, ex)
            if not ok:
                sig = "text_repr:%s:multiline=%s:%s" % (kind, row["ml"], "+".join(sorted(set(classes))))
                if sig not in fails or len(s) < len(fails[sig][0]):
                    fails[sig] = (s, ml, observed, classes)
                continue
            toks = tokenise(out, kind)
            if toks != row["out"] and len(drift) < 8:
                drift.add("text_repr(%r, multiline=%r) = %r tokenises to %s, model says %s" % (s, ml, out, toks, row["out"]))
    if nrows == 0:
        raise tlc.MachineryError("C07 %s exported no rows" % cfg)
    for d in sorted(drift):
        rep.note_drift(d)
    for sig, (s, ml, observed, classes) in sorted(fails.items()):
        rep.violation(
            "text_repr-roundtrip",
            sig,
            {"part": "text_repr", "text": repr(s), "kind": type(s).__name__, "multiline": ml, "classes": classes},
            expected="eval(text_repr(s, multiline)) == s",
            observed=observed,
        )


def check_textrepr_mutation(rep):
    r = tlc.run_tlc("match", "TextRepr", "tr_mut.cfg", workers=1, timeout=300)
    if r.violated != "RoundTrip":
        raise tlc.MachineryError("C07: TLC did not refute RoundTrip with the triple-quote pass removed (violated=%s error=%s)" % (r.violated, r.error))
    rep.tlc_runs.append({"what": "tr_mut.cfg (expected counterexample found)", "generated": r.generated, "distinct": r.distinct, "depth": r.depth, "wall_s": round(r.wall_s, 2), "coverage": None})


# ---------------------------------------------------------------------------------------------------------
RULE = (
    "(A) pairs (matcher expression, matchee, concretisation of the text alphabet) from the TLC enumeration of "
    "spec/match/Matchers.tla (same rows as C06), each put through str(matcher) / describe() / get_details() / "
    "str(MismatchError) x verbose x message; (B) every k-th pair run in real TestCases through assertThat, assert_that "
    "and three expectThat calls with colliding detail names; (C) one table entry per stock matcher in "
    "testtools.matchers.__all__ with non-ASCII/bytes/control matchees; (D) every class string exported from "
    "spec/match/TextRepr.tla, concretised with several representatives per class, through eval(text_repr(s, multiline)). "
    "Non-trivial: A = mismatching pairs with a combinator or a text matchee; B = mismatching pairs; C = every "
    "(stock matcher, matchee); D = strings of >= 2 characters not all plain printable ASCII. Distinct by the concrete case."
)


def run(tier, pid="C07"):
    use_repo()
    rep = Report("C07", tier, "exploration", RULE)
    rep.assume("the spec's verdict (MatcherSem.tla) decides which pairs must raise MismatchError / fail the test; C06 checks that verdict itself")
    rep.assume("stock mismatches carry no details, so detail attachment is exercised with a user-defined matcher that wraps the stock matcher and adds details under colliding names")
    rep.assume("a test 'fails' = exactly one outcome event, addFailure, on an ExtendedTestResult double")
    rep.assume("text_repr inputs: classes concretised with the representatives in harness/c07.py:REPS; Python's eval is the oracle for the round trip")
    rep.assume("filesystem matchers are exercised with ASCII names and contents only")
    rnd = random.Random(rep.seed)
    pool = mc.PathPool("c07")
    try:
        check_textrepr_mutation(rep)
        part_stock(rep, pool)
        global NEXTRA
        NEXTRA = 1 if tier == "quick" else 2
        if tier == "quick":
            jobs = [
                ("mt_mcQ.cfg", {}),
                ("mt_sim.cfg", dict(simulate=dict(num=15, depth=14), seed=rep.seed + 1)),
            ]
            test_every, trjobs = 97, [("tr_exp4.cfg", 3)]
            mc_only = []
        else:
            jobs = [
                ("mt_mcQ.cfg", {}),
                ("mt_mcF.cfg", {}),
                ("mt_mcD3.cfg", {}),
                ("mt_sim.cfg", dict(simulate=dict(num=300, depth=16), seed=rep.seed + 1)),
            ]
            test_every, trjobs = 53, [("tr_exp5.cfg", 4)]
            mc_only = ["tr_mc6.cfg"]
        sample = []
        for cfg, rows, uni, r in mc.tlc_rows_pipeline(jobs, "C07"):  # TLC of the next job runs during this replay
            rep.add_tlc(r, cfg)
            sample += part_pairs(rep, rows, uni, pool, rnd, cfg, test_every)
        part_tests(rep, sample, pool, rnd)
        rep.extra["pairs_run_as_real_tests"] = len(sample)
        for cfg, per_row in trjobs:
            part_text_repr(rep, cfg, rnd, per_row)
        for cfg in mc_only:
            r = tlc.run_tlc("match", "TextRepr", cfg, workers=8, coverage=False, timeout=3000)
            tlc.require_ok(r, "C07 " + cfg)
            rep.add_tlc(r, cfg + " (RoundTrip/ModeInvariant only, no export)")
        # (E) expectThat inside the full run lifecycle: a mismatch followed by a skip / expected failure /
        #     failure in a later stage or cleanup still fails the test, and its details arrive - decided by
        #     spec/lifecycle/RunTestTrace.tla on TLC-exported programs containing an `expect` step
        from . import lifecycle

        rep.extra["expectThat_lifecycle_programs"] = lifecycle.expect_that_check(rep, tier)
    finally:
        pool.close()
    import time as _time

    rep.extra["driver_cpu_s"] = round(_time.process_time(), 1)
    rep.exhaustive = False
    rep.extra["explanation"] = (
        "exhaustive over the bounded spaces of the mt_mc*.cfg / tr_exp*.cfg configs, random for mt_sim.cfg and for the "
        "choice of representatives / concretisations"
    )
    return rep.finish()


def replay_file(path, pid="C07"):
    import json

    use_repo()
    v = json.load(open(path))
    sc = v["scenario"]
    if "scenario" in sc and "beh" in sc["scenario"]:
        # expectThat under the Twisted runner (lifecycle.expect_that_async)
        from . import c14

        obs = c14.observe(sc["scenario"])
        bad = [c for c in c14.compare(v["expected"], obs) if c in ("success-iff", "one-outcome")]
        print("replay:", bad or "conforms", obs)
        if bad:
            print("VIOLATION property=C07 replay=%s" % path)
            return 1
        return 0
    if "prog" in sc and "script" in sc["prog"]:
        # expectThat program of the lifecycle model (lifecycle.expect_that_check)
        from . import lifecycle

        tr = lifecycle.observe(sc["prog"], ("ext", "tt"))
        verdict = lifecycle.validate(Report("C07", "quick", "model_checking", "replay"), [tr])[1]
        bad = [c for c in ("c03_sound", "c03_verdict", "c05_details") if not verdict[c]]
        print("replay verdict:", bad or "conforms")
        if bad:
            print("VIOLATION property=C07 replay=%s" % path)
            return 1
        return 0
    pool = mc.PathPool("c07r")
    try:
        if sc.get("part") in ("pairs", "tests"):
            cx = [c for c in mc.CX_ALL if c.name == sc["cx"]][0]
            if sc["part"] == "pairs":
                r, f = check_pair_describable(sc["expr"], sc["value"], cx, pool)
                bad = f is not None
                info = f and (f.clause, f.signature, f.observed)
            else:
                bad_v = mc.trace_verdicts([{"e": sc["expr"], "v": sc["value"], "r": "?"}], None, "replay")
                rep = Report("C07", "quick", "exploration", "replay")
                rep._findings = []  # a replay shows the failure itself, known or not
                part_tests(rep, [(sc["expr"], sc["value"], cx, bad_v.get(1))], pool, random.Random(0))
                bad = bool(rep.violations)
                info = [(x["clause"], x["signature"]) for x in rep.violations]
        elif sc.get("part") == "text_repr":
            from testtools.compat import text_repr

            s = eval(sc["text"])
            try:
                out = text_repr(s, sc["multiline"])
                bad = eval(out) != s
                info = out
            except BaseException as ex:  # noqa
                bad, info = True, repr(ex)
        else:
            rep = Report("C07", "quick", "exploration", "replay")
            rep._findings = []
            part_stock(rep, pool)
            hit = [x for x in rep.violations if x["signature"] == v["signature"]]
            bad, info = bool(hit), [(x["clause"], x["signature"]) for x in hit]
    finally:
        pool.close()
    if bad:
        print("VIOLATION property=C07 replay=%s" % path)
        print("  %r" % (info,))
        return 1
    print("replay: no failure on this scenario")
    return 0
