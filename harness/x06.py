"""X06 - PlaceHolder / ErrorHolder, clone_test_with_new_id, TestCase equality.

Specs: spec/extra/Holder.tla and spec/extra/CloneEq.tla.

Holder: TLC checks run() as the code's call sequence + the ExtendedToOriginalDecorator forwarding (mechanism) against
an observing result folded over the calls that reached it (meaning): OneTestSeen, OutcomeMeaning, TagsMeaning,
TimeMeaning, DescribeMeaning, ExactCalls - for every constructor-argument combination of the alphabet x result
flavour x tags already current in the result; every behaviour (describe, run, run again, describe) is replayed with a
real PlaceHolder / ErrorHolder against the logging doubles, comparing the calls that reached the result one by one
(time values, tag sets, test identity, outcome name, detail names and contents, traceback origin), the tags current
afterwards, and id()/str()/shortDescription()/countTestCases().

CloneEq: TLC checks objects-as-attribute-dictionaries (copy, id callback, two-step ==, per-run rebinding: mechanism)
against EqEquivalence, EqIffSameAttributes, HashOK, EqualTestsSameId, CloneMeaning, RunMeaning, IdsStable (meaning);
every exported behaviour (construct / clone / set attribute / run, in any order) is replayed on real TestCase objects:
after EVERY call the id() of every object alive and the full == / != / hash matrix are compared, and for run which
method ran on which object under which id and how it was reported.
"""

import datetime
import sys

from . import tlc
from .common import Report, use_repo, jdump

PROPS = ("X06",)

UTC = datetime.timezone.utc
OUTCOMES = ("addSuccess", "addError", "addFailure", "addSkip", "addExpectedFailure", "addUnexpectedSuccess")


def ts_of(s):
    return None if s == "none" else datetime.datetime(2001, 2, 3, 4, 5, int(s), tzinfo=UTC)


# ---------------------------------------------------------------------------------------------- Holder

_exc = None


def exc_info():
    global _exc
    if _exc is None:
        try:
            raise ValueError("boom é")
        except ValueError:
            _exc = sys.exc_info()
    return _exc


def build_holder(cfg):
    from testtools import content
    from testtools.testcase import ErrorHolder, PlaceHolder

    det = {}
    for name, tokn in cfg["det"]:
        det[name] = content.text_content({"D": "D é", "OLD": "OLD"}[tokn])
    if not det and cfg["short"] == "none":
        det = None
    short = None if cfg["short"] == "none" else "short é"
    tid = "pkg.holder.é"
    if cfg["error"] and not cfg["tags"] and cfg["ts0"] == "none" and cfg["ts1"] == "none" and cfg["outcome"] == "addError":
        return tid, short, ErrorHolder(tid, exc_info(), short_description=short, details=det)
    kw = {}
    if cfg["error"]:
        kw["error"] = exc_info()
    if cfg["tags"]:
        kw["tags"] = set(cfg["tags"])
    if cfg["ts0"] != "none" or cfg["ts1"] != "none":
        kw["timestamps"] = (ts_of(cfg["ts0"]), ts_of(cfg["ts1"]))
    if cfg["outcome"] == "addSuccess" and not kw and det is None and short is None:
        return tid, short, PlaceHolder(tid)  # all defaults
    return tid, short, PlaceHolder(tid, short_description=short, details=det, outcome=cfg["outcome"], **kw)


def classify_details(d):
    out = []
    for name in sorted(d):
        txt = d[name].as_text()
        if txt == "D é":
            tokn = "D"
        elif txt == "OLD":
            tokn = "OLD"
        elif name == "traceback" and "ValueError" in txt and "boom" in txt:
            tokn = "ERR"
        else:
            tokn = "?" + txt[:40]
        out.append([name, tokn])
    return out


def proj_ext(events, holder):
    out = []
    for ev in events:
        m = ev[0]
        if m == "time":
            out.append({"m": "time", "a": ev[1]})
        elif m == "tags":
            out.append({"m": "tags", "new": sorted(ev[1]), "gone": sorted(ev[2])})
        elif m in ("startTest", "stopTest"):
            out.append({"m": m, "same_test": ev[1] is holder})
        elif m in OUTCOMES:
            det = ev[2] if len(ev) > 2 and isinstance(ev[2], dict) else {}
            out.append({"m": m, "same_test": ev[1] is holder, "details": classify_details(det)})
        else:
            out.append({"m": m})
    return out


def exp_ext(log):
    out = []
    for x in log:
        m = x["m"]
        if m == "time":
            out.append({"m": "time", "a": ts_of(x["a"])})
        elif m == "tags":
            out.append({"m": "tags", "new": sorted(x["new"]), "gone": sorted(x["gone"])})
        elif m in ("startTest", "stopTest"):
            out.append({"m": m, "same_test": True})
        else:
            out.append({"m": m, "same_test": True, "details": sorted([list(p) for p in x["a"]])})
    return out


def holder_replay(hist):
    """Return None or (step index, clause, expected, observed)."""
    from testtools.testresult import doubles

    init = hist[0]
    cfg, flav = init["cfg"], init["flav"]
    tid, short, holder = build_holder(cfg)
    if flav == "ext":
        result = doubles.ExtendedTestResult()
        if init["g"]:
            result.tags(set(init["g"]), set())
    elif flav == "py27":
        result = doubles.Python27TestResult()
    elif flav == "py26":
        result = doubles.Python26TestResult()
    else:
        result = None
    nrun = 0
    for i, h in enumerate(hist[1:], 1):
        if h["a"] == "describe":
            exp = {
                "id": tid,
                "str": tid,
                "short": short if h["out"]["short"] == "s" else tid,
                "count": h["out"]["count"],
            }
            try:
                obs = {"id": holder.id(), "str": str(holder), "short": holder.shortDescription(), "count": holder.countTestCases()}
            except Exception as ex:
                return (i, "holder-raised", None, "%s: %s" % (type(ex).__name__, ex))
            if obs != exp:
                return (i, "holder-describe", exp, obs)
            continue
        mark = len(result._events) if result is not None else 0
        nrun += 1
        try:
            ret = holder.run(result) if nrun == 1 else holder(result)
        except Exception as ex:
            return (i, "holder-raised", None, "%s: %s" % (type(ex).__name__, ex))
        if ret is not None:
            return (i, "holder-run-returns", None, repr(ret))
        if result is None:
            continue
        evs = result._events[mark:]
        if flav == "ext":
            exp, obs = exp_ext(h["log"]), proj_ext(evs, holder)
            if exp != obs:
                clause = "holder-calls"
                for e, o in zip(exp, obs):
                    if e != o:
                        if e["m"] != o["m"]:
                            clause = "holder-calls"
                        elif e["m"] == "time":
                            clause = "holder-timestamps"
                        elif e["m"] == "tags":
                            clause = "holder-tags"
                        elif "details" in e and e["details"] != o.get("details"):
                            clause = "holder-details"
                        else:
                            clause = "holder-test-identity"
                        break
                return (i, clause, exp, obs)
            if sorted(result.current_tags) != sorted(h["tagsAfter"]):
                return (i, "holder-tags-after", sorted(h["tagsAfter"]), sorted(result.current_tags))
        else:
            exp = [x["m"] for x in h["log"]]
            obs = [ev[0] for ev in evs]
            if exp != obs:
                return (i, "holder-calls-old-result", exp, obs)
            if any(ev[1] is not holder for ev in evs):
                return (i, "holder-test-identity", "the holder", "another object")
    return None


def holder_shape(hist):
    c = hist[0]["cfg"]
    return {
        "flavour": hist[0]["flav"],
        "global_tags": hist[0]["g"],
        "outcome": c["outcome"],
        "error": c["error"],
        "tags": c["tags"],
        "timestamps": [c["ts0"], c["ts1"]],
        "details": c["det"],
        "short": c["short"],
    }


def holder_signature(hist, clause, observed):
    c = hist[0]["cfg"]
    extra = ""
    if clause == "holder-raised":
        extra = ":" + str(observed).split(":", 1)[0]
    flags = "".join(
        [
            "E" if c["error"] else "",
            "T" if c["tags"] else "",
            "s" if c["ts0"] != "none" else "",
            "f" if c["ts1"] != "none" else "",
            "D" if c["det"] else "",
        ]
    )
    if clause in ("holder-calls-old-result", "holder-raised"):
        return "x06:%s:%s:%s%s" % (clause, hist[0]["flav"], c["outcome"], extra)
    if clause == "holder-describe":
        return "x06:%s:%s" % (clause, "short" if c["short"] != "none" else "noshort")
    return "x06:%s:%s:%s" % (clause, hist[0]["flav"], flags)


# ---------------------------------------------------------------------------------------------- CloneEq

_classes = None
BODY_LOG = []


def classes():
    global _classes
    if _classes is None:
        import testtools

        class T(testtools.TestCase):
            def test_ok(self):
                BODY_LOG.append((type(self).__name__, "test_ok", self.id(), id(self)))

            def test_fail(self):
                BODY_LOG.append((type(self).__name__, "test_fail", self.id(), id(self)))
                self.fail("no")

        class U(testtools.TestCase):
            def test_ok(self):
                BODY_LOG.append((type(self).__name__, "test_ok", self.id(), id(self)))

            def test_fail(self):
                BODY_LOG.append((type(self).__name__, "test_fail", self.id(), id(self)))
                self.fail("no")

        _classes = {"T": T, "U": U}
    return _classes


def conc_id(i):
    if len(i) == 1:
        return {"n1": "renamed.one", "n2": "renamed(two é)"}[i[0]]
    cls = classes()[i[0]]
    return "%s.%s.%s" % (cls.__module__, cls.__qualname__, i[1])


def clone_replay(hist):
    from testtools.testcase import clone_test_with_new_id
    from testtools.testresult import doubles

    objs = []
    for i, h in enumerate(hist):
        a, arg = h["a"], h["arg"]
        try:
            if a == "construct":
                objs.append(classes()[arg["cls"]](arg["meth"]))
            elif a == "clone":
                src = objs[arg["of"] - 1]
                new = clone_test_with_new_id(src, conc_id([arg["newid"]]))
                if new is src:
                    return (i, "clone-is-a-copy", "a new object", "the original")
                objs.append(new)
            elif a == "copy":
                import copy

                objs.append(copy.copy(objs[arg - 1]))
            elif a == "setattr":
                objs[arg["of"] - 1].extra = arg["v"]
            elif a == "run":
                o = objs[arg - 1]
                res = doubles.ExtendedTestResult()
                del BODY_LOG[:]
                o.run(res)
                out = h["out"]
                exp_body = [(out["body"]["cls"], out["body"]["meth"], conc_id(out["body"]["selfid"]), True)]
                obs_body = [(c, m, sid, oid == id(o)) for c, m, sid, oid in BODY_LOG]
                if obs_body != exp_body:
                    return (i, "clone-runs-own-method", exp_body, obs_body)
                names = [ev[0] for ev in res._events]
                if names != ["startTest", out["outcome"], "stopTest"]:
                    return (i, "clone-run-outcome", ["startTest", out["outcome"], "stopTest"], names)
                rep_ids = sorted({ev[1].id() for ev in res._events})
                if rep_ids != [conc_id(out["reported"])] or any(ev[1] is not o for ev in res._events):
                    return (i, "clone-reported-id", conc_id(out["reported"]), rep_ids)
            else:
                raise tlc.MachineryError("X06: unknown action %r" % a)
        except tlc.MachineryError:
            raise
        except Exception as ex:
            return (i, "clone-raised", None, "%s: %s" % (type(ex).__name__, ex))
        ids = [o.id() for o in objs]
        exp_ids = [conc_id(x) for x in h["ids"]]
        if ids != exp_ids:
            clause = "clone-new-id" if a == "clone" and ids[:-1] == exp_ids[:-1] else "ids-unchanged"
            return (i, clause, exp_ids, ids)
        extras = [getattr(o, "extra", "none") for o in objs]
        if extras != h["extras"]:
            return (i, "clone-keeps-attributes", h["extras"], extras)
        n = len(objs)
        eq = [[bool(objs[x] == objs[y]) for y in range(n)] for x in range(n)]
        if eq != h["eq"]:
            return (i, "eq-matrix", h["eq"], eq)
        for x in range(n):
            for y in range(n):
                if bool(objs[x] != objs[y]) == eq[x][y]:
                    return (i, "ne-is-not-eq", not eq[x][y], eq[x][y])
                if eq[x][y] and hash(objs[x]) != hash(objs[y]):
                    return (i, "equal-hash", "equal hashes", "different hashes")
    return None


def clone_shape(hist):
    out = []
    for h in hist:
        a, arg = h["a"], h["arg"]
        if a == "construct":
            out.append("%s(%s)" % (arg["cls"], arg["meth"]))
        elif a == "clone":
            out.append("clone(#%d,%s)" % (arg["of"], arg["newid"]))
        elif a == "setattr":
            out.append("#%d.extra=%s" % (arg["of"], arg["v"]))
        elif a == "copy":
            out.append("copy(#%d)" % arg)
        else:
            out.append("run(#%d)" % arg)
    return out


def clone_signature(hist, clause, observed):
    last = hist[-1]
    extra = ""
    if clause == "clone-raised":
        extra = ":" + str(observed).split(":", 1)[0]
    prior = sorted({h["a"] for h in hist[:-1]})
    if clause in ("eq-matrix", "ne-is-not-eq", "equal-hash"):
        return "x06:%s:after-%s" % (clause, last["a"])
    return "x06:%s:%s%s:%s" % (clause, last["a"], extra, "cloned" if "clone" in prior else "fresh")


# ---------------------------------------------------------------------------------------------- driver


def run(tier, pid="X06"):
    use_repo()
    rep = Report(
        "X06",
        tier,
        "model_checking",
        "Holder: cases = (constructor arguments: 6 outcomes x 4 tag sets x start/finish timestamp known or not x 3 "
        "details dicts x short description or not; ErrorHolder and PlaceHolder(error=)) x result flavour (extended, "
        "2.7, 2.6, None) x tags already current in the result; each behaviour = describe, run, run again via __call__, "
        "describe. CloneEq: behaviours = sequences of construct / clone_test_with_new_id / set attribute / run over up "
        "to 3 objects of 2 classes x 2 methods, enumerated by TLC. All behaviours replayed on the real objects with "
        "per-call comparison. Non-trivial = holder with tags, timestamps, details or error, or an old-style result; "
        "clone behaviours with a clone of a clone, a run, or an attribute change; distinct by arguments / call sequence.",
    )
    rep.assume("PlaceHolder.run(2.6-style result) with outcome addUnexpectedSuccess is the open C08 finding (TypeError) and is not re-judged here")
    rep.assume("for 2.6/2.7-style results only the sequence of method names and the identity of the test are compared (how details degrade is C08's business); the verdict must not flip between pass-like and fail-like")
    rep.assume("tests are compared with == as the code defines it: objects that have no value equality (the unique-id generator, the id callback) count as attributes compared by identity, so two separately constructed tests are unequal and a fresh copy equals its source")
    rep.assume("clone_test_with_new_id is judged on tests that have been constructed (documented use); running and cloning afterwards is executed and compared too")
    jobs = [
        ("MCHolder", "hd_exp.cfg", ["DescribeIt", "Run"], holder_replay, holder_shape, holder_signature, "holder"),
        ("MCCloneEq", "ce_mc.cfg", ["Construct", "Clone", "Copy", "SetExtra", "RunObj"], None, None, None, None),
        ("MCCloneEq", "ce_exp.cfg", ["Construct", "Clone", "Copy", "SetExtra", "RunObj"], clone_replay, clone_shape, clone_signature, "clone"),
    ]
    for mod, cfg, actions, replay, shape, signature, kind in jobs:
        r = tlc.run_tlc("extra", mod, cfg, coverage=True, timeout=600, workers=4)
        tlc.require_ok(r, "X06 " + cfg)
        tlc.require_coverage(r, actions, "X06 " + cfg)
        rep.add_tlc(r, cfg)
        if replay is None:
            continue
        nb = 0
        for hist in tlc.exported(r):
            nb += 1
            if kind == "holder":
                c = hist[0]["cfg"]
                nk = None
                if c["tags"] or c["ts0"] != "none" or c["ts1"] != "none" or c["det"] or c["error"] or hist[0]["flav"] != "ext":
                    nk = jdump(holder_shape(hist))
            else:
                acts = [h["a"] for h in hist]
                nk = jdump(clone_shape(hist)) if ("run" in acts or "setattr" in acts or "copy" in acts or acts.count("clone") > 1) else None
            bad = replay(hist)
            rep.case(sample={kind: shape(hist)} if nk and rep.evaluations % 1700 == 13 else None, nontrivial_key=nk)
            rep.traces += 1
            if bad:
                i, clause, exp, obs = bad
                cut = hist[: i + 1]
                rep.violation(clause, signature(cut, clause, obs), {"kind": kind, "behaviour": cut, "cfg": cfg}, expected=exp, observed=obs)
        if nb == 0:
            raise tlc.MachineryError("X06 %s exported no behaviours" % cfg)
    if not rep.samples:
        rep.sample({"note": "see tlc_runs"})
    rep.exhaustive = True
    rep.extra["explanation"] = "exhaustive over the alphabets and bounds of spec/extra/hd_exp.cfg, ce_mc.cfg, ce_exp.cfg"
    return rep.finish()


def replay_file(path, pid="X06"):
    import json

    use_repo()
    v = json.load(open(path))
    sc = v["scenario"]
    bad = (holder_replay if sc["kind"] == "holder" else clone_replay)(sc["behaviour"])
    if bad:
        print("VIOLATION property=X06 replay=%s" % path)
        print("  step=%s clause=%s expected=%r observed=%r" % bad)
        return 1
    print("replay: behaviour conforms")
    return 0
