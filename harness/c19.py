"""C19 - suite utilities preserve the test set: filter keeps chosen ids, sort permutes.

Spec: spec/pure/Suites.tla.  Suite trees are grown by AddChild (cases, placeholders, plain / custom /
custom+sort_tests / custom+filter_by_ids suites, empty suites, duplicate ids).  TLC checks the code-shaped
recursions (Iter, FilterAt, Flat+sort) against the path-order meaning (IterateOnce, FilterExact, SortPermutes,
DupIffValueError, SortNoTypeError) on every tree of the bounded instance and exports one row per tree:
the tree, its leaves, the kept leaves for EVERY subset of ids (incl. an id no test has) and the sorted units.
Each row is executed against the real iterate_tests / filter_by_ids / sorted_tests on real suites built from
the tree.  Deeper random trees with two in-place filters followed by a sort come from `tlc -simulate`.
For a sample of rows testtools.run.TestProgram is driven in-process with --list / --load-list (and three times
as a subprocess) and the ids printed / run are compared with the same expectations.
"""

import io
import hashlib
import json
import os
import random
import subprocess
import sys
import tempfile
import types
import unittest
from concurrent.futures import ThreadPoolExecutor

from . import tlc
from .common import BUILD, Report, jdump, repo_path, shrink, use_repo

PROPS = ("C19",)
ACTIONS = ["AddChild", "DoFilter", "DoPreSort", "DoSort"]
MODNAME = "verif_c19_mod"

# model id n -> (class, method): the order of the FULL ids is the order of n, the order of the method names alone
# is the reverse, so that a sort on anything but the whole id shows
IDPARTS = {1: ("A", "test_e"), 2: ("B", "test_d"), 3: ("C", "test_c"), 4: ("D", "test_b"), 5: ("E", "test_a")}
ABSENT = MODNAME + ".Z.test_absent"
RUNLOG = []


# second id scheme (variant bit 1): ids with embedded spaces / tabs, as parameterised tests, clone_test_with_new_id and
# PlaceHolders have; id 3 contains the whole of id 1 as a whitespace-separated fragment.  Order of the ids as above.
SPACEY = {
    2: "(py 3,\tno ssl)",
    3: " " + MODNAME + ".A.test_e",
    5: " [variant  x]",
}
SCHEME = [0]


def cid(n):
    c, m = IDPARTS[n]
    base = "%s.%s.%s" % (MODNAME, c, m)
    return base + SPACEY.get(n, "") if SCHEME[0] else base


def absent():
    return ABSENT + (" " + MODNAME + ".D.test_b" if SCHEME[0] else "")


def set_variant(variant):
    """bit 0: FixtureSuite stands for the sort_tests subclass; bit 1: ids with embedded whitespace."""
    SCHEME[0] = (variant >> 1) & 1


def write_list(path, ids, style):
    """A --load-list file in one of the shapes the line-wise parser accepts (one id per line, surrounding whitespace and
    blank lines ignored): LF, CRLF, no final newline, blank lines + trailing blanks."""
    style %= 4
    if style == 0:
        text = "".join(i + "\n" for i in ids)
    elif style == 1:
        text = "".join(i + "\r\n" for i in ids)
    elif style == 2:
        text = "\n".join(ids)
    else:
        text = "\n" + "".join(i + " \t\n\n" for i in ids) + "   \n"
    with open(path, "wb") as fh:
        fh.write(text.encode("utf-8"))


_K = {}


def kit():
    """Real classes the abstract node kinds are concretised with (created once, after use_repo())."""
    if _K:
        return _K
    import fixtures
    import testtools
    from testtools import testsuite

    mod = types.ModuleType(MODNAME)
    sys.modules[MODNAME] = mod
    cases = {}
    for n, (cname, meth) in IDPARTS.items():

        def body(self):
            RUNLOG.append(self.id())

        cls = type(cname, (testtools.TestCase,), {meth: body, "__module__": MODNAME})
        setattr(mod, cname, cls)
        cases[n] = (cls, meth)

    class Holder(testtools.PlaceHolder):
        def run(self, result=None):
            RUNLOG.append(self.id())
            return super().run(result)

    class Custom(unittest.TestSuite):
        """TestSuite subclass without extras."""

    class CustomSort(unittest.TestSuite):
        """TestSuite subclass with the sort_tests protocol (body as in testtools.testsuite.FixtureSuite)."""

        def sort_tests(self):
            self._tests = list(testsuite.sorted_tests(self, True))

    class CustomFilter(unittest.TestSuite):
        """TestSuite subclass with its own filter_by_ids: answers with an equivalent suite of its own class."""

        calls = 0

        def filter_by_ids(self, test_ids):
            CustomFilter.calls += 1
            new = CustomFilter([testsuite.filter_by_ids(t, test_ids) for t in self])
            new._vp = self._vp
            return new

    _K.update(
        cases=cases,
        Holder=Holder,
        plain=unittest.TestSuite,
        custom=Custom,
        customsort=CustomSort,
        customfilter=CustomFilter,
        FixtureSuite=testsuite.FixtureSuite,
        Fixture=fixtures.Fixture,
        mod=mod,
        testsuite=testsuite,
        clone=testtools.clone_test_with_new_id,
    )
    return _K


# ---------------------------------------------------------------------------------------------------------
# abstract tree (list of {"p","k","id"} in preorder) -> nested python -> real suite


def nest(nodes):
    root = None
    index = {}
    for n in nodes:
        node = {"k": n["k"], "id": n["id"], "kids": []}
        index[tuple(n["p"])] = node
        if not n["p"]:
            root = node
        else:
            index[tuple(n["p"][:-1])]["kids"].append(node)
    return root


def vp(path):
    return "/" + "/".join(str(i) for i in path)


def build(node, variant=0, path=()):
    """Real suite / test for an abstract node.  variant 1 uses testtools' own FixtureSuite for "customsort"."""
    K = kit()
    k = node["k"]
    if k == "case":
        cls, meth = K["cases"][node["id"]]
        obj = cls(meth)
        if obj.id() != cid(node["id"]):
            obj = K["clone"](obj, cid(node["id"]))
    elif k == "holder":
        obj = K["Holder"](cid(node["id"]))
    else:
        kids = [build(c, variant, path + (i + 1,)) for i, c in enumerate(node["kids"])]
        if k == "customsort" and variant & 1:
            obj = K["FixtureSuite"](K["Fixture"](), kids)
        else:
            obj = K[k](kids)
    obj._vp = vp(path)
    return obj


def is_suite(x):
    try:
        iter(x)
    except TypeError:
        return False
    return True


def observe_leaves(x, chain=()):
    """[(own label, labels of the enclosing ORIGINAL suites outermost first, id)] in iteration order, by walking
    the real structure (suites created by the code under test carry no label and are transparent)."""
    if not is_suite(x):
        return [(getattr(x, "_vp", "?"), chain, x.id())]
    label = getattr(x, "_vp", None)
    sub = chain + (label,) if label is not None else chain
    out = []
    for t in x:
        out.extend(observe_leaves(t, sub))
    return out


def expected_leaves(obs):
    out = []
    for o in obs:
        p = o["p"]
        out.append((vp(p), tuple(vp(p[:i]) for i in range(len(p))), cid(o["id"])))
    return out


def idset(ids, form=0):
    s = [absent() if i not in IDPARTS or i > NIDS[0] else cid(i) for i in ids]
    return (set(s), frozenset(s), list(s), tuple(s))[form % 4]


NIDS = [3]


# ---------------------------------------------------------------------------------------------------------
# the three comparisons


def check_iterate(root, row_leaves):
    from testtools.testsuite import iterate_tests

    tests = list(iterate_tests(root))
    got_ids = [t.id() for t in tests]
    exp = expected_leaves(row_leaves)
    if got_ids != [e[2] for e in exp]:
        return ("iterate-ids", [e[2] for e in exp], got_ids)
    if [getattr(t, "_vp", "?") for t in tests] != [e[0] for e in exp]:  # the very objects, each once
        return ("iterate-once", [e[0] for e in exp], [getattr(t, "_vp", "?") for t in tests])
    return None


def check_filter(root, ids, kept, form=0):
    """Returns (bad-or-None, result)"""
    from testtools.testsuite import filter_by_ids

    res = filter_by_ids(root, idset(ids, form))
    got = observe_leaves(res)
    exp = expected_leaves(kept)
    if [g[2] for g in got] != [e[2] for e in exp]:
        return ("filter-ids", [e[2] for e in exp], [g[2] for g in got]), res
    if got != exp:
        return ("filter-grouping", exp, got), res
    return None, res


def _units_match(exp_units, got_units):
    """exp: [{"p","key","ids"}]; got: [(label, [ids])].  Units without a key (leafless custom suites) may be anywhere."""
    keyed = [(vp(u["p"]), [cid(i) for i in u["ids"]]) for u in exp_units if u["key"] != 0]
    free = sorted(vp(u["p"]) for u in exp_units if u["key"] == 0)
    free_set = set(free)
    got_keyed = [g for g in got_units if g[0] not in free_set]
    got_free = sorted(g[0] for g in got_units if g[0] in free_set)
    return keyed == got_keyed and free == got_free and all(not g[1] for g in got_units if g[0] in free_set)


def check_sort(root, sorted_pre, sorted_post):
    from testtools.testsuite import iterate_tests, sorted_tests

    try:
        res = sorted_tests(root)
    except ValueError as ex:
        if sorted_pre["exc"] == "ValueError":
            return None
        return ("sort-valueerror-without-duplicates", "no exception", repr(ex))
    except Exception as ex:
        return ("sort-raised", sorted_pre["exc"], "%s: %s" % (type(ex).__name__, ex))
    if sorted_pre["exc"] == "ValueError":
        return ("sort-duplicates-not-rejected", "ValueError", [t.id() for t in iterate_tests(res)])
    if not is_suite(res):
        return ("sort-result", "a suite", repr(res))
    got_units = [(getattr(u, "_vp", "?"), [t.id() for t in iterate_tests(u)]) for u in res]
    if _units_match(sorted_pre["units"], got_units) or _units_match(sorted_post["units"], got_units):
        return None
    exp_ids = sorted(cid(i) for u in sorted_pre["units"] for i in u["ids"])
    got_ids = [i for u in got_units for i in u[1]]
    if sorted(got_ids) != exp_ids:
        return ("sort-same-tests", exp_ids, got_ids)
    return ("sort-order-units", [(vp(u["p"]), [cid(i) for i in u["ids"]]) for u in sorted_pre["units"]], got_units)


# ---------------------------------------------------------------------------------------------------------
# signatures


def shape(node):
    if node["k"] in ("case", "holder"):
        return "L"
    k = {"plain": "P", "custom": "C", "customsort": "S", "customfilter": "F"}[node["k"]]
    return "%s(%s)" % (k, ",".join(shape(c) for c in node["kids"]))


def leafless_custom_unit(node, under_plain=True):
    """Is there a non-plain suite without any test below it, all of whose ancestors are plain (= a sort unit),
    or such a unit inside a suite whose own sort_tests runs?"""
    if node["k"] in ("case", "holder"):
        return False
    if node["k"] != "plain":
        if not leaves_of(node):
            return True
        if node["k"] == "customsort":
            return any(leafless_custom_unit(c) for c in node["kids"])
        return False
    return any(leafless_custom_unit(c) for c in node["kids"])


def leaves_of(node):
    if node["k"] in ("case", "holder"):
        return [node["id"]]
    out = []
    for c in node["kids"]:
        out += leaves_of(c)
    return out


def subtrees_removed(root):
    """Candidate trees with one subtree deleted (for shrinking)."""

    def rec(node):
        for i in range(len(node["kids"])):
            yield dict(node, kids=node["kids"][:i] + node["kids"][i + 1 :])
            for sub in rec(node["kids"][i]):
                yield dict(node, kids=node["kids"][:i] + [sub] + node["kids"][i + 1 :])

    return rec(root)


def shrink_exception(root, variant, exc_name):
    def fails(t):
        from testtools.testsuite import sorted_tests

        try:
            sorted_tests(build(t, variant))
        except Exception as ex:
            return type(ex).__name__ == exc_name
        return False

    cur = root
    changed = True
    while changed:
        changed = False
        for cand in subtrees_removed(cur):
            if fails(cand):
                cur = cand
                changed = True
                break
    return cur


def signature(op, bad, root, variant):
    clause, exp, obs = bad
    if clause == "sort-raised":
        exc = str(obs).split(":", 1)[0]
        small = shrink_exception(root, variant, exc)
        ids = leaves_of(small)
        if exc == "TypeError" and leafless_custom_unit(small) and len(set(ids)) == len(ids):
            return "sorted_tests:raised:TypeError:leafless-custom-suite", small
        return "sorted_tests:raised:%s:%s" % (exc, shape(small)), small
    return "%s:%s:%s" % (op, clause, shape(root)), root


# ---------------------------------------------------------------------------------------------------------
# testtools.run


def run_program(root, args):
    """Drive testtools.run.TestProgram in-process; returns (stdout text, exit code or None, ids run)."""
    from testtools import run

    K = kit()
    K["mod"].test_suite = lambda: root
    out = io.StringIO()
    del RUNLOG[:]
    code = None
    try:
        run.TestProgram(argv=["prog"] + args + [MODNAME + ".test_suite"], stdout=out)
    except SystemExit as ex:
        code = ex.code
    return out.getvalue(), code, list(RUNLOG)


def check_program(rep, row, nodes, root_abs, variant, tmpdir, rnd):
    """--list prints exactly the ids of iterate_tests; --load-list keeps / runs exactly the listed tests."""
    exp_all = [cid(o["id"]) for o in row["leaves"]]
    out, code, ran = run_program(build(root_abs, variant), ["--list"])
    yield "list", None, (
        None if (out.splitlines() == exp_all and not code and not ran) else ("run-list", exp_all, (out, code, ran))
    )
    picks = rnd.sample(row["filt"], 2)
    for f in picks:
        path = os.path.join(tmpdir, "load.list")
        write_list(path, idset(f["ids"], 2), rnd.randrange(4))
        exp = [cid(o["id"]) for o in f["kept"]]
        out, code, ran = run_program(build(root_abs, variant), ["--list", "--load-list", path])
        yield "list+load-list", f["ids"], (
            None if (out.splitlines() == exp and not code and not ran) else ("run-load-list-list", exp, (out, code, ran))
        )
        out, code, ran = run_program(build(root_abs, variant), ["--load-list", path])
        ok = sorted(ran) == sorted(exp) and not code and ("Ran %d test" % len(exp)) in out
        yield "load-list", f["ids"], (None if ok else ("run-load-list-runs", exp, (out[-300:], code, ran)))


SUBPROCESS_MODULE = """\
import json, sys
sys.path.insert(0, %(verif)r)
from harness import c19, common
common.use_repo()
c19.set_variant(%(variant)d)
def test_suite():
    return c19.build(c19.nest(json.loads(%(nodes)r)), %(variant)d)
"""


def check_subprocess(row, variant, tmpdir, ids=None):
    """python -m testtools.run as a real process: stdout and exit status."""
    set_variant(variant)
    with open(os.path.join(tmpdir, "verif_c19_sub.py"), "w") as fh:
        fh.write(SUBPROCESS_MODULE % dict(verif=tlc.VERIF, nodes=json.dumps(row["nodes"]), variant=variant))
    args = ["--list"]
    exp = [cid(o["id"]) for o in row["leaves"]]
    if ids is not None:
        path = os.path.join(tmpdir, "sub.list")
        write_list(path, idset(ids["ids"], 2), len(ids["ids"]))
        args += ["--load-list", path]
        exp = [cid(o["id"]) for o in ids["kept"]]
    env = dict(os.environ, PYTHONPATH=repo_path() + os.pathsep + tmpdir, VERIF_REPO=repo_path())
    p = subprocess.run(
        [sys.executable, "-m", "testtools.run"] + args + ["verif_c19_sub.test_suite"],
        env=env,
        cwd=tmpdir,
        stdout=subprocess.PIPE,
        stderr=subprocess.PIPE,
        text=True,
        timeout=120,
    )
    if p.returncode != 0 and ("ModuleNotFoundError" in p.stderr or "MachineryError" in p.stderr):
        raise tlc.MachineryError("C19 subprocess harness failure: %s" % p.stderr[-2000:])
    if p.stdout.splitlines() == exp and p.returncode == 0:
        return None
    return ("run-subprocess-list", exp, (p.stdout, p.returncode, p.stderr[-500:]))


# ---------------------------------------------------------------------------------------------------------


def nontrivial(root):
    """Non-trivial tree: a suite nested in a suite, a non-plain suite, or a duplicated id."""
    ids = leaves_of(root)
    if len(set(ids)) < len(ids):
        return True

    def rec(node, depth):
        if node["k"] in ("case", "holder"):
            return False
        if node["k"] != "plain" or depth >= 1:
            return True
        return any(rec(c, depth + 1) for c in node["kids"])

    return rec(root, 0)


def replay_row(rep, row, n, cfg, prog=None):
    root_abs = nest(row["nodes"])
    variant = n % 4
    set_variant(variant)
    nt = nontrivial(root_abs)
    key = jdump(row["nodes"]) if nt else None

    def done(op, arg, bad, scenario_extra=None):
        rep.case(
            sample={"tree": shape(root_abs), "nodes": row["nodes"], "op": op, "arg": arg} if nt and rep.evaluations % 20011 == 17 else None,
            nontrivial_key=(key + op + jdump(arg)) if nt else None,
        )
        if bad:
            sig, small = signature(op, bad, root_abs, variant)
            sc = {"kind": "row", "cfg": cfg, "nodes": row["nodes"], "variant": variant, "op": op, "arg": arg, "minimised": shape(small)}
            sc.update(scenario_extra or {})
            rep.violation(bad[0], sig, sc, expected=bad[1], observed=bad[2])

    done("iterate", None, check_iterate(build(root_abs, variant), row["leaves"]), {"leaves": row["leaves"]})
    for j, f in enumerate(row["filt"]):
        bad, _ = check_filter(build(root_abs, variant), f["ids"], f["kept"], form=n + j)
        done("filter", f["ids"], bad, {"kept": f["kept"], "form": (n + j) % 4})
    done("sort", None, check_sort(build(root_abs, variant), row["sorted"], row["sortedPost"]),
         {"sorted": row["sorted"], "sortedPost": row["sortedPost"]})
    # sequences on the SAME objects: sort, sort again; sort, filter in place, sort again (history independence)
    if row.get("seqs"):
        has_own_sort = "customsort" in jdump(row["nodes"])
        root = build(root_abs, variant)
        bad = check_sort(root, row["sorted"], row["sortedPost"]) or check_sort(root, row["sorted"], row["sortedPost"])
        done("sort;sort", None, bad, {"sorted": row["sorted"], "sortedPost": row["sortedPost"]})
        for j, q in enumerate(row["seqs"]):
            root = build(root_abs, variant)
            bad = check_sort(root, row["sorted"], row["sortedPost"])
            if not bad:
                if has_own_sort:
                    # the first sort reordered (and flattened) the inside of the suites with sort_tests: same tests, as a set
                    from testtools.testsuite import filter_by_ids

                    root = filter_by_ids(root, idset(q["ids"], n + j))
                    got = sorted((g[0], g[2]) for g in observe_leaves(root))
                    exp = sorted((e[0], e[2]) for e in expected_leaves(q["kept"]))
                    bad = None if got == exp else ("filter-ids", exp, got)
                else:
                    bad, root = check_filter(root, q["ids"], q["kept"], form=n + j)
            if not bad:
                bad = check_sort(root, q["sorted"], q["sortedPost"])
            done("sort;filter;sort", q["ids"], bad, {"seq": q, "sorted": row["sorted"], "sortedPost": row["sortedPost"]})
    if prog is not None and root_abs["k"] != "holder":
        tmpdir, rnd = prog
        for op, arg, bad in check_program(rep, row, row["nodes"], root_abs, variant, tmpdir, rnd):
            done("run:" + op, arg, bad, {"leaves": row["leaves"], "filt": row["filt"]})


def run_behaviour(hist, variant, n):
    """Applies the calls of a behaviour to ONE real tree, comparing after every call; (index, bad) or (None, None).
    After a presort the inside of suites with sort_tests is legitimately reordered / flattened: from then on a filter is
    compared as a set of (test, id) and sorts are accepted under either reading of 'first test' (as always)."""
    from testtools.testsuite import filter_by_ids

    set_variant(variant)
    cur = build(nest(hist[0]["before"]), variant)
    own_sort = "customsort" in jdump(hist[0]["before"])
    presorted = False
    for i, h in enumerate(hist):
        if h["a"] == "filter":
            if presorted and own_sort:
                cur = filter_by_ids(cur, idset(h["ids"], n + i))
                got = sorted((g[0], g[2]) for g in observe_leaves(cur))
                exp = sorted((e[0], e[2]) for e in expected_leaves(h["kept"]))
                bad = None if got == exp else ("filter-ids", exp, got)
            else:
                bad, cur = check_filter(cur, h["ids"], h["kept"], form=n + i)
        else:
            bad = check_sort(cur, h["sorted"], h["sortedPost"])
            presorted = presorted or (h["a"] == "presort" and h["sorted"]["exc"] == "none")
        if bad:
            return i, bad
    return None, None


def replay_behaviour(rep, hist, n, cfg):
    """grow; then on the same objects: filter_by_ids in place (twice), possibly a sorted_tests before or in between;
    finally sorted_tests - comparing after every call."""
    root_abs = nest(hist[0]["before"])
    variant = n % 4
    nt = nontrivial(root_abs)
    i, bad = run_behaviour(hist, variant, n)
    if bad:
        ops = [(x["a"], x.get("ids")) for x in hist[: i + 1]]
        opname = ";".join(x["a"] for x in hist[: i + 1])
        filters = [x for x in hist[:i] if x["a"] == "filter"]
        if bad[0] == "sort-raised" and filters:
            # the tree that was sorted is the filtered one: rebuild it abstractly for minimisation
            kept = {tuple(o["p"]) for o in filters[-1]["kept"]}
            ft = filtered_abs(hist[0]["before"], kept)
            sig, small = signature("sort", bad, ft, variant)
        else:
            sig, small = signature(opname, bad, root_abs, variant)
        rep.violation(
            bad[0], sig,
            {"kind": "behaviour", "cfg": cfg, "hist": hist[: i + 1], "variant": variant, "ops": ops, "n": n},
            expected=bad[1], observed=bad[2],
        )
    rep.traces += 1
    rep.case(
        sample={"tree": shape(root_abs), "ops": [(x["a"], x.get("ids")) for x in hist]} if nt and n % 997 == 5 else None,
        nontrivial_key=jdump(hist) if nt else None,
    )


def filtered_abs(nodes, kept_paths):
    out = []
    for nd in nodes:
        if nd["k"] in ("case", "holder") and tuple(nd["p"]) not in kept_paths:
            out.append({"p": nd["p"], "k": "plain", "id": 0})
        else:
            out.append(nd)
    return nest(out)


def run(tier, pid="C19"):
    use_repo()
    kit()
    rep = Report(
        "C19",
        tier,
        "exploration",
        "inputs = suite trees grown by AddChild in Suites.tla (exhaustive up to the node bound; kinds: TestCase, "
        "PlaceHolder, plain TestSuite, subclass, subclass+sort_tests, subclass+filter_by_ids; empty suites; duplicate "
        "ids) x operation (iterate_tests | filter_by_ids for EVERY subset of the ids plus one absent id | sorted_tests); "
        "the expected value of each (tree, operation) is computed by the spec and compared with the real function on "
        "real suites; plus tlc -simulate behaviours (bigger trees, two in-place filters, then sort) and, for a sample "
        "of trees, testtools.run --list/--load-list in-process and as subprocess. One evaluation = one (tree, operation, "
        "argument). Non-trivial = the tree nests a suite in a suite, contains a non-plain suite or a duplicated id; "
        "distinct by (tree, operation, argument).",
    )
    rep.assume("PlaceHolder ids are chosen equal to TestCase ids (module.Class.method), so both kinds can collide")
    rep.assume("half of the trees use ids with embedded spaces / tabs (TestCases through clone_test_with_new_id), one id "
               "containing another test's id as a fragment; ids have no leading / trailing whitespace and no line breaks; "
               "--load-list files come as LF, CRLF, without final newline, and with blank lines and trailing blanks")
    rep.assume("'placed by their first test': first test before or after the suite's own sort_tests are both accepted")
    rep.assume("a custom suite without any test has no key: any position accepted, an exception is not")
    rep.assume("grouping is observed as the chain of original suite objects around each kept test; the empty suites "
               "filter_by_ids leaves behind are not compared")
    rep.assume("testtools.run is driven through test_suite() callables, not discovery; trees whose root is a bare "
               "PlaceHolder are not loadable by unittest's loader and are left out of the --list/--load-list sample")
    rnd = random.Random(rep.seed)
    tmpdir = tempfile.mkdtemp(prefix="c19-", dir=BUILD if os.path.isdir(BUILD) else None)
    pool = None
    try:
        # The quick tier's TLC runs are independent and largely JVM start-up: started ahead, three at a time,
        # consumed in order.  (The thorough tier's exports are big: one after the other.)
        quick = tier == "quick"
        W = 4 if quick else 8
        sim_kw = dict(simulate=dict(num=800 if quick else 6000, depth=16), seed=rep.seed + 1)
        futures = {}
        if quick:
            pool = ThreadPoolExecutor(max_workers=3)
            for cfg, kw in (("su_cov.cfg", dict(coverage=True)), ("su_coded.cfg", {}), ("su_mc4.cfg", {}),
                            ("su_exp4.cfg", {}), ("su_exps5.cfg", {}), ("su_sim.cfg", sim_kw)):
                futures[cfg] = pool.submit(tlc.run_tlc, "pure", "MCSuites", cfg, workers=W, timeout=3000, **kw)

        def fetch(cfg, **kw):
            f = futures.pop(cfg, None)
            return f.result() if f is not None else tlc.run_tlc("pure", "MCSuites", cfg, workers=W, timeout=3000, **kw)

        # vacuity control (coverage is affordable only on the small instance; see spec/pure/su_cov.cfg)
        r = fetch("su_cov.cfg", coverage=True)
        tlc.require_ok(r, "C19 su_cov.cfg")
        tlc.require_coverage(r, ACTIONS, "C19 su_cov.cfg")
        rep.add_tlc(r, "su_cov.cfg")
        # the spec reproduces the recorded defect when told to behave as coded (non-vacuity of SortNoTypeError)
        r = fetch("su_coded.cfg")
        if r.violated != "SortNoTypeError":
            raise tlc.MachineryError("C19 su_coded.cfg: expected SortNoTypeError to be violated, got %r %r" % (r.violated, r.error))
        rep.add_tlc(r, "su_coded.cfg (asCoded: SortNoTypeError violated as expected)")

        for mc in ("su_mc4.cfg",) if tier == "quick" else ("su_mc5.cfg", "su_mc6.cfg"):
            r = fetch(mc)
            tlc.require_ok(r, "C19 " + mc)
            rep.add_tlc(r, mc)

        nrows = 0
        every = 9 if tier == "quick" else 40
        subs = []
        NIDS[0] = 3
        for exp_cfg in ("su_exp4.cfg", "su_exps5.cfg") if tier == "quick" else ("su_exp5.cfg", "su_exps6.cfg"):
            r = fetch(exp_cfg)
            tlc.require_ok(r, "C19 " + exp_cfg)
            rep.add_tlc(r, exp_cfg)
            got = 0
            for n, row in enumerate(tlc.exported(r)):
                got += 1
                with_prog = bool(row["filt"]) and n % every == 3
                replay_row(rep, row, n, exp_cfg, prog=(tmpdir, rnd) if with_prog else None)
                # candidates for the child-process runs: chosen by content (TLC's export order varies between runs)
                if row["filt"] and len(row["leaves"]) >= 3 and nest(row["nodes"])["k"] != "holder":
                    hk = int(hashlib.sha1(jdump(row["nodes"]).encode()).hexdigest(), 16)
                    if hk % 53 == 7:
                        subs.append((hk, row, n))
            if got != r.distinct:
                raise tlc.MachineryError("C19 %s: %d rows exported for %d distinct states" % (exp_cfg, got, r.distinct))
            nrows += got
        subs = [(row, hk % 4) for hk, row, n in sorted(subs, key=lambda x: x[0])[:3]]
        for row, n in subs:
            for ids in (None, row["filt"][rnd.randrange(len(row["filt"]))]):
                bad = check_subprocess(row, n % 4, tmpdir, ids)
                rep.case(nontrivial_key=jdump(row["nodes"]) + "subprocess" + jdump(ids and ids["ids"]))
                if bad:
                    rep.violation(bad[0], "run:subprocess:" + shape(nest(row["nodes"])),
                                  {"kind": "subprocess", "nodes": row["nodes"], "ids": ids and ids["ids"]}, bad[1], bad[2])
        rep.extra["subprocess_runs"] = 2 * len(subs)

        NIDS[0] = 4
        r = fetch("su_sim.cfg", **sim_kw)
        tlc.require_ok(r, "C19 su_sim.cfg")
        rep.add_tlc(r, "su_sim.cfg")
        nb = 0
        for n, hist in enumerate(tlc.exported(r)):
            nb += 1
            replay_behaviour(rep, hist, n, "su_sim.cfg")
        if nb == 0:
            raise tlc.MachineryError("C19 su_sim.cfg exported no behaviours")
        rep.extra["rows"] = nrows
        rep.extra["behaviours"] = nb
    finally:
        import shutil

        shutil.rmtree(tmpdir, ignore_errors=True)
        sys.modules.pop("verif_c19_sub", None)
        if pool is not None:
            pool.shutdown(wait=True, cancel_futures=True)
    rep.exhaustive = False
    rep.extra["explanation"] = (
        "exhaustive over all trees of the export config (bounds in spec/pure/su_exp*.cfg) and all id subsets; "
        "random for su_sim.cfg; sampled for testtools.run"
    )
    return rep.finish()


def replay_file(path, pid="C19"):
    use_repo()
    kit()
    v = json.load(open(path))
    sc = v["scenario"]
    bad = None
    set_variant(sc.get("variant", 0))
    if sc["kind"] == "row":
        NIDS[0] = 3
        root_abs = nest(sc["nodes"])
        if sc["op"] == "iterate":
            bad = check_iterate(build(root_abs, sc["variant"]), sc["leaves"])
        elif sc["op"] == "filter":
            bad, _ = check_filter(build(root_abs, sc["variant"]), sc["arg"], sc["kept"], sc.get("form", 0))
        elif sc["op"] == "sort":
            bad = check_sort(build(root_abs, sc["variant"]), sc["sorted"], sc["sortedPost"])
        elif sc["op"] == "sort;sort":
            root = build(root_abs, sc["variant"])
            bad = check_sort(root, sc["sorted"], sc["sortedPost"]) or check_sort(root, sc["sorted"], sc["sortedPost"])
        elif sc["op"] == "sort;filter;sort":
            from testtools.testsuite import filter_by_ids

            root = build(root_abs, sc["variant"])
            bad = check_sort(root, sc["sorted"], sc["sortedPost"])
            if not bad:
                root = filter_by_ids(root, idset(sc["arg"]))
                bad = check_sort(root, sc["seq"]["sorted"], sc["seq"]["sortedPost"])
        else:
            print("replay: testtools.run scenarios are replayed by re-running the check")
            return 2
    elif sc["kind"] == "behaviour":
        NIDS[0] = 4
        _, bad = run_behaviour(sc["hist"], sc["variant"], sc["n"])
    if bad:
        print("VIOLATION property=C19 replay=%s" % path)
        print("  clause=%s expected=%r observed=%r" % bad)
        return 1
    print("replay: conforms")
    return 0
