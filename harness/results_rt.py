"""Runtime side of the Results checks (C04, C08, C17): build the real adapter stack a Results.tla template
describes, issue the calls of an exported behaviour, project what the real objects show.

Import only after common.use_repo()."""

import datetime
import io
import sys
import threading

import testtools
from testtools import PlaceHolder, ErrorHolder
from testtools.content import text_content, TracebackContent
from testtools.testresult import doubles, real

UTC = datetime.timezone.utc
NOTAGS = ["~"]
T0 = datetime.datetime(2000, 1, 1, 0, 0, 0, tzinfo=UTC)
TIMES = {"1": T0.replace(second=1), "2": T0.replace(second=2)}
DETAIL_TEXT = "DETAIL-foo-é"
REASON_IN_DETAILS = "REASON-in-details"
REASON_DIRECT = "REASON-direct"
EXC_TEXT = "EXC-TEXT-boom"

try:
    raise ValueError(EXC_TEXT)
except ValueError:
    EXC_INFO = sys.exc_info()

METHOD = {
    "success": "addSuccess",
    "error": "addError",
    "failure": "addFailure",
    "skip": "addSkip",
    "xfail": "addExpectedFailure",
    "uxsuccess": "addUnexpectedSuccess",
}
KIND_OF = {v: k for k, v in METHOD.items()}


# --- tests that get reported -----------------------------------------------------------------------
class RealCase(testtools.TestCase):
    def test_t1(self):
        pass

    def test_t2(self):
        pass

    def test_t3(self):
        pass

    def test_t4(self):
        pass


def make_test(flavour, tid):
    if flavour == "ph":
        return PlaceHolder(tid)
    if flavour == "eh":
        return ErrorHolder(tid, EXC_INFO)
    return RealCase("test_" + tid)


def tid_of(test):
    i = test if isinstance(test, str) else test.id()
    return i.rsplit("test_", 1)[-1] if "test_" in i else i


def time_name(v):
    if v is None:
        return "none"
    for k, dt in TIMES.items():
        if v == dt:
            return k
    return "clock" if isinstance(v, datetime.datetime) else "?%r" % (v,)


def tags_name(t):
    if t is None:
        return NOTAGS
    return sorted(t)


# --- recording leaves ----------------------------------------------------------------------------------
def _safe_tags(obj):
    try:
        return sorted(obj.current_tags)
    except Exception as ex:  # noqa
        return ["!"]


class _Snap:
    """mixin: remember current_tags at each outcome (what the result 'observes' for the test)"""

    def _snap(self):
        self._tagsnaps.append(_safe_tags(self))
        try:
            self._tagobjs.append(self.current_tags)  # the very object a result that asks at the outcome is given
        except Exception:  # noqa
            self._tagobjs.append(None)


def _snap_methods(base, log_calls):
    """Build outcome/bracket overrides that snapshot tags (and, for testtools.TestResult, log the call in the
    tuple format of testresult.doubles) before handing over to the real method."""
    ns = {}

    def mk_add(name):
        def add(self, test, *args, **kw):
            self._snap()
            if log_calls:
                payload = None
                if args and args[0] is not None:
                    payload = args[0]
                elif kw.get("details") is not None:
                    payload = kw["details"]
                else:
                    for k in ("err", "reason"):
                        if kw.get(k) is not None:
                            payload = kw[k]
                self._events.append((name, test) if payload is None else (name, test, payload))
            return getattr(base, name)(self, test, *args, **kw)

        return add

    for name in METHOD.values():
        ns[name] = mk_add(name)
    if log_calls:

        def mk_plain(name, with_test):
            def f(self, *args, **kw):
                self._events.append((name,) + tuple(args))
                return getattr(base, name)(self, *args, **kw)

            return f

        for name in ("startTestRun", "stopTestRun", "startTest", "stopTest", "tags", "time"):
            ns[name] = mk_plain(name, name in ("startTest", "stopTest"))
    return ns


class ExtRec(_Snap, doubles.ExtendedTestResult):
    def __init__(self):
        self._tagsnaps = []
        self._tagobjs = []
        super().__init__()


for _n, _f in _snap_methods(doubles.ExtendedTestResult, False).items():
    setattr(ExtRec, _n, _f)


class TTRec(_Snap, real.TestResult):
    """testtools.TestResult as the innermost target: the class under test plus a call log"""

    def __init__(self, failfast=False):
        self._tagsnaps = []
        self._tagobjs = []
        self._events = []
        super().__init__(failfast=failfast)


for _n, _f in _snap_methods(real.TestResult, True).items():
    setattr(TTRec, _n, _f)


class TextRec(_Snap, real.TextTestResult):
    def __init__(self, failfast=False):
        self._tagsnaps = []
        self._tagobjs = []
        self._events = []
        self.text = io.StringIO()
        super().__init__(self.text, failfast=failfast)


for _n, _f in _snap_methods(real.TextTestResult, True).items():
    setattr(TextRec, _n, _f)


class Node:
    def __init__(self, spec, idx):
        self.k = spec["k"]
        self.ch = [c - 1 for c in spec["ch"]]
        self.new = set(spec["new"])
        self.gone = set(spec["gone"])
        self.imp = spec["imp"]
        self.idx = idx
        self.obj = None
        self.sink = None  # E2S: recording stream double
        self.calls = None  # ByTest: callback records
        self.seen = 0  # log entries already projected
        self.snapseen = 0
        self.dicts = None  # E2S: what a StreamToDict consumer was handed
        self.dictseen = 0
        self.na = False  # wasSuccessful()/testsRun are answered by a stream summary (C10's business)


def build(nodes_spec, preff):
    """-> list of Node (same indices as the template, 0-based) with .obj = the real object"""
    nodes = [Node(s, i) for i, s in enumerate(nodes_spec)]

    def mk(i):
        n = nodes[i]
        k = n.k
        if k == "TT":
            n.obj = TTRec(failfast=preff)
        elif k == "Text":
            n.obj = TextRec(failfast=preff)
        elif k == "ByTest":
            n.calls = []
            n.obj = real.TestByTestResult(lambda **kw: n.calls.append(kw))
            if preff:
                n.obj.failfast = True
        elif k == "Py26":
            n.obj = doubles.Python26TestResult()
        elif k == "Py27":
            n.obj = doubles.Python27TestResult()
            if preff:
                n.obj.failfast = True
        elif k == "Ext":
            n.obj = ExtRec()
        elif k == "Tw":
            n.obj = doubles.TwistedTestResult()
        elif k == "E2S":
            n.sink = doubles.StreamResult()
            n.dicts = []
            consumers = [n.sink, real.StreamToDict(n.dicts.append)]
            if n.ch:
                s2e = nodes[n.ch[0]]
                mk_s2e(s2e)
                consumers.append(s2e.obj)
            target = real.CopyStreamResult(consumers)
            n.obj = real.ExtendedToStreamDecorator(target)
            if preff:
                n.obj.failfast = True
        elif k == "E2O":
            assert not n.imp
            mk(n.ch[0])
            n.obj = real.ExtendedToOriginalDecorator(nodes[n.ch[0]].obj)
        elif k == "Decor":
            mk(n.ch[0])
            n.obj = real.TestResultDecorator(nodes[n.ch[0]].obj)
        elif k == "Tagger":
            mk(n.ch[0])
            n.obj = real.Tagger(nodes[n.ch[0]].obj, set(n.new), set(n.gone))
        elif k == "Multi":
            inner = []
            for c in n.ch:
                e = nodes[c]
                assert e.k == "E2O" and e.imp
                mk(e.ch[0])
                inner.append(nodes[e.ch[0]].obj)
            n.obj = real.MultiTestResult(*inner)
            for c, e2o in zip(n.ch, n.obj._results):
                nodes[c].obj = e2o
        elif k == "TFR":
            e = nodes[n.ch[0]]
            assert e.k == "E2O" and e.imp
            mk(e.ch[0])
            n.obj = real.ThreadsafeForwardingResult(nodes[e.ch[0]].obj, threading.Semaphore(1))
            e.obj = n.obj.result
        else:
            raise AssertionError("unknown node kind %s" % k)

    def mk_s2e(n):
        e = nodes[n.ch[0]]
        assert e.k == "E2O" and e.imp
        mk(e.ch[0])
        n.obj = real.StreamToExtendedDecorator(nodes[e.ch[0]].obj)
        e.obj = n.obj.decorated

    mk(0)
    return nodes


# --- calls -------------------------------------------------------------------------------------------------
def tok(x):
    """the text token that makes the detail texts of one call its own ("none": no token)"""
    return "" if x in (None, "none") else "<%s>" % x


def details_for(form, x=None):
    if form == "det":
        return {"foo": text_content(DETAIL_TEXT + tok(x))}
    if form == "detr":
        return {"reason": text_content(REASON_IN_DETAILS + tok(x)), "foo": text_content(DETAIL_TEXT + tok(x))}
    if form == "det0":
        return {}  # details supplied, just empty
    return None


try:
    raise AssertionError("SUBTEST-failed")
except AssertionError:
    FAIL_INFO = sys.exc_info()

# THE details dict of a reporter that re-uses one mutable dict object for all its outcomes (c["id"] == "reuse")
REUSED = {}


def do_call(top, c, tests):
    """issue reporter call c (dict exported by the spec) on the real top object"""
    op = c["op"]
    if op == "subtest":
        # what unittest.TestCase.subTest() reports when the block ends: addSubTest(test, subtest, err)
        import unittest.case

        t = tests[c["t"]]
        err = {"failure": FAIL_INFO, "error": EXC_INFO, "none": None}[c["kind"]]
        top.addSubTest(t, unittest.case._SubTest(t, "sub", {"i": 1}), err)
        return
    if op == "startTestRun":
        top.startTestRun()
    elif op == "stopTestRun":
        top.stopTestRun()
    elif op == "startTest":
        top.startTest(tests[c["t"]])
    elif op == "stopTest":
        top.stopTest(tests[c["t"]])
    elif op == "tags":
        top.tags(set(c["n"]), set(c["g"]))
    elif op == "time":
        top.time(TIMES.get(c["v"]))  # "none": time(None), back to the system clock
    elif op == "stop":
        top.stop()
    elif op == "done":
        top.done()
    elif op == "progress":
        top.progress(1, 1)
    elif op == "setff":
        top.failfast = bool(c["b"])
    elif op == "add":
        t = tests[c["t"]]
        m = getattr(top, METHOD[c["kind"]])
        form = c["form"]
        if form == "exc":
            m(t, EXC_INFO)
        elif form == "reason":
            m(t, REASON_DIRECT)
        elif form == "reason0":
            m(t, "")  # what unittest.skip("") / skipTest("") report: supplied, but falsy
        elif form == "none":
            m(t)
        elif c.get("id") == "reuse":
            REUSED.clear()
            REUSED.update(details_for(form, c.get("x")))
            m(t, details=REUSED)
        else:
            m(t, details=details_for(form, c.get("x")))
    else:
        raise AssertionError("unknown op %s" % op)


# --- projections -------------------------------------------------------------------------------------------
def text_of(details):
    return {k: "".join(v.iter_text()) if v.content_type.type == "text" else b"".join(v.iter_bytes()) for k, v in details.items()}


def classify_payload(p):
    """-> (class, text used for the contains-checks)"""
    if p is None:
        return "none", ""
    if isinstance(p, dict):
        names = set(p)
        if names == {"traceback"} and isinstance(p["traceback"], TracebackContent):
            return "tb", ""
        try:
            import re as _re

            txt = {k: _re.sub(r"<x\d+>$", "", v) if isinstance(v, str) else v for k, v in text_of(p).items()}
        except Exception as ex:  # noqa
            return "details?", repr(ex)
        if txt == {}:
            return "det0", ""
        if txt == {"reason": ""}:
            return "reasondict0", ""
        if txt == {"foo": DETAIL_TEXT}:
            return "det", ""
        if txt == {"foo": DETAIL_TEXT, "reason": REASON_IN_DETAILS}:
            return "detr", ""
        if txt == {"reason": REASON_DIRECT}:
            return "reasondict", ""
        if txt == {"foo": DETAIL_TEXT, "reason": REASON_DIRECT}:
            return "det+reason", ""
        return "details?%s" % sorted(names), ""
    if isinstance(p, tuple) and len(p) == 3:
        if p[0] is real._StringException:
            return "synexc", str(p[1])
        if p is EXC_INFO or p[1] is EXC_INFO[1]:
            return "exc", ""
        if isinstance(p[1], AssertionError) or (p[0] is not None and issubclass(p[0], AssertionError)):
            return "exc", ""  # the failure E2O manufactures for an unexpected success
        return "exc?%s" % getattr(p[0], "__name__", p[0]), ""
    if isinstance(p, str):
        if p == REASON_DIRECT:
            return "reason", p
        if p == "":
            return "reason0", p  # the empty reason (given as such, or made from an empty details dict)
        return "synreason", p
    return "?%s" % type(p).__name__, ""


def ev(e, t="none", k="none", p="none", tg=None, n=(), g=(), v="none", w="none", text=""):
    return {"e": e, "t": t, "k": k, "p": p, "tg": NOTAGS if tg is None else tg, "n": sorted(n), "g": sorted(g), "v": v, "w": w, "text": text}


def project_double(node):
    """new events of a doubles-style log (list of tuples) -> spec event dicts"""
    obj = node.obj
    out = []
    evs = obj._events
    snaps = getattr(obj, "_tagsnaps", None)
    for tup in evs[node.seen :]:
        name = tup[0]
        if name in ("startTestRun", "stopTestRun"):
            out.append(ev(name))
        elif name == "progress":
            out.append(ev("progress"))
        elif name in ("startTest", "stopTest"):
            out.append(ev(name, t=tid_of(tup[1])))
        elif name == "tags":
            out.append(ev("tags", n=tup[1], g=tup[2]))
        elif name == "time":
            out.append(ev("time", v=time_name(tup[1])))
        elif name in KIND_OF:
            cls, text = classify_payload(tup[2] if len(tup) > 2 else None)
            tg = None
            if snaps is not None:
                tg = snaps[node.snapseen] if node.snapseen < len(snaps) else ["?"]
                node.snapseen += 1
            out.append(ev("add", t=tid_of(tup[1]), k=KIND_OF[name], p=cls, tg=tg, text=text))
        else:
            out.append(ev("?" + str(name)))
    node.seen = len(evs)
    return out


def project_bytest(node):
    out = []
    for kw in node.calls[node.seen :]:
        cls, text = classify_payload(kw["details"])
        if cls in ("det", "detr", "det+reason"):
            cls = "details"
        elif cls == "det0":
            cls = "details0"
        out.append(
            ev(
                "ontest",
                t=tid_of(kw["test"]),
                k=kw["status"] if kw["status"] is not None else "none",
                p=cls,
                tg=sorted(kw["tags"]),
                v=time_name(kw["start_time"]),
                w=time_name(kw["stop_time"]),
            )
        )
    node.seen = len(node.calls)
    return out


def project_stream(node):
    """stream double: one event per status() carrying a test_status; attachments summarised into a payload class"""
    out = []
    evs = node.sink._events
    files = getattr(node, "_files", set())
    for e in evs[node.seen :]:
        if e[0] in ("startTestRun", "stopTestRun"):
            out.append(ev(e[0]))
            continue
        if e.test_status is None:
            if e.file_name is not None:
                files.add(e.file_name)
            continue
        if not files:
            p = "none"
        elif files == {"traceback"}:
            p = "tb"
        elif files == {"reason"}:
            p = "reason"
        elif "foo" in files:
            p = "details"
        else:
            p = "files?%s" % sorted(files)
        files = set()
        out.append(ev("status", t=tid_of(e.test_id), k=e.test_status, p=p, tg=tags_name(e.test_tags), v=time_name(e.timestamp)))
    node._files = files
    node.seen = len(evs)
    return out


def project_new(node):
    if node.k == "ByTest":
        return project_bytest(node)
    if node.k == "E2S":
        return project_stream(node)
    if node.ch:
        return []
    return project_double(node)


def b2s(v):
    return "T" if v is True else "F" if v is False else "?%r" % (v,)


def observe(node):
    """what the spec exports per node: wasSuccessful(), shouldStop, current_tags, testsRun"""
    o = node.obj
    k = node.k
    out = {}
    if k in ("E2S", "S2E") or node.na:
        out["ok"] = "na"
        out["run"] = 99
    else:
        try:
            out["ok"] = b2s(o.wasSuccessful())
        except Exception as ex:
            out["ok"] = "raises:%s" % type(ex).__name__
        try:
            out["run"] = o.testsRun
        except Exception as ex:
            out["run"] = "raises:%s" % type(ex).__name__
    if k in ("Tw", "S2E"):
        out["stop"] = "na"
    else:
        try:
            out["stop"] = b2s(o.shouldStop)
        except Exception as ex:
            out["stop"] = "raises:%s" % type(ex).__name__
    if k in ("TT", "Text", "ByTest"):
        out["cnt"] = [len(o.errors), len(o.failures), len(o.unexpectedSuccesses)]
    else:
        out["cnt"] = []
    if k in ("Py26", "Py27", "Tw", "S2E"):
        out["tags"] = NOTAGS
    else:
        try:
            out["tags"] = sorted(o.current_tags)
        except Exception as ex:
            out["tags"] = "raises:%s" % type(ex).__name__
    return out


def parse_text_summary(text):
    """TextTestResult output of the last run -> dict(ran, plural, verdict, failures, sections)"""
    import re

    last = text.rsplit("Tests running...\n", 1)[-1]
    m = re.search(r"^Ran (\d+) (tests?) in -?[\d.]+s$", last, re.M)
    out = {"ran": None, "word": None, "verdict": None, "failures": None}
    if m:
        out["ran"] = int(m.group(1))
        out["word"] = m.group(2)
        tail = last[m.end() :].strip().split("\n")
        if tail and tail[0] == "OK":
            out["verdict"] = "OK"
        elif tail:
            f = re.match(r"^FAILED \(failures=(\d+)\)$", tail[0])
            if f:
                out["verdict"] = "FAILED"
                out["failures"] = int(f.group(1))
    out["sections"] = [len(re.findall(r"^ERROR: ", last, re.M)), len(re.findall(r"^FAIL: ", last, re.M)),
                       len(re.findall(r"^UNEXPECTED SUCCESS: ", last, re.M))]
    return out


def expected_text_summary(run, cnt, ok):
    bad = sum(cnt)
    return {"ran": run, "word": "test" if run == 1 else "tests", "verdict": "OK" if ok == "T" else "FAILED",
            "failures": None if ok == "T" else bad, "sections": list(cnt)}


# --- objects that were handed out, kept next to their receive-time value (C17: what was observed for a test stays) ---
class Retained:
    def __init__(self):
        self.items = []  # (source, node index, object, snapshot)

    def keep(self, source, idx, obj):
        if obj is None:
            return
        try:
            snap = sorted(obj)
        except Exception:  # noqa
            return
        self.items.append((source, idx, obj, snap))

    def changed(self):
        """-> [(source, node index, snapshot, value now)] for every kept object that no longer equals its snapshot"""
        out = []
        for source, idx, obj, snap in self.items:
            try:
                now = sorted(obj)
            except Exception as ex:  # noqa
                now = "raises:%s" % type(ex).__name__
            if now != snap:
                out.append((source, idx, snap, now))
        return out


def retain_new(ret, node, stage):
    """keep what node handed out / was handed during the call just made.  stage 'log': consumer-side objects (called before
    project_new); stage 'attr': the value current_tags returns now."""
    i = node.idx
    if stage == "attr":
        if node.k not in ("Py26", "Py27", "Tw", "S2E"):
            try:
                ret.keep("current_tags", i, node.obj.current_tags)
            except Exception:  # noqa
                pass
        return
    if node.k == "ByTest":
        for kw in node.calls[node.seen :]:
            ret.keep("on_test-tags", i, kw["tags"])
    elif node.k == "E2S":
        for e in node.sink._events[node.seen :]:
            if e[0] == "status" and e.test_status not in (None, "inprogress"):
                ret.keep("stream-test_tags", i, e.test_tags)
        for d in node.dicts[node.dictseen :]:
            ret.keep("StreamToDict-tags", i, d["tags"])
        node.dictseen = len(node.dicts)
    elif not node.ch and hasattr(node.obj, "_tagobjs"):
        objs = node.obj._tagobjs
        for o in objs[getattr(node, "objseen", 0) :]:
            ret.keep("current_tags-at-outcome", i, o)
        node.objseen = len(objs)
