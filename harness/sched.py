"""Deterministic scheduler for REAL Python threads (used by C12 and C13).

Exactly one controlled thread runs at a time.  Every controlled thread owns a private stdlib lock (its
`gate`, obtained from `_thread.allocate_lock`, saved before anything is patched); the controller - the
thread that called `Scheduler.run()` - picks an enabled thread, opens its gate and waits on its own private
lock until that thread reaches its next *yield point* (or finishes).  A yield point is announced BEFORE an
operation:  "I am about to do <op>";  when the thread is scheduled again it performs <op> and runs on to
the next announcement.  One scheduler step therefore is one atomic action  `(thread, op)`  - the unit the
TLA+ specifications use.  A thread whose pending op would block (acquire of a taken semaphore, get on an
empty queue, join of a live thread) is *not enabled* and is never chosen.

Controlled primitives: `Semaphore`, `Queue`, `Thread` (drop-in for the stdlib ones; `patched()` installs
them).  Choosers: `Follow(schedule)`, `Explorer` (depth-first, stateless, preemption-bounded enumeration of
the IMPLEMENTATION's enabled threads), `RandomWalk(seed)`.

Deadlock (no enabled thread, some unfinished) raises `Deadlock`; the caller decides what it means.
A hand-off that does not come back within the watchdog time raises `tlc.MachineryError` - never a verdict.
Everything is deterministic given the chooser (schedule / exploration state / seed).
"""

import _thread
import contextlib
import random
import threading as _threading
import queue as _queue_mod

from .tlc import MachineryError

_allocate_lock = _thread.allocate_lock
_get_ident = _thread.get_ident
_RealThread = _threading.Thread
_RealSemaphore = _threading.Semaphore
_RealQueue = _queue_mod.Queue
_Empty = _queue_mod.Empty

WATCHDOG_S = 30.0


class SchedAbort(BaseException):
    """Raised inside controlled threads when an execution is abandoned (deadlock / machinery failure)."""


class Deadlock(Exception):
    def __init__(self, steps, waiting):
        Exception.__init__(self, "deadlock: no enabled thread; waiting: %r" % (waiting,))
        self.steps = steps
        self.waiting = waiting


class NotEnabled(Exception):
    """Follow(): the schedule names a thread that cannot take a step now."""

    def __init__(self, index, thr, enabled, why):
        Exception.__init__(self, "schedule[%d]=%r not enabled (%s); enabled=%r" % (index, thr, why, enabled))
        self.index = index
        self.thr = thr
        self.enabled = enabled
        self.why = why


class CThread:
    """Book-keeping for one controlled thread."""

    __slots__ = ("id", "fn", "gate", "state", "pending", "enabled_fn", "exc", "real", "result", "steps")

    def __init__(self, tid, fn):
        self.id = tid
        self.fn = fn
        self.gate = _allocate_lock()
        self.gate.acquire()
        self.state = "ready"  # ready | done
        self.pending = {"op": "begin"}
        self.enabled_fn = None
        self.exc = None
        self.result = None
        self.real = None
        self.steps = 0

    def enabled(self):
        if self.state != "ready":
            return False
        return True if self.enabled_fn is None else bool(self.enabled_fn())


# ---------------------------------------------------------------------------------------------
# choosers


class Follow:
    """Follow a given schedule (list of thread ids).  `then`: what to do when the schedule is exhausted:
    'stop' (return None => the scheduler stops stepping) or 'first' (non-preemptive default)."""

    def __init__(self, schedule, then="first"):
        self.schedule = list(schedule)
        self.then = then

    def choose(self, k, enabled, current, all_ids):
        if k < len(self.schedule):
            t = self.schedule[k]
            if t not in enabled:
                raise NotEnabled(k, t, list(enabled), "unknown/finished" if t not in all_ids else "blocked")
            return t
        if self.then == "stop":
            return None
        return current if current in enabled else enabled[0]


class RandomWalk:
    def __init__(self, seed, stay=0.0):
        self.rng = random.Random(seed)
        self.stay = stay  # probability of not preempting when the current thread can continue

    def choose(self, k, enabled, current, all_ids):
        if self.stay and current in enabled and self.rng.random() < self.stay:
            return current
        return enabled[self.rng.randrange(len(enabled))]


class Explorer:
    """Stateless depth-first enumeration with a preemption bound.

    Use:  ex = Explorer(bound);  while ex.more(): run one execution with chooser=ex;  ex.done_one()
    At every step the options are: the current thread first (if it can continue), then the other enabled
    threads by id.  Choosing another thread while the current one could continue costs one preemption.
    Re-execution must reproduce the same enabled sets (checked: MachineryError otherwise)."""

    def __init__(self, bound, max_executions=None):
        self.bound = bound
        self.stack = []  # entries: [options(list), idx, preemptions_before, preemptable(bool)]
        self.k = 0
        self.first = True
        self.finished = False
        self.executions = 0
        self.max_executions = max_executions
        self.truncated = False

    def more(self):
        if self.finished:
            return False
        if self.max_executions is not None and self.executions >= self.max_executions:
            self.truncated = True
            return False
        self.k = 0
        return True

    def choose(self, k, enabled, current, all_ids):
        assert k == self.k
        self.k += 1
        if current in enabled:
            options = [current] + [t for t in enabled if t != current]
            preemptable = True
        else:
            options = list(enabled)
            preemptable = False
        if k < len(self.stack):
            e = self.stack[k]
            if e[0] != options:
                raise MachineryError(
                    "scheduler: re-execution diverged at step %d: options %r, previously %r" % (k, options, e[0])
                )
            return e[0][e[1]]
        used = 0
        if self.stack:
            p = self.stack[-1]
            used = p[2] + (1 if (p[3] and p[1] > 0) else 0)
        self.stack.append([options, 0, used, preemptable])
        return options[0]

    def preemptions(self):
        if not self.stack:
            return 0
        p = self.stack[-1]
        return p[2] + (1 if (p[3] and p[1] > 0) else 0)

    def schedule(self):
        return [e[0][e[1]] for e in self.stack]

    def done_one(self):
        """Backtrack: advance the deepest step that still has an admissible untried option."""
        self.executions += 1
        del self.stack[self.k :]  # (execution may have ended early)
        while self.stack:
            e = self.stack[-1]
            nxt = e[1] + 1
            if nxt < len(e[0]):
                cost = 1 if e[3] else 0
                if e[2] + cost <= self.bound:
                    e[1] = nxt
                    return
            self.stack.pop()
        self.finished = True


# ---------------------------------------------------------------------------------------------


class Scheduler:
    def __init__(self, chooser, watchdog=WATCHDOG_S, on_step=None, max_steps=100000):
        self.chooser = chooser
        self.watchdog = watchdog
        self.on_step = on_step
        self.max_steps = max_steps
        self.threads = []  # CThread, in creation order
        self.by_ident = {}
        self.by_id = {}
        self.back = _allocate_lock()
        self.back.acquire()
        self.aborted = False
        self.current = None  # CThread running now (or last run)
        self.steps = []  # one dict per step: thr, op, ... (+ whatever note() added)
        self._step = None
        self.on_thread = None  # callback(Thread object) when a controlled Thread is constructed
        self.thread_failures = []

    # -- registration -------------------------------------------------------------------------
    def spawn(self, fn, tid=None):
        """Register a controlled thread running fn(); it takes its first step when first chosen."""
        if tid is None:
            tid = len(self.threads)
        if tid in self.by_id:
            raise MachineryError("scheduler: duplicate thread id %r" % (tid,))
        ct = CThread(tid, fn)
        self.threads.append(ct)
        self.by_id[tid] = ct
        ct.real = _RealThread(target=self._body, args=(ct,), daemon=True, name="sched-%s" % (tid,))
        ct.real.start()
        return ct

    def _body(self, ct):
        ct.gate.acquire()
        self.by_ident[_get_ident()] = ct
        try:
            if self.aborted:
                raise SchedAbort()
            ct.result = ct.fn()
        except SchedAbort:
            pass
        except BaseException as ex:  # noqa - recorded for the harness, never printed
            ct.exc = ex
        finally:
            ct.state = "done"
            ct.pending = {"op": "done"}
            ct.enabled_fn = None
            self.by_ident.pop(_get_ident(), None)
            if not self.aborted:  # (after abort() nobody waits on `back`; several threads unwind at once)
                self.back.release()

    # -- called from controlled threads ---------------------------------------------------------
    def me(self):
        return self.by_ident.get(_get_ident())

    def yield_point(self, op, enabled=None, **info):
        """Announce the next operation of the calling controlled thread and wait to be scheduled."""
        ct = self.by_ident.get(_get_ident())
        if ct is None:
            # not a controlled thread (the driver itself): operations complete immediately or are an error
            if enabled is not None and not enabled():
                raise MachineryError("scheduler: %s would block outside a controlled thread" % (op,))
            return None
        if self.aborted:
            raise SchedAbort()
        pending = {"op": op}
        pending.update(info)
        ct.pending = pending
        ct.enabled_fn = enabled
        self.back.release()
        ct.gate.acquire()
        if self.aborted:
            raise SchedAbort()
        ct.enabled_fn = None
        return ct

    def note(self, **kw):
        """Add fields to the record of the step being executed."""
        if self._step is not None:
            self._step.update(kw)

    # -- the controller -------------------------------------------------------------------------
    def enabled_ids(self):
        return [t.id for t in self.threads if t.enabled()]

    def unfinished(self):
        return [t.id for t in self.threads if t.state != "done"]

    def step(self, tid):
        """Run thread `tid` for one step (its pending op up to its next yield point)."""
        ct = self.by_id[tid]
        self.current = ct
        rec = {"thr": ct.id}
        rec.update(ct.pending)
        self._step = rec
        ct.steps += 1
        ct.gate.release()
        if not self.back.acquire(timeout=self.watchdog):
            self.abort()
            raise MachineryError(
                "scheduler watchdog: thread %r did not reach a yield point within %ss after %r (steps so far: %d)"
                % (tid, self.watchdog, rec, len(self.steps))
            )
        self._step = None
        self.steps.append(rec)
        if self.on_step is not None:
            self.on_step(rec)
        return rec

    def run(self):
        """Step until every thread has finished.  Returns the list of step records."""
        k = 0
        cur = None
        try:
            while True:
                en = self.enabled_ids()
                if not en:
                    un = self.unfinished()
                    if not un:
                        return self.steps
                    waiting = {t.id: dict(t.pending) for t in self.threads if t.state != "done"}
                    raise Deadlock(self.steps, waiting)
                if k >= self.max_steps:
                    raise MachineryError("scheduler: more than %d steps" % self.max_steps)
                tid = self.chooser.choose(k, en, cur, [t.id for t in self.threads])
                if tid is None:
                    return self.steps
                self.step(tid)
                cur = tid
                k += 1
        except BaseException:
            self.abort()
            raise

    def abort(self):
        """Abandon the execution: every waiting controlled thread unwinds with SchedAbort."""
        self.aborted = True
        for t in self.threads:
            if t.state != "done":
                try:
                    t.gate.release()
                except RuntimeError:
                    pass
        for t in self.threads:
            if t.real is not None:
                t.real.join(2.0)

    def close(self):
        """End of an execution that stopped early (Follow(then='stop')): unwind what is left."""
        if self.unfinished():
            self.abort()

    def alive(self):
        return [t.id for t in self.threads if t.state != "done"]

    # -- controlled primitives --------------------------------------------------------------------
    def Semaphore(self, value=1):
        return Semaphore(self, value)

    def Queue(self, maxsize=0):
        return Queue(self, maxsize)


class Semaphore:
    """threading.Semaphore look-alike; acquire and release are yield points."""

    def __init__(self, sched, value=1):
        self._s = sched
        self.value = value
        self.holders = []  # ids of the threads that acquired and have not released (in order)
        self.name = "sem"

    def holder(self):
        return self.holders[-1] if self.holders else None

    def acquire(self, blocking=True, timeout=None):
        s = self._s
        if not blocking:
            ct = s.yield_point("try_acquire", sem=self.name)
            if self.value <= 0:
                s.note(got=False)
                return False
            s.note(got=True)
        else:
            ct = s.yield_point("acquire", enabled=lambda: self.value > 0, sem=self.name)
        self.value -= 1
        self.holders.append(ct.id if ct is not None else "driver")
        return True

    __enter__ = acquire

    def release(self, n=1):
        ct = self._s.yield_point("release", sem=self.name)
        who = ct.id if ct is not None else "driver"
        # a semaphore has no owner: a release by a thread that took no permit just adds one (the counter may then
        # exceed its initial value - an observation for the property, not an error of the scheduler); the threads
        # that did take a permit are still inside
        self.value += n
        if who in self.holders:
            self.holders.remove(who)

    def __exit__(self, *a):
        self.release()


class Queue:
    """queue.Queue look-alike; put and get are yield points, get on an empty queue is not enabled.
    `interrupt_at`: set of 0-based indices of get() calls (per queue) that raise `interrupt_exc`
    instead of returning (the call is then enabled even when the queue is empty)."""

    def __init__(self, sched, maxsize=0):
        self._s = sched
        self.items = []
        self.gets = 0
        self.puts = 0
        self.interrupt_at = set(getattr(sched, "queue_interrupt_at", ()))
        self.interrupt_exc = KeyboardInterrupt
        self.name = "q"
        reg = getattr(sched, "queues", None)
        if reg is not None:
            reg.append(self)

    def put(self, item, block=True, timeout=None):
        self._s.yield_point("put", q=self.name)
        self.items.append(item)
        self.puts += 1
        self._s.note(item=item, snap=dict(item) if type(item) is dict else item)

    put_nowait = put

    def get(self, block=True, timeout=None):
        n = self.gets
        self.gets += 1
        intr = n in self.interrupt_at
        if block:
            self._s.yield_point("get", enabled=(None if intr else (lambda: bool(self.items))), q=self.name)
        else:
            self._s.yield_point("get_nowait", q=self.name)
            if not self.items and not intr:
                raise _Empty()
        if intr:
            self._s.note(interrupt=True)
            raise self.interrupt_exc()
        item = self.items.pop(0)
        self._s.note(item=item, snap=dict(item) if type(item) is dict else item)
        return item

    def get_nowait(self):
        return self.get(block=False)

    def empty(self):
        return not self.items

    def qsize(self):
        return len(self.items)

    def full(self):
        return False

    def task_done(self):
        pass

    def join(self):
        pass


class Thread:
    """threading.Thread look-alike bound to the scheduler installed by `patched()` (or given explicitly).
    start() and join() are yield points; join of a live thread is not enabled."""

    _sched = None  # set on the subclass made by patched()

    def __init__(self, group=None, target=None, name=None, args=(), kwargs=None, *, daemon=None):
        self._target = target
        self._args = tuple(args)
        self._kwargs = dict(kwargs or {})
        self.name = name or "cthread"
        self.daemon = True if daemon is None else daemon
        self._ct = None
        self.ident = None
        s = self._sched
        if s is None:
            raise MachineryError("controlled Thread constructed without a scheduler")
        self.index = len(s.created) if hasattr(s, "created") else 0
        if hasattr(s, "created"):
            s.created.append(self)
        if s.on_thread is not None:
            s.on_thread(self)

    def run(self):
        if self._target is not None:
            self._target(*self._args, **self._kwargs)

    def _bootstrap(self):
        # the end of the thread is a step of its own: between the last operation of run() and the moment the
        # thread is no longer alive another thread may run (this is what join() is for)
        try:
            self.run()
        finally:
            self._sched.yield_point("exit")

    def start(self):
        s = self._sched
        if self._ct is not None:
            raise RuntimeError("threads can only be started once")
        tid = getattr(self, "tid", None)
        if tid is None:
            tid = "w%d" % self.index
        s.yield_point("start", target=tid)
        self._ct = s.spawn(self._bootstrap, tid)
        self.ident = self._ct.real.ident

    def join(self, timeout=None):
        if self._ct is None:
            raise RuntimeError("cannot join thread before it is started")
        ct = self._ct
        self._sched.yield_point("join", enabled=lambda: ct.state == "done", target=ct.id)

    def is_alive(self):
        return self._ct is not None and self._ct.state != "done"

    def isDaemon(self):
        return self.daemon

    def setDaemon(self, d):
        self.daemon = d


@contextlib.contextmanager
def patched(sched, modules=()):
    """Install the scheduler's Thread / Semaphore / Queue in `threading`, `queue` and in every module of
    `modules` that bound those names directly (from-imports); restore afterwards."""
    sched.created = []
    sched.queues = []
    sched.semaphores = []
    ThreadK = type("Thread", (Thread,), {"_sched": sched})

    def SemK(value=1):
        sem = Semaphore(sched, value)
        sched.semaphores.append(sem)
        return sem

    def QueueK(maxsize=0):
        return Queue(sched, maxsize)

    repl = {
        _RealThread: ThreadK,
        _RealSemaphore: SemK,
        _threading.BoundedSemaphore: SemK,
        _RealQueue: QueueK,
        _queue_mod.SimpleQueue: QueueK,
    }
    saved = []

    def swap(mod, name):
        cur = getattr(mod, name, None)
        try:
            new = repl.get(cur)
        except TypeError:
            new = None
        if new is not None:
            saved.append((mod, name, cur))
            setattr(mod, name, new)

    for name in ("Thread", "Semaphore", "BoundedSemaphore"):
        swap(_threading, name)
    for name in ("Queue", "SimpleQueue"):
        swap(_queue_mod, name)
    for m in modules:
        for name in list(vars(m)):
            if name.startswith("__"):
                continue
            swap(m, name)
    try:
        yield sched
    finally:
        for mod, name, cur in reversed(saved):
            setattr(mod, name, cur)
