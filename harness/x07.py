"""X07 - try_import: the named object, or the alternative (+ one callback) when it cannot be imported; nothing but
ImportError is swallowed.

Spec: spec/extra/TryImport.tla.  TLC checks the code's loop (import ever shorter prefixes over a model of Python's
import system, then sys.modules[prefix] + getattr walk: mechanism) against the denotation of the dotted name on the
static package tree (meaning): Denotation, CallbackRule, NoSwallowing, LoopRule, TreeSane - for every sequence of
calls within the bound (the set of loaded modules carries over from call to call) and exports every behaviour.  The
harness builds exactly that package tree in a scratch directory (modules that exist, are missing, raise ImportError
inside - directly or through a missing dependency -, raise ValueError inside, packages whose __init__ fails,
attributes present / missing / None / nested, an import loop) and replays every behaviour against the real
try_import: after EVERY call it compares the returned object (identity), whether and which exception propagated, how
often the callback was called and with which ImportError.

try_imports is not part of this tree any more (NEWS: removed from testtools.helpers), so only try_import is checked.
"""

import os
import shutil
import sys
import tempfile
import types

from . import tlc
from .common import BUILD, Report, use_repo, jdump

PROPS = ("X07",)

TOP = {"P": "x07pkg", "N": "x07nopkg"}

FILES = {
    "x07pkg/__init__.py": "import x07_probe\nx07_probe.LOG.append(__name__)\npresent = x07_probe.Sentinel('present')\nnone_attr = None\n",
    "x07pkg/good.py": "import x07_probe\nx07_probe.LOG.append(__name__)\nattr = x07_probe.Sentinel('good.attr')\n"
    "class deep:\n    leaf = x07_probe.Sentinel('good.deep.leaf')\n",
    "x07pkg/sub/__init__.py": "import x07_probe\nx07_probe.LOG.append(__name__)\n",
    "x07pkg/sub/leaf.py": "import x07_probe\nx07_probe.LOG.append(__name__)\nattr = x07_probe.Sentinel('sub.leaf.attr')\n",
    "x07pkg/bad_ie.py": "import x07_probe\nx07_probe.LOG.append(__name__)\nraise ImportError('inside ' + __name__)\n",
    "x07pkg/bad_dep.py": "import x07_probe\nx07_probe.LOG.append(__name__)\nimport x07_missing_dependency\n",
    "x07pkg/bad_other.py": "import x07_probe\nx07_probe.LOG.append(__name__)\nraise ValueError('inside ' + __name__)\n",
    "x07pkg/badpkg/__init__.py": "import x07_probe\nx07_probe.LOG.append(__name__)\nraise ImportError('inside ' + __name__)\n",
    "x07pkg/badpkg/child.py": "import x07_probe\nx07_probe.LOG.append(__name__)\n",
    "x07pkg/otherpkg/__init__.py": "import x07_probe\nx07_probe.LOG.append(__name__)\nraise ValueError('inside ' + __name__)\n",
    "x07pkg/otherpkg/child.py": "import x07_probe\nx07_probe.LOG.append(__name__)\n",
    "x07pkg/loop.py": "import x07_probe\nx07_probe.LOG.append(__name__)\nimport x07pkg.loop_helper\n",
    "x07pkg/loop_helper.py": "import sys\nimport x07_probe\nfrom testtools.helpers import try_import\n"
    "SEEN = try_import('x07pkg.loop', x07_probe.ALT)\nIN_SYS = sys.modules.get('x07pkg.loop')\n",
}


class Sentinel:
    def __init__(self, name):
        self.name = name

    def __repr__(self):
        return "<%s>" % self.name


class World:
    def __init__(self):
        os.makedirs(BUILD, exist_ok=True)
        self.dir = tempfile.mkdtemp(prefix="x07-", dir=BUILD)
        for rel, src in FILES.items():
            p = os.path.join(self.dir, rel)
            os.makedirs(os.path.dirname(p), exist_ok=True)
            with open(p, "w") as fh:
                fh.write(src)
        self.probe = types.ModuleType("x07_probe")
        self.probe.LOG = []
        self.probe.Sentinel = Sentinel
        self.probe.ALT = Sentinel("ALT")
        sys.modules["x07_probe"] = self.probe
        sys.path.insert(0, self.dir)
        import importlib

        importlib.invalidate_caches()

    def reset(self):
        for k in list(sys.modules):
            if k.split(".")[0] in ("x07pkg", "x07nopkg"):
                del sys.modules[k]
        del self.probe.LOG[:]

    def close(self):
        self.reset()
        sys.modules.pop("x07_probe", None)
        if self.dir in sys.path:
            sys.path.remove(self.dir)
        shutil.rmtree(self.dir, ignore_errors=True)

    def loaded(self):
        return sorted(k for k in sys.modules if k.split(".")[0] == "x07pkg" and k != "x07pkg.loop_helper")


def dotted(path):
    return ".".join([TOP[path[0]]] + list(path[1:]))


def expected_object(val):
    """The object the dotted name stands for, found independently of try_import: longest prefix in sys.modules, then
    plain getattr."""
    if val == ["None"]:
        return None
    for j in range(len(val), 0, -1):
        mod = sys.modules.get(dotted(val[:j]))
        if mod is not None:
            obj = mod
            for seg in val[j:]:
                obj = getattr(obj, seg)
            return obj
    raise tlc.MachineryError("X07: no module of %r is loaded" % (val,))


def error_matches(e, exp):
    if not isinstance(e, ImportError):
        return False
    d = dotted(exp["about"])
    if exp["why"] == "missing":
        return getattr(e, "name", None) == d
    if d == "x07pkg.bad_dep":
        return getattr(e, "name", None) == "x07_missing_dependency"
    return str(e) == "inside " + d


def describe_error(e):
    return "%s(%s) name=%r" % (type(e).__name__, e, getattr(e, "name", None))


def replay(world, hist, rep=None):
    """Return None or (step index, clause, expected, observed)."""
    from testtools.helpers import try_import

    world.reset()
    ALT = world.probe.ALT
    for i, h in enumerate(hist):
        name = dotted(h["name"])
        cbs = []
        kw = {}
        if h["alt"] == "given":
            kw["alternative"] = ALT
        if h["cb"] == "cb":
            kw["error_callback"] = cbs.append
        del world.probe.LOG[:]
        raised = None
        got = None
        try:
            got = try_import(name, **kw)
        except BaseException as ex:  # noqa: B902 - what propagates is the observation
            raised = ex
        res = h["res"]
        if res == "raises":
            want = "ValueError: inside " + dotted(h["val"])
            if raised is None:
                return (i, "non-import-error-swallowed", want, "returned %r" % (got,))
            if type(raised) is not ValueError or str(raised) != "inside " + dotted(h["val"]):
                return (i, "non-import-error-replaced", want, "%s: %s" % (type(raised).__name__, raised))
        else:
            if raised is not None:
                return (i, "raised", res, "%s: %s" % (type(raised).__name__, raised))
            if res == "value":
                want = expected_object(h["val"])
                if got is not want:
                    clause = "returns-the-object"
                    if got is ALT or (got is None and want is not None):
                        clause = "importable-but-alternative-returned"
                    return (i, clause, repr(want), repr(got))
            else:
                want = ALT if h["alt"] == "given" else None
                if got is not want:
                    return (i, "returns-the-alternative", repr(want), repr(got))
        if len(cbs) != len(h["cbs"]):
            return (i, "callback-count", len(h["cbs"]), [describe_error(e) for e in cbs])
        for e, exp in zip(cbs, h["cbs"]):
            if not error_matches(e, exp):
                return (i, "callback-argument", "%s %s" % (exp["why"], dotted(exp["about"])), describe_error(e))
        for inner in h["inners"]:
            helper = sys.modules.get("x07pkg.loop_helper")
            if helper is None:
                raise tlc.MachineryError("X07: loop helper was not imported")
            if helper.SEEN is not helper.IN_SYS or helper.IN_SYS is None:
                return (i, "import-loop", "the module being imported", repr(helper.SEEN))
        # the model of Python's import system itself (not a property of testtools): report drift only
        if rep is not None:
            exp_loaded = sorted(dotted(p) for p in h["loaded"])
            if world.loaded() != exp_loaded:
                rep.note_drift("X07 import model: loaded %r, model says %r after %s" % (world.loaded(), exp_loaded, name))
            if [x for x in world.probe.LOG] != [dotted(p) for p in h["ex"]]:
                rep.note_drift("X07 import model: executed %r, model says %r for %s" % (world.probe.LOG, [dotted(p) for p in h["ex"]], name))
    return None


def shape(hist):
    return ["try_import(%s%s%s) -> %s" % (dotted(h["name"]), ", ALT" if h["alt"] == "given" else "", ", cb" if h["cb"] == "cb" else "", h["res"]) for h in hist]


def name_class(h):
    if h["res"] == "value":
        return "value"
    if h["res"] == "raises":
        return "raises"
    if not h["cbs"]:
        return "unavailable"
    return "unavailable-" + h["cbs"][-1]["why"]


def signature(hist, clause, observed):
    h = hist[-1]
    cls = h["res"]
    if cls == "alt":
        cls = "unavailable"
    depth = "attr" if h["res"] == "value" and len(h["val"]) > 0 and h["val"] != ["None"] and not _is_module(h["val"]) else ""
    extra = ""
    if clause == "raised":
        extra = ":" + str(observed).split(":", 1)[0]
    return "x07:%s:%s%s%s" % (clause, cls, depth, extra)


_MODULES = {("P",), ("P", "good"), ("P", "sub"), ("P", "sub", "leaf"), ("P", "loop")}


def _is_module(val):
    return tuple(val) in _MODULES


def nontrivial_key(hist):
    """Non-trivial: an attribute (chain) behind a module, a failing import (missing, ImportError or another exception
    inside), an import loop, or a second call that finds parents already loaded."""
    hit = len(hist) > 1
    for h in hist:
        if h["res"] != "value" or not _is_module(h["val"]) or h["inners"]:
            hit = True
    return jdump(shape(hist)) if hit else None


def run(tier, pid="X07"):
    use_repo()
    rep = Report(
        "X07",
        tier,
        "model_checking",
        "behaviours = sequences of try_import(name[, alternative][, error_callback]) over 26 dotted names of a synthetic "
        "package tree (modules / sub-packages that exist, are missing, raise ImportError inside, lack a dependency, raise "
        "ValueError inside; attributes present, missing, None, nested; an import loop; a missing top-level package), the "
        "set of loaded modules carrying over between calls; every single call with every argument combination, every sequence of 2 calls with an alternative "
        "(TLC, exhaustive) and random sequences of 6 (tlc -simulate) replayed against the real try_import on the real tree on disk. Non-trivial = "
        "anything but a plain importable module as the only call; distinct by call sequence.",
    )
    rep.assume("try_imports does not exist in this tree (NEWS: removed); only try_import is checked")
    rep.assume("'the ImportError' handed to the callback = the error of the shortest prefix of the name that is not an importable module (for a module that raises ImportError inside: that very error), identified by ModuleNotFoundError.name / the message")
    rep.assume("the model of Python's import system (parents first, bodies run once, failed modules not kept) is validated against sys.modules and an execution log at every call; a mismatch there is reported as DRIFT, not as a violation")
    world = World()
    try:
        jobs = [("ti_mc.cfg", {}, False), ("ti_exp1.cfg", {}, True), ("ti_exp.cfg", {}, True)]
        nsim = 100 if tier == "quick" else 3000
        jobs.append(("ti_sim.cfg", dict(simulate=dict(num=nsim, depth=8), seed=rep.seed + 1), True))
        for cfg, kw, export in jobs:
            r = tlc.run_tlc("extra", "MCTryImport", cfg, coverage=True, timeout=600, workers=4, **kw)
            tlc.require_ok(r, "X07 " + cfg)
            if "simulate" not in kw:
                tlc.require_coverage(r, ["Try"], "X07 " + cfg)
            rep.add_tlc(r, cfg)
            if not export:
                continue
            nb = 0
            for hist in tlc.exported(r):
                nb += 1
                nk = nontrivial_key(hist)
                bad = replay(world, hist, rep)
                rep.case(sample={"calls": shape(hist)} if nk and rep.evaluations % 3100 == 29 else None, nontrivial_key=nk)
                rep.traces += 1
                if bad:
                    i, clause, exp, obs = bad
                    cut = hist[: i + 1]
                    rep.violation(clause, signature(cut, clause, obs), {"behaviour": cut, "cfg": cfg}, expected=exp, observed=obs)
            if nb == 0:
                raise tlc.MachineryError("X07 %s exported no behaviours" % cfg)
    finally:
        world.close()
    if rep.drift and not rep.violations:
        raise tlc.MachineryError("X07: the model of Python's import system disagrees with the interpreter: %s" % rep.drift[0])
    if not rep.samples:
        rep.sample({"note": "see tlc_runs"})
    rep.exhaustive = False
    rep.extra["explanation"] = "exhaustive for ti_mc/ti_exp (bounds in spec/extra/ti_*.cfg); random for ti_sim.cfg"
    return rep.finish()


def replay_file(path, pid="X07"):
    import json

    use_repo()
    v = json.load(open(path))
    world = World()
    try:
        bad = replay(world, v["scenario"]["behaviour"])
    finally:
        world.close()
    if bad:
        print("VIOLATION property=X07 replay=%s" % path)
        print("  step=%s clause=%s expected=%r observed=%r" % bad)
        return 1
    print("replay: behaviour conforms")
    return 0
