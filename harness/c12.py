"""C12 - ThreadsafeForwardingResult: per-test atomicity under every interleaving.

Spec: spec/conc/Threadsafe.tla (one action per critical section; meaning of C12 written over the target's
log).  TLC model-checks it (HolderOnly, Contiguous, BlockShape, OnceInOrder, Released, FaultsSurface, deadlock
freedom, termination under weak fairness).  Binding, both directions:

  B2 (safety)   real ThreadsafeForwardingResult objects run in real threads under harness/sched.py with the
                scheduler's semaphore and a recording target that can raise at the k-th call of a thread;
                yield points = acquire, every call on the target, release (+ one per reported item).
                The scheduler enumerates the IMPLEMENTATION's enabled threads (depth-first, preemption bound)
                and then walks randomly; every execution becomes a trace that TLC validates against
                ThreadsafeTrace.tla with all the invariants.
  B1 (progress) schedules exported by TLC are replayed: the named thread must be enabled, and after its step
                semaphore holder, target call, blocked set must equal the exported ones.
"""

import datetime
import json
import random

from . import sched as S
from . import tlc
from .common import Report, use_repo, jdump, sig_hash
from .tracecheck import Validator

PROPS = ("C12",)

UTC = datetime.timezone.utc
T0 = datetime.datetime(2001, 1, 1, tzinfo=UTC)
OUTCOMES = ("addSuccess", "addError", "addFailure", "addSkip", "addExpectedFailure", "addUnexpectedSuccess")
RUNLEVEL = ("startTestRun", "stopTestRun", "stop", "done", "shouldStop")
NOTAGS = {"n": [], "g": []}
ACT = {"begin": "local", "item": "local", "acquire": "acquire", "try_acquire": "try_acquire", "call": "call",
       "release": "release"}
INVARIANTS = ("ShouldStopReads", "HolderOnly", "Contiguous", "BlockShape", "OnceInOrder", "Released", "FaultsSurface", "EndState")


class TargetFault(Exception):
    """What the target double raises (not TypeError/AttributeError: ExtendedToOriginalDecorator retries on those)."""


def time_of(v):
    return T0 + datetime.timedelta(seconds=v)


def v_of_time(t):
    if not isinstance(t, datetime.datetime):
        return -1
    return int((t - T0).total_seconds())


class FakeTest:
    def __init__(self, v):
        self.v = v

    def id(self):
        return "t%d" % self.v

    def shortDescription(self):
        return None

    def __repr__(self):
        return "<test %d>" % self.v


def v_of_test(test):
    try:
        return int(test.id()[1:])
    except Exception:
        return -1


class Target:
    """Recording target result shared by all forwarders.  Every call is a yield point of the scheduler."""

    failfast = False

    def __init__(self, sch, sem, faults):
        self._s = sch
        self._sem = sem
        self._faults = set(map(tuple, faults))
        self._n = {}
        self.log = []
        self._stopped = False  # the target's shouldStop flag: set by a stop() that got through

    def _call(self, name, v=0, tg=None):
        ct = self._s.yield_point("call", call=name)
        thr = ct.id if ct is not None else 0
        k = self._n[thr] = self._n.get(thr, 0) + 1
        f = (thr, k) in self._faults
        e = {"thr": thr, "call": name, "v": v, "tg": tg or NOTAGS, "h": self._sem.holder() or 0, "f": f}
        self.log.append(e)
        self._s.note(**e)
        if f:
            raise TargetFault("%s call %d of thread %s" % (name, k, thr))

    def time(self, a):
        self._call("time", v_of_time(a))

    def startTest(self, test):
        self._call("startTest", v_of_test(test))

    def stopTest(self, test):
        self._call("stopTest", v_of_test(test))

    def tags(self, new_tags, gone_tags):
        self._call("tags", 0, {"n": sorted(new_tags), "g": sorted(gone_tags)})

    def addSuccess(self, test, details=None):
        self._call("addSuccess", v_of_test(test))

    def addError(self, test, err=None, details=None):
        self._call("addError", v_of_test(test))

    def addFailure(self, test, err=None, details=None):
        self._call("addFailure", v_of_test(test))

    def addSkip(self, test, reason=None, details=None):
        self._call("addSkip", v_of_test(test))

    def addExpectedFailure(self, test, err=None, details=None):
        self._call("addExpectedFailure", v_of_test(test))

    def addUnexpectedSuccess(self, test, details=None):
        self._call("addUnexpectedSuccess", v_of_test(test))

    def startTestRun(self):
        self._call("startTestRun")

    def stopTestRun(self):
        self._call("stopTestRun")

    def stop(self):
        self._call("stop")
        self._stopped = True

    def done(self):
        self._call("done")

    @property
    def shouldStop(self):
        self._call("shouldStop")
        return self._stopped

    @shouldStop.setter
    def shouldStop(self, value):
        pass

    def wasSuccessful(self):
        return True


def _worker(sch, t, items, fwd):
    def body():
        for i, it in enumerate(items, 1):
            if i > 1:
                sch.yield_point("item")
            d = 100 * t + 10 * i
            try:
                if it["kind"] == "test":
                    test = FakeTest(d)
                    fwd.time(time_of(it.get("st") or d + 1))
                    if it["gt"]["n"] or it["gt"]["g"]:
                        fwd.tags(set(it["gt"]["n"]), set(it["gt"]["g"]))
                    fwd.startTest(test)
                    if it["xt"]["n"] or it["xt"]["g"]:
                        fwd.tags(set(it["xt"]["n"]), set(it["xt"]["g"]))
                    fwd.time(time_of(it.get("en") or d + 2))
                    try:
                        getattr(fwd, it["out"])(test, details={})
                    except TargetFault:
                        # a reporter like unittest calls stopTest in a `finally`; one like PlaceHolder.run does not
                        # (item flag "nostop"): the forwarder must not depend on it to forget this test's buffers
                        if not it.get("nostop"):
                            fwd.stopTest(test)
                        raise
                    fwd.stopTest(test)
                elif it["kind"] == "shouldStop":
                    sch.note(read="true" if fwd.shouldStop else "false")
                else:
                    getattr(fwd, it["kind"])()
                sch.note(ret="ok")
            except TargetFault:
                sch.note(ret="raised")

    return body


class Execution:
    """One scenario (work, faults) set up on the real objects; stepped by a chooser or by hand."""

    def __init__(self, work, faults, chooser=None):
        import testtools

        self.work = work
        self.faults = [list(f) for f in faults]
        self.sch = S.Scheduler(chooser, on_step=self._on_step)
        self.sem = self.sch.Semaphore(1)
        self.target = Target(self.sch, self.sem, faults)
        self.events = []
        self.fwds = {}
        for t, items in enumerate(work, 1):
            fwd = testtools.ThreadsafeForwardingResult(self.target, self.sem)
            self.fwds[t] = fwd
            if items:
                self.sch.spawn(_worker(self.sch, t, items, fwd), tid=t)

    def blocked(self):
        return sorted(
            t.id for t in self.sch.threads if t.state != "done" and t.pending.get("op") == "acquire" and not t.enabled()
        )

    def _on_step(self, rec):
        op = rec.get("op")
        ev = {
            "thr": rec["thr"],
            "act": ACT.get(op, str(op)),
            "call": rec.get("call", "none") if op == "call" else "none",
            "v": rec.get("v", 0),
            "tg": rec.get("tg", NOTAGS),
            "h": rec.get("h", 0),
            "f": bool(rec.get("f", False)),
            "holder": self.sem.holder() or 0,
            "ret": rec.get("ret", "none"),
            "read": rec.get("read", "none"),  # the value a shouldStop read on the forwarder returned in this step
            "got": bool(rec.get("got", True)),  # non-blocking acquire: was a permit taken
            "semval": self.sem.value,  # the semaphore's counter after the step
        }
        self.events.append(ev)

    def check_threads(self):
        for t in self.sch.threads:
            if t.exc is not None:
                raise tlc.MachineryError(
                    "C12: unexpected exception in reporting thread %s: %r (work=%s)" % (t.id, t.exc, jdump(self.work))
                )

    def trace(self, complete):
        return {"work": self.work, "faults": self.faults, "ev": self.events, "complete": complete}


def run_scenario(work, faults, chooser):
    """Returns (trace, deadlock_info or None, execution)."""
    ex = Execution(work, faults, chooser)
    try:
        ex.sch.run()
    except S.Deadlock as d:
        ex.check_threads()
        return ex.trace(False), {"waiting": d.waiting, "holder": ex.sem.holder()}, ex
    ex.check_threads()
    return ex.trace(True), None, ex


# ---------------------------------------------------------------------------------------------
# scenarios


def T(out="addSuccess", gt=None, xt=None, st=0, en=0):
    """st / en: explicit start / end time from a tiny alphabet (0 = the default unique times id+1 / id+2)."""
    return {"kind": "test", "out": out, "gt": gt or NOTAGS, "xt": xt or NOTAGS, "st": st, "en": en}


def R(kind):
    return {"kind": kind, "out": "none", "gt": NOTAGS, "xt": NOTAGS, "st": 0, "en": 0}


def add(*x):
    return {"n": sorted(x), "g": []}


def rem(*x):
    return {"n": [], "g": sorted(x)}


def ncalls(items):
    """Upper bound of the target calls a thread makes (fault positions beyond the real count are no faults)."""
    return sum(7 if it["kind"] == "test" else 1 for it in items)


def any_tags(p):
    return bool(p["n"] or p["g"])


def merge(ex, ch):
    n = (set(ex["n"]) | set(ch["n"])) - set(ch["g"])
    g = (set(ex["g"]) | set(ch["g"])) - set(ch["n"])
    return {"n": sorted(n), "g": sorted(g)}


def expected_block(work, t, i):
    """Meaning of BlockShape in Python (only used to describe a violation in its signature; TLC decides)."""
    g = NOTAGS
    for it in work[t - 1][:i]:
        if it["kind"] == "test":
            g = merge(g, it["gt"])
        elif it["kind"] == "startTestRun":
            g = NOTAGS
    it = work[t - 1][i - 1]
    d = 100 * t + 10 * i
    out = [("time", it.get("st") or d + 1, None), ("startTest", d, None), ("time", it.get("en") or d + 2, None)]
    if any_tags(g):
        out.append(("tags", 0, jdump(g)))
    if any_tags(it["xt"]):
        out.append(("tags", 0, jdump({"n": sorted(it["xt"]["n"]), "g": sorted(it["xt"]["g"])})))
    return out + [(it["out"], d, None), ("stopTest", d, None)]


def restrict_to_domain(work, faults):
    """Domain of C12's check: once the target has raised for a forwarder, its thread gives no further tags() call
    OUTSIDE a test (such a call is buffered as test-local because _test_start stays set after a fault - tag scoping
    after a fault is C17's subject).  Implemented by removing the run-level tag operation of every item that follows
    the item in which the thread's first fault position lies (call counts before the first fault are exact)."""
    work = [[dict(it) for it in items] for items in work]
    for t, items in enumerate(work, 1):
        ks = sorted(k for (tt, k) in faults if tt == t)
        if not ks:
            continue
        n = 0
        g = NOTAGS
        first = None
        for i, it in enumerate(items, 1):
            if it["kind"] == "test":
                g = merge(g, it["gt"])
                n += 5 + (1 if any_tags(g) else 0) + (1 if any_tags(it["xt"]) else 0)
            else:
                n += 1
                if it["kind"] == "startTestRun":
                    g = NOTAGS
            if ks[0] <= n:
                first = i
                break
        if first is not None:
            for it in items[first:]:
                it["gt"] = NOTAGS
    return work


def calibrate_variant():
    """Which buffer-reset behaviour does the tree under test implement?  One sequential execution: the target raises
    at startTest of a test tagged {x}; does the next test's block carry x?"""
    work = [[dict(T("addSuccess", None, add("x")), nostop=True), T("addSuccess", None, None)]]
    trace, dl, ex = run_scenario(work, [(1, 2)], S.Follow([], "first"))
    if dl is not None:
        return "asCoded"
    second = [e for e in trace["ev"] if e["act"] == "call" and e["call"] == "tags"]
    # the first block stops at startTest (no tags call made), so any tags call belongs to the second block
    return "asCoded" if second else "asRequired"


def blockshape_signature(trace, l):
    """Signature of a BlockShape violation found by TLC after l events: what differs (only the tags calls, or the
    shape otherwise) and the history class: the class of the last call on which the target had raised for the same
    thread, in a test block, before this block (nofault / before-outcome = time,startTest,tags / outcome-or-later)."""
    ev = trace["ev"][:l]
    last = ev[-1] if ev else {}
    t = last.get("thr")
    d = last.get("v", 0)
    calls = [e for e in ev if e["act"] == "call"]
    # the block = calls from the time() preceding startTest(d) to the end
    start = None
    for j, e in enumerate(calls):
        if e["call"] == "startTest" and e["v"] == d and e["thr"] == t:
            start = j - 1
    what = "shape"
    cls = "nofault"
    if last.get("call") == "stopTest" and start is not None and start >= 0:
        blk = [(e["call"], e["v"], jdump(e["tg"]) if e["call"] == "tags" else None) for e in calls[start:]]
        i = (d % 100) // 10
        if 1 <= i <= len(trace["work"][t - 1]) and trace["work"][t - 1][i - 1]["kind"] == "test":
            exp = expected_block(trace["work"], t, i)
            if [b for b in blk if b[0] != "tags"] == [b for b in exp if b[0] != "tags"]:
                what = "tags"
        for e in calls[: max(start, 0)]:
            # (a raise of a run-level call does not touch the per-test buffers: not part of the history class)
            if e["thr"] == t and e["f"] and e["call"] not in RUNLEVEL:
                cls = "before-outcome" if e["call"] in ("time", "startTest", "tags") else "outcome-or-later"
    return "B2:BlockShape:%s:after-fault:%s" % (what, cls)


def systematic_scenarios(tier):
    plain, tagged = T(), T("addError", add("g"), add("x"))
    ungl, ttg = T("addSkip", rem("g"), None), T("addFailure", None, add("x", "y"))
    sc = []
    w22 = [[tagged, plain], [R("startTestRun"), ttg]]
    sc.append((w22, [], 2))
    # a fault at every call position of thread 1's first block, and at thread 2's run-level call
    for k in range(1, 8):
        sc.append((w22, [(1, k)], 2))
    sc.append((w22, [(2, 1)], 2))
    # a tagged test whose block faults at every call position, followed by another tagged test of the same thread
    slow, fast = T("addSuccess", None, add("slow")), T("addSuccess", None, add("fast"))
    for k in range(1, 7):
        sc.append(([[slow, fast], [plain]], [(1, k)], 2))
    # ... reported by a thread that does not call stopTest once the outcome has raised (like PlaceHolder.run)
    for k in range(1, 7):
        sc.append(([[dict(slow, nostop=True), fast], [plain]], [(1, k)], 1))
    for k in range(1, 8):
        sc.append(([[tagged, fast, slow]], [(1, k)], 1))
    # explicit times from a tiny alphabet: back-to-back tests whose start time equals the previous test's end time
    # (and start = end), with another thread's block in between
    sc.append(([[T(st=5, en=7), T(st=7, en=9)], [T("addError", st=6, en=8)]], [], 2))
    # the clock may go backwards (TestResult.time): an end time EARLIER than the start time is forwarded as it is
    sc.append(([[T(st=7, en=5), T(st=5, en=3, xt=add("x"))], [T("addError", st=6, en=4)]], [], 2))
    sc.append(([[T(st=5, en=7, xt=add("x")), T(st=7, en=7), T(st=7, en=7)], [T(st=7, en=7)]], [], 2))
    sc.append(([[T(st=5, en=7), T(st=7, en=9)], [R("stop"), T(st=7, en=9)]], [(1, 4)], 2))
    # shouldStop polled while another thread is inside its block
    sc.append(([[R("shouldStop"), plain, R("shouldStop")], [tagged, plain]], [], 2))
    # ... with stop() forwarded by the other thread before / around the poll: a read returns the target's flag as of
    # a moment when the reader held the semaphore
    sc.append(([[R("shouldStop"), R("shouldStop")], [R("stop"), tagged]], [], 2))
    sc.append(([[plain, R("shouldStop")], [R("stop"), R("shouldStop"), plain]], [(2, 1)], 2))
    sc.append(([[tagged, ungl], [plain, T("addUnexpectedSuccess", add("h"), None)]], [], 2))
    sc.append(([[R("stop"), plain], [T("addExpectedFailure"), R("done")]], [(1, 1)], 2))
    sc.append(([[R("shouldStop"), tagged], [R("stopTestRun"), plain]], [(2, 1), (1, 6)], 2))
    if tier == "thorough":
        w33 = [[tagged, plain, R("stop")], [plain, ungl], [R("startTestRun"), ttg, plain]]
        sc.append((w33, [], 2))
        sc.append((w33, [(1, 6), (3, 2)], 2))
        sc.append(([[tagged], [plain], [ttg]], [], 3))
        sc.append(([[tagged], [plain], [ttg]], [(2, 5)], 3))
        sc.append(([[tagged], [plain], [ttg], [R("stop")]], [(1, 2)], 3))
        sc.append(([[plain, plain], [plain, plain]], [], 3))
        sc.append((w22, [(1, 6), (1, 7)], 3))
        sc.append(([[tagged, tagged, tagged], [ungl, ttg, plain]], [(1, 9)], 2))
        for k in (2, 5, 6, 7):
            sc.append(([[tagged, fast], [slow, fast]], [(1, k), (2, k - 1)], 3))
    return [(restrict_to_domain(w, f), f, b) for (w, f, b) in sc]


TAGOPS = (None, None, add("g"), rem("g"), add("x"), add("g", "h"), rem("h"), {"n": ["a"], "g": ["g"]})


def random_scenario(rng):
    n = rng.choice((2, 2, 3, 3, 4))
    work = []
    for t in range(n):
        items = []
        for i in range(rng.randint(1, 3)):
            if rng.random() < 0.2:
                items.append(R(rng.choice(RUNLEVEL)))
            else:
                items.append(T(rng.choice(OUTCOMES), rng.choice(TAGOPS), rng.choice(TAGOPS)))
        work.append(items)
    if rng.random() < 0.35:
        # explicit times from a tiny alphabet: equal consecutive values within a thread and across threads
        for items in work:
            cur = rng.randint(1, 3)
            for it in items:
                if it["kind"] == "test":
                    it["st"] = cur
                    it["en"] = max(1, cur + rng.choice((0, 0, 1, -1)))  # (time may go backwards)
                    cur = max(1, it["en"] + rng.choice((0, 0, 1, -1)))
    if rng.random() < 0.3:
        for items in work:
            for it in items:
                it["nostop"] = True
    faults = []
    r = rng.random()
    nf = 0 if r < 0.4 else (1 if r < 0.8 else 2)
    for _ in range(nf):
        t = rng.randint(1, n)
        f = (t, rng.randint(1, ncalls(work[t - 1])))
        if f not in faults:
            faults.append(f)
    return restrict_to_domain(work, faults), faults


def preemptions(events):
    """Number of switches away from a thread that is inside a block attempt (between acquire and release)."""
    n = 0
    inside = set()
    for a, b in zip(events, events[1:]):
        if a["act"] == "acquire":
            inside.add(a["thr"])
        if a["act"] == "release":
            inside.discard(a["thr"])
        if b["thr"] != a["thr"] and a["thr"] in inside:
            n += 1
    return n


def fault_sig(trace):
    if not trace["faults"]:
        return "nofault"
    calls = sorted({e["call"] if e["call"] in ("time", "startTest", "tags", "stopTest") + RUNLEVEL else "outcome"
                    for e in trace["ev"] if e["f"]})
    return "fault@" + "+".join(calls) if calls else "fault-unreached"


def abstract(trace):
    return {
        "work": [[it["kind"] if it["kind"] != "test" else it["out"] for it in items] for items in trace["work"]],
        "faults": trace["faults"],
        "schedule": "".join(str(e["thr"]) for e in trace["ev"]),
        "target_log": ["%d:%s" % (e["thr"], e["call"]) for e in trace["ev"] if e["act"] == "call"],
    }


# ---------------------------------------------------------------------------------------------
# B1: replay of TLC-exported schedules


def replay_export(beh):
    """Returns None or (step, clause, expected, observed)."""
    work = beh["work"]
    faults = [tuple(f) for f in beh["faults"]]
    ex = Execution(work, faults, chooser=None)
    sch = ex.sch
    try:
        for k, h in enumerate(beh["hist"]):
            t = h["thr"]
            en = sch.enabled_ids()
            if t not in en:
                return (k, "progress", {"thread": t, "can": h["act"]}, {"enabled": en, "blocked": ex.blocked(),
                                                                        "holder": ex.sem.holder() or 0})
            sch.step(t)
            ev = ex.events[-1]
            exp = {"act": h["act"], "holder": h["holder"], "blocked": sorted(h["blocked"]), "ret": h["ret"]}
            obs = {"act": ev["act"], "holder": ev["holder"], "blocked": ex.blocked(), "ret": ev["ret"]}
            if h["act"] == "call":
                e = h["e"]
                exp["entry"] = {"thr": e["thr"], "call": e["call"], "v": e["v"],
                                "tg": {"n": sorted(e["tg"]["n"]), "g": sorted(e["tg"]["g"])}, "h": e["h"], "f": e["f"]}
                obs["entry"] = {x: ev[x] for x in ("thr", "call", "v", "tg", "h", "f")}
            if exp != obs:
                bad = [x for x in exp if exp[x] != obs.get(x)]
                return (k, "replay-" + bad[0], exp, obs)
        left = sch.unfinished()
        if left:
            return (len(beh["hist"]), "replay-unfinished", [], left)
        ex.check_threads()
        return None
    finally:
        sch.close()


# ---------------------------------------------------------------------------------------------


def run(tier, pid="C12"):
    use_repo()
    rep = Report(
        "C12",
        tier,
        "model_checking",
        "executions = (work lists of 2..4 reporting threads, fault positions on the target, schedule); schedules are "
        "enumerated depth-first over the implementation's enabled threads with a preemption bound, then drawn at random "
        "(VERIF_SEED); each execution of the real ThreadsafeForwardingResult objects is validated by TLC against "
        "ThreadsafeTrace.tla; TLC-exported schedules are replayed step by step. Non-trivial = >=2 threads with >=1 "
        "preemption inside a block attempt, or a fault that was reached; distinct by (work, faults, schedule).",
    )
    rep.assume("each reporting thread gives explicit times (time(start) before startTest, time(end) before the outcome)")
    rep.assume("domain: once the target has raised for a forwarder, its thread gives no further tags() call OUTSIDE a "
               "test (after a fault _test_start stays set, so such a call is buffered as test-local: tag scoping after "
               "a fault is C17's subject); everything else after a fault is checked - BlockShape holds for EVERY block")
    rep.assume("the target double raises TargetFault(Exception); it never raises TypeError/AttributeError")
    quick = tier == "quick"
    actions = ["DoLocal", "DoAcquire", "DoCall", "DoRelease", "Done"]
    # which buffer-reset behaviour the tree under test implements (probe on the real code); conformance (strict trace
    # validation, B1 exports) is checked against that variant of the mechanism, the PROPERTIES against asRequired
    variant = calibrate_variant()
    rep.extra["mechanism_variant_of_tree"] = variant
    env_req = {"C12_VARIANT": "asRequired"}
    env_tree = {"C12_VARIANT": variant}

    # ---- TLC jobs run in the background (2 at a time, 4 workers each) while the real executions are made ----
    from concurrent.futures import ThreadPoolExecutor

    mc = ["ts_mcQ.cfg", "ts_mcR.cfg", "ts_mcT.cfg", "ts_mcS.cfg"] if quick else ["ts_mcQ.cfg", "ts_mcR.cfg", "ts_mcT.cfg", "ts_mcS.cfg", "ts_mcK.cfg", "ts_mc41.cfg", "ts_mc23.cfg", "ts_mc33.cfg"]
    exps = ["ts_exp21.cfg", "ts_exp22q.cfg"] if quick else ["ts_exp21.cfg", "ts_exp22.cfg"]
    from . import apalache

    apalache_pool = ThreadPoolExecutor(1)
    apalache_job = apalache_pool.submit(apalache.obligations, rep)
    pool = ThreadPoolExecutor(2)
    jobs = {
        cfg: pool.submit(tlc.run_tlc, "conc", "MCThreadsafe", cfg, workers=4, coverage=True, timeout=1500, env=env_tree)
        for cfg in exps
    }
    if not quick:
        # deep random behaviours of 3 threads for B1 (tlc -simulate, VERIF_SEED)
        exps.append("ts_sim.cfg")
        jobs["ts_sim.cfg"] = pool.submit(
            tlc.run_tlc, "conc", "MCThreadsafe", "ts_sim.cfg", workers=4, simulate=dict(num=400, depth=120),
            seed=rep.seed + 1, deadlock=True, coverage=False, timeout=1500, env=env_tree)
    for cfg in mc:
        jobs[cfg] = pool.submit(tlc.run_tlc, "conc", "MCThreadsafe", cfg, workers=4, coverage=True, timeout=1500,
                                env=env_req)
    # the mechanism as coded (buffers not cleared when the block raises) must violate BlockShape in the model
    jobs["coded"] = pool.submit(tlc.run_tlc, "conc", "MCThreadsafe", "ts_mcCoded.cfg", workers=2, coverage=False,
                                timeout=600, env={"C12_VARIANT": "asCoded"})

    # ---- B2: systematic + random executions, validated by TLC --------------------------------
    traces = []
    meta = []

    def record(trace, dl, kind, extra):
        traces.append(trace)
        meta.append((kind, extra))
        nt = preemptions(trace["ev"]) >= 1 and len(trace["work"]) >= 2 or any(e["f"] for e in trace["ev"])
        rep.case(
            sample=dict(abstract(trace), kind=kind) if (len(traces) % 997 == 5) else None,
            nontrivial_key=sig_hash([trace["work"], trace["faults"], [e["thr"] for e in trace["ev"]]]) if nt else None,
        )
        if dl is not None:
            rep.violation(
                "NoDeadlock",
                "B2:deadlock:" + fault_sig(trace),
                {"kind": "B2", "trace": trace, "waiting": dl},
                expected="some thread can take a step until all have finished",
                observed=dl,
            )

    sys_counts = []
    cap = 2500 if quick else 3000
    for work, faults, bound in systematic_scenarios(tier):
        if not quick:
            bound = max(bound, 3)
        exr = S.Explorer(bound, max_executions=cap)
        while exr.more():
            trace, dl, _ = run_scenario(work, faults, exr)
            record(trace, dl, "systematic", None)
            exr.done_one()
            if len(rep.violations) >= 3:
                break
        sys_counts.append({"threads": len(work), "items": [len(w) for w in work], "faults": [list(f) for f in faults],
                           "bound": bound, "executions": exr.executions, "complete": not exr.truncated})
        if len(rep.violations) >= 3:
            break
    rng = random.Random(rep.seed * 7919 + 12)
    nrand = 600 if quick else 6000
    for j in range(nrand):
        if len(rep.violations) >= 3:
            break
        work, faults = random_scenario(rng)
        trace, dl, _ = run_scenario(work, faults, S.RandomWalk(rng.getrandbits(32), stay=rng.choice((0.0, 0.5, 0.8))))
        record(trace, dl, "random", None)
    rep.extra["systematic"] = sys_counts
    rep.extra["random_executions"] = nrand

    # ---- B1: exported schedules replayed ----------------------------------------------------
    for cfg in exps:
        r = jobs[cfg].result()
        tlc.require_ok(r, "C12 " + cfg)
        if cfg != "ts_sim.cfg":
            tlc.require_coverage(r, actions[:4], "C12 " + cfg)
        rep.add_tlc(r, cfg)
        n = 0
        for beh in tlc.exported(r):
            n += 1
            bad = replay_export(beh)
            sched_s = "".join(str(h["thr"]) for h in beh["hist"])
            rep.case(
                sample={"kind": "B1 replay", "faults": beh["faults"], "schedule": sched_s} if n % 1500 == 1 else None,
                nontrivial_key=("B1", jdump(beh["work"]), jdump(beh["faults"]), sched_s),
            )
            rep.traces += 1
            if bad:
                k, clause, exp, obs = bad
                sig = "B1:%s:%s" % (clause, "fault" if beh["faults"] else "nofault")
                rep.violation(clause, sig, {"kind": "B1", "work": beh["work"], "faults": beh["faults"],
                                            "hist": beh["hist"], "failed_at_step": k}, expected=exp, observed=obs)
                if len(rep.violations) >= 3:
                    break
        if n == 0:
            raise tlc.MachineryError("C12 %s exported no behaviours" % cfg)

    # ---- TLC: model checking results -----------------------------------------------------------
    for cfg in mc:
        r = jobs[cfg].result()
        tlc.require_ok(r, "C12 " + cfg)
        tlc.require_coverage(r, actions, "C12 " + cfg)
        rep.add_tlc(r, cfg)
    r = jobs["coded"].result()
    if r.violated != "BlockShape":
        raise tlc.MachineryError("C12 ts_mcCoded.cfg: the asCoded mechanism should violate BlockShape (got violated=%s "
                                 "error=%s)" % (r.violated, r.error))
    rep.add_tlc(r, "ts_mcCoded.cfg (expected: BlockShape violated)")
    pool.shutdown()

    val = Validator("conc", "ThreadsafeTrace", "ts_trace_strict.cfg", "ts_trace_loose.cfg", env=env_tree)
    verdicts, validated = val.validate(traces)
    for what, r in val.tlc_results:
        rep.add_tlc(r, "trace:" + what)
    rep.traces += validated
    for i, v in sorted(verdicts.items()):
        tr = traces[i]
        if v[0] == "violation":
            _, inv, l = v
            cut = dict(tr, ev=tr["ev"][:l], complete=False if l < len(tr["ev"]) else tr["complete"])
            last = tr["ev"][l - 1] if l else {}
            sig = "B2:%s:%s:%s" % (inv, last.get("call") if last.get("act") == "call" else last.get("act"), fault_sig(tr))
            if inv == "BlockShape":
                sig = blockshape_signature(tr, l)
            rep.violation(inv, sig, {"kind": "B2", "trace": cut}, expected="invariant %s of Threadsafe.tla" % inv,
                          observed=abstract(cut))
        else:
            rep.note_drift("C12: execution is not a behaviour of Threadsafe.tla from event %s on, but satisfies every "
                           "C12 invariant: %s" % (v[1], jdump(abstract(tr))[:400]))
    if not rep.samples:
        rep.sample({"note": "see tlc_runs"})
    # unbounded number of blocks: Apalache discharges an inductive invariant of the semaphore protocol (started in
    # the background at the beginning of the run; a MachineryError raised there surfaces here)
    apalache_job.result()
    apalache_pool.shutdown()
    rep.exhaustive = False
    rep.extra["explanation"] = (
        "TLC: exhaustive for the bounded instances in spec/conc/ts_mc*.cfg; real executions: exhaustive up to the "
        "preemption bound for the listed scenarios (see 'systematic'), random beyond"
    )
    return rep.finish()


def replay_file(path, pid="C12"):
    use_repo()
    v = json.load(open(path))
    sc = v["scenario"]
    if sc["kind"] == "B1":
        bad = replay_export({"work": sc["work"], "faults": sc["faults"], "hist": sc["hist"]})
        if bad:
            print("VIOLATION property=C12 replay=%s" % path)
            print("  step=%s clause=%s expected=%r observed=%r" % bad)
            return 1
        print("replay: schedule conforms")
        return 0
    tr = sc["trace"]
    schedule = [e["thr"] for e in tr["ev"]]
    trace, dl, _ = run_scenario(tr["work"], [tuple(f) for f in tr["faults"]], S.Follow(schedule, then="first"))
    if dl is not None:
        print("VIOLATION property=C12 replay=%s" % path)
        print("  clause=NoDeadlock waiting=%r" % (dl,))
        return 1
    val = Validator("conc", "ThreadsafeTrace", "ts_trace_strict.cfg", "ts_trace_loose.cfg",
                    env={"C12_VARIANT": calibrate_variant()})
    verdicts, _ = val.validate([trace])
    if verdicts and verdicts[0][0] == "violation":
        print("VIOLATION property=C12 replay=%s" % path)
        print("  clause=%s after event %s" % (verdicts[0][1], verdicts[0][2]))
        return 1
    print("replay: execution conforms")
    return 0
