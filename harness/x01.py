"""X01 - MonkeyPatcher / patch(): every patched attribute gets its pre-patch value back (or disappears again).

Spec: spec/extra/MonkeyPatch.tla.  TLC checks the saved-originals list (mechanism) against the ghost pre-patch
snapshot (meaning): WouldRestore, SavedIffTouched, RestoreMeaning, RestoreIdempotent, PatchAssigns, RunMeaning,
AddPatchIsLazy - and exports every behaviour of the bounded instances.  Each behaviour is replayed into a real
testtools.monkey.MonkeyPatcher (and the module-level patch()) working on real objects; after EVERY call the
getattr-view of every (object, attribute) slot is compared with the spec, for run_with_patches also what f saw
while it ran and how the call ended (identity of the returned value / of the propagated exception).
"""

from . import tlc
from .common import Report, use_repo, jdump

PROPS = ("X01",)

ACTIONS = ["AddPatch", "Patch", "Restore", "Run", "FnPatch"]


class _Val:
    def __init__(self, name):
        self.name = name

    def __repr__(self):
        return "<%s>" % self.name


class World:
    """Two real objects; o2's class carries the attribute 'c'."""

    def __init__(self):
        self.vals = {"orig": _Val("orig"), "p": _Val("p"), "q": _Val("q"), "cls": _Val("cls"), "None": None}
        self.names = {id(v): k for k, v in self.vals.items() if v is not None}

        class O1:
            pass

        class O2:
            c = self.vals["cls"]

        self.o1, self.o2 = O1(), O2()
        self.o1.x = self.vals["orig"]
        self.o2.x = None
        self.missing = object()

    def target(self, slot):
        o, a = slot.split(".")
        return (self.o1 if o == "o1" else self.o2), a

    def snap(self, slots):
        out = {}
        for s in slots:
            o, a = self.target(s)
            v = getattr(o, a, self.missing)
            if v is self.missing:
                out[s] = "absent"
            elif v is None:
                out[s] = "None"
            else:
                out[s] = self.names.get(id(v), "?" + repr(v))
        return out


class FRaised(Exception):
    pass


class FBase(BaseException):
    pass


def replay(hist):
    """Return None or (step index, clause, expected, observed)."""
    from testtools import monkey

    w = World()
    slots = sorted(hist[0]["obs"])
    init = hist[0]
    mp = monkey.MonkeyPatcher(*[w.target(s) + (w.vals[v],) for s, v in init["arg"]])
    if w.snap(slots) != init["obs"]:
        return (0, "constructor-touches-objects", init["obs"], w.snap(slots))
    restorers = {}
    for i, h in enumerate(hist[1:], 1):
        a = h["a"]
        try:
            if a == "add_patch":
                s, v = h["arg"]
                o, name = w.target(s)
                mp.add_patch(o, name, w.vals[v])
            elif a == "patch":
                mp.patch()
            elif a == "restore":
                if h["arg"] == 0:
                    mp.restore()
                else:
                    restorers[h["arg"]]()
            elif a == "fn_patch":
                s, v = h["arg"]
                o, name = w.target(s)
                restorers[h["out"]] = monkey.patch(o, name, w.vals[v])
                if not callable(restorers[h["out"]]):
                    return (i, "patch-returns-callable", "callable", repr(restorers[h["out"]]))
            elif a == "run":
                kind = h["arg"]
                seen = {}
                ret = _Val("ret")
                exc = FRaised("f") if kind == "exc" else FBase("f")
                args_seen = []

                def f(*args, **kw):
                    args_seen.append((args, kw))
                    seen.update(w.snap(slots))
                    if kind == "ret":
                        return ret
                    raise exc

                try:
                    got = mp.run_with_patches(f, 1, k=2)
                    ended = ("ret", got is ret)
                except (FRaised, FBase) as ex:
                    ended = ("raise", ex is exc)
                exp_end = ("ret" if kind == "ret" else "raise", True)
                if args_seen != [((1,), {"k": 2})]:
                    return (i, "run-calls-f-once-with-args", [((1,), {"k": 2})], args_seen)
                if seen != h["out"]["saw"]:
                    return (i, "run-f-sees-patches", h["out"]["saw"], seen)
                if ended != exp_end:
                    return (i, "run-outcome", exp_end, ended)
            else:
                raise tlc.MachineryError("X01: unknown action %r" % a)
        except tlc.MachineryError:
            raise
        except Exception as ex:  # none of the documented calls raises on these inputs
            return (i, "raised", None, "%s: %s" % (type(ex).__name__, ex))
        obs = w.snap(slots)
        if obs != h["obs"]:
            clause = {
                "restore": "restore-original-values",
                "run": "run-restores",
                "patch": "patch-assigns",
                "fn_patch": "patch-assigns",
                "add_patch": "add_patch-is-lazy",
            }[a]
            return (i, clause, h["obs"], obs)
    return None


def shape(hist):
    out = []
    for h in hist:
        a = h["a"]
        if a in ("add_patch", "fn_patch"):
            out.append("%s(%s=%s)" % (a, h["arg"][0], h["arg"][1]))
        elif a == "init":
            out.append("init[%s]" % ",".join("%s=%s" % (s, v) for s, v in h["arg"]))
        elif a == "restore":
            out.append("restore#%s" % h["arg"])
        elif a == "run":
            out.append("run:%s" % h["arg"])
        else:
            out.append(a)
    return out


def nontrivial_key(hist):
    """Non-trivial: some slot is patched twice before a restore (same patcher or another one), a patch() is repeated
    without restore(), a missing or None-valued attribute is patched, or f raises in run_with_patches."""
    acts = [h["a"] for h in hist]
    pend = [s for s, _ in hist[0]["arg"]]
    twice = False
    special = False
    patched = []
    live = 0
    for h in hist[1:]:
        if h["a"] == "add_patch":
            pend.append(h["arg"][0])
        if h["a"] in ("patch", "run"):
            if len(set(pend)) < len(pend) or set(pend) & set(patched) or (live and h["a"] == "patch" and pend):
                twice = True
            if h["a"] == "patch":
                patched += pend
                live += 1
            if set(pend) & {"o1.y", "o2.x", "o2.c"}:
                special = True
        if h["a"] == "fn_patch":
            if h["arg"][0] in patched:
                twice = True
            patched.append(h["arg"][0])
            if h["arg"][0] in ("o1.y", "o2.x", "o2.c"):
                special = True
        if h["a"] == "restore" and h["arg"] == 0:
            live = 0
    raised = any(h["a"] == "run" and h["arg"] != "ret" for h in hist)
    if twice or special or raised or "restore" in acts:
        return jdump(shape(hist))
    return None


def signature(hist, clause, observed):
    """One defect, one signature: failing clause + the call it failed at + (for 'raised') the exception class +
    whether the slot that differs was missing / None / class-level / ordinary."""
    last = hist[-1]
    at = last["a"] if last["a"] != "run" else "run:" + last["arg"]
    extra = ""
    if clause == "raised":
        extra = ":" + str(observed).split(":", 1)[0]
    elif isinstance(observed, dict) and isinstance(last.get("obs"), dict):
        exp = last["obs"] if clause != "run-f-sees-patches" else last["out"]["saw"]
        diff = sorted(s for s in exp if exp[s] != observed.get(s))
        extra = ":" + ",".join(diff)
    return "x01:%s:%s%s" % (clause, at, extra)


def run(tier, pid="X01"):
    use_repo()
    rep = Report(
        "X01",
        tier,
        "model_checking",
        "behaviours = MonkeyPatcher(*patches) followed by sequences of add_patch / patch / restore / "
        "run_with_patches(f returns | raises Exception | raises BaseException) / module-level patch() / its restore "
        "callable, over four (object, attribute) slots (ordinary, missing, None-valued, class-level); exported by TLC "
        "(exhaustive up to the bounds of spec/extra/mp_exp*.cfg) or tlc -simulate; each replayed into the real "
        "MonkeyPatcher with per-call comparison of every slot. Non-trivial = a slot patched twice before a restore, "
        "repeated patch(), a missing / None / class-level attribute patched, f raising, or a restore; distinct by call sequence.",
    )
    rep.assume("attribute values are compared through getattr(obj, name, <missing>) and by identity; where the value is stored (instance vs class dict) is not compared")
    rep.assume("'original state' of a slot = its value just before the patcher first patched it since that patcher's last restore()")
    rep.assume("run_with_patches is explored with f that returns or raises; f itself does not patch or restore")
    jobs = [
        ("mp_mcA.cfg", {}, False),
        ("mp_mcB.cfg", {}, False),
        ("mp_expA.cfg", {}, True),
        ("mp_expB.cfg", {}, True),
    ]
    if tier == "quick":
        jobs.append(("mp_sim.cfg", dict(simulate=dict(num=150, depth=14), seed=rep.seed + 1), True))
    else:
        jobs.append(("mp_sim.cfg", dict(simulate=dict(num=5000, depth=14), seed=rep.seed + 1), True))
    for cfg, kw, export in jobs:
        r = tlc.run_tlc("extra", "MCMonkeyPatch", cfg, coverage=True, timeout=600, workers=4, **kw)
        tlc.require_ok(r, "X01 " + cfg)
        if "simulate" not in kw:
            tlc.require_coverage(r, ACTIONS, "X01 " + cfg)
        rep.add_tlc(r, cfg)
        if not export:
            continue
        nb = 0
        for hist in tlc.exported(r):
            nb += 1
            nk = nontrivial_key(hist)
            bad = replay(hist)
            rep.case(sample={"calls": shape(hist)} if nk and rep.evaluations % 9000 == 11 else None, nontrivial_key=nk)
            rep.traces += 1
            if bad:
                i, clause, exp, obs = bad
                cut = hist[: i + 1]
                rep.violation(clause, signature(cut, clause, obs), {"behaviour": cut, "cfg": cfg}, expected=exp, observed=obs)
        if nb == 0:
            raise tlc.MachineryError("X01 %s exported no behaviours" % cfg)
    if not rep.samples:
        rep.sample({"note": "see tlc_runs"})
    rep.exhaustive = False
    rep.extra["explanation"] = "exhaustive for the mc/exp configs (bounds in spec/extra/mp_*.cfg); random for mp_sim.cfg"
    return rep.finish()


def replay_file(path, pid="X01"):
    import json

    use_repo()
    v = json.load(open(path))
    bad = replay(v["scenario"]["behaviour"])
    if bad:
        print("VIOLATION property=X01 replay=%s" % path)
        print("  step=%s clause=%s expected=%r observed=%r" % bad)
        return 1
    print("replay: behaviour conforms")
    return 0
