"""C15 - Spinner returns the function's own result within the timeout and restores the process.

Spec: spec/twisted/Spinner.tla.  TLC checks the code-shaped mechanism of Spinner.run on a virtual-time
reactor against the scenario-only meaning (ResultRight, Guards, ReactorClean, Restored, SecondRun,
NeverStuck) for every scenario of the bounded instance and exports, per scenario, the run() calls with
the outcome classes the property allows.  Every scenario is replayed with the REAL Spinner on the
deterministic virtual reactor (harness/vreactor.py) and a subset with wide time gaps on a private
SelectReactor; after every run() the driver compares what the property names: outcome class and value,
reactor.running, getDelayedCalls(), selectables, junk, reactor.stop, signal.getsignal(INT/TERM/CHLD).
Busy-reactor scenarios (a slow callback makes the timeout call, the Deferred's fire/fail call and the stop request
fire back to back in ONE reactor iteration, in time order) pin down "which comes first" when it is not a tie.
The `asCoded` variants of the spec (LateIgnored=FALSE: results arriving after a stop request still count;
ResetsResult=FALSE: the code before 52cf306) must make TLC report ResultRight / SecondRun violated - the
spec-side witnesses of the defects the replay finds (found) in the real code.
"""

import itertools
import os
import signal
import socket
import time

from . import tlc
from .common import Report, jdump, use_repo
from .vreactor import Stuck, VReactor

PROPS = ("C15",)

SIGS = (("INT", signal.SIGINT), ("TERM", signal.SIGTERM), ("CHLD", signal.SIGCHLD))
ACTIONS = [
    "Enter", "SaveSignals", "ScheduleTimeout", "PatchStop", "Start", "RunFunction", "Tick", "FireNext",
    "LoopExit", "Exit", "GetResult", "Clean", "Finish",
]  # fmt: skip
TWO_RUN = ["ClearJunk", "NextRun"]


def _py_int(*a):
    pass


def _py_term(*a):
    pass


def _py_chld(*a):
    pass


PY = {"INT": _py_int, "TERM": _py_term, "CHLD": _py_chld}
KINDS = ("dfl", "ign", "py")
PROFILES = list(itertools.product(KINDS, repeat=3))  # 27 pre-installed handler tables


def handler_of(name, kind):
    return {"dfl": signal.SIG_DFL, "ign": signal.SIG_IGN, "py": PY[name]}[kind]


class SigVReactor(VReactor):
    """A virtual reactor that, like a real one, installs its own handlers for SIGINT/SIGTERM/SIGCHLD
    when run() starts and never puts the old ones back (worst case for the caller)."""

    def _h(self, *a):
        pass

    def run(self, installSignalHandlers=True):
        if installSignalHandlers:
            for _, sig in SIGS:
                signal.signal(sig, self._h)
        return super().run(installSignalHandlers)


class UserError(Exception):
    """the 'other exception class' f raises / its Deferred fails with"""


class FatalError(BaseException):
    """a user exception that is NOT an Exception (like SystemExit, KeyboardInterrupt, asyncio.CancelledError)"""


class Sel:
    """A selectable that never becomes readable (backed by a socket pair on the real reactor)."""

    def __init__(self, real):
        self.pair = socket.socketpair() if real else None

    def fileno(self):
        return self.pair[0].fileno() if self.pair else -1

    def doRead(self):
        pass

    def connectionLost(self, reason):
        pass

    def logPrefix(self):
        return "sel"

    def close(self):
        if self.pair:
            for s in self.pair:
                s.close()
            self.pair = None


class World:
    """One Spinner on one reactor; replays the run() calls of one exported behaviour."""

    def __init__(self, real, unit, idx):
        from testtools.twistedsupport import _spinner

        self.sp = _spinner
        self.real = real
        self.unit = unit
        self.idx = idx
        self.custom_stop = None
        self.sels = []
        self.results = []  # per run: (cls, obj)
        self.ours = []  # every non-Exception BaseException object the replay handed to f (all runs of this World)
        self.old_d = None  # the Deferred the previous run's f returned, if it never fired
        self.vold = ["vold"]  # what the second run's f fires it with

    def make_reactor(self, inst):
        if self.real:
            from twisted.internet.selectreactor import SelectReactor

            self.reactor = SelectReactor()
        else:
            self.reactor = SigVReactor() if inst else VReactor()
            self.reactor.all_startup_triggers = True  # like ReactorBase.fireSystemEvent("startup")
            if self.idx % 2:
                # reactor.stop pre-installed as an instance attribute: identity must survive the run
                orig = self.reactor.stop

                def custom_stop():
                    orig()

                self.reactor.stop = self.custom_stop = custom_stop
        self.spinner = self.sp.Spinner(self.reactor)

    def concrete(self):
        return {"None": None, "zero": 0, "v1": ["v1"], "v2": ["v2"], "e1": ValueError("e1"), "e2": UserError("e2"),
                "b1": SystemExit(3), "b2": FatalError("b2"), "b3": KeyboardInterrupt()}  # fmt: skip

    # -- one run() call -------------------------------------------------------
    def run_once(self, h):
        """Replays run record h. Returns a list of (clause, expected, observed, sigkey) mismatches."""
        from twisted.internet import defer

        sp, reactor, U = self.sp, self.reactor, self.unit
        s = h["s"]
        bad = []
        if s["newSp"] and h["run"] > 1:
            self.spinner = sp.Spinner(reactor)  # a new Spinner on the same reactor
        spinner = self.spinner
        old_d, self.old_d = self.old_d, None
        if h["clr"]:
            was = list(spinner.get_junk())
            got = spinner.clear_junk()
            if list(got) != was or spinner.get_junk():
                bad.append(("clear-junk", "returns the junk and empties it", repr((got, spinner.get_junk())), "clear"))
        prof = PROFILES[(self.idx * 7 + h["run"] * 11) % len(PROFILES)]
        for (name, sig), kind in zip(SIGS, prof):
            signal.signal(sig, handler_of(name, kind))
        # real reactor, every other stop scenario: the stop request is a real SIGINT.  Twisted takes SIGINT over
        # only from Python's default handler, so that is what is pre-installed (and must be back afterwards).
        use_kill = self.real and s["stopAt"] != 99 and self.idx % 2 == 0
        if use_kill:
            signal.signal(signal.SIGINT, signal.default_int_handler)
            prof = ("pydefault",) + prof[1:]
        sig_before = {name: signal.getsignal(sig) for name, sig in SIGS}
        stop_before = reactor.stop
        junk_at_entry = bool(spinner.get_junk())
        vals = self.concrete()
        self.ours += [vals[b] for b in ("b1", "b2", "b3")]
        made = {}  # label -> DelayedCall
        st = {"inner": "-", "ran": False, "sel": None}

        def f():
            st["ran"] = True
            for x in sorted(s["extra"]):
                made["x%d" % x] = reactor.callLater(x * U, lambda: None)
            if s["busyAt"] != 99:
                # a slow callback: the reactor thread is busy for busyDt units; everything falling due meanwhile
                # is fired back to back in one reactor iteration (task.Clock.advance / runUntilCurrent)
                if self.real:
                    made["busy"] = reactor.callLater(s["busyAt"] * U, time.sleep, s["busyDt"] * U)
                else:
                    made["busy"] = reactor.callLater(s["busyAt"] * U, lambda: reactor.advance(s["busyDt"] * U))
            for _ in range(s["sel"]):
                st["sel"] = Sel(self.real)
                self.sels.append(st["sel"])
                reactor.addReader(st["sel"])
            if s["stopAt"] != 99:

                def request_stop():
                    hd = signal.getsignal(signal.SIGINT)
                    if use_kill and getattr(hd, "__self__", None) is reactor:
                        st["killed"] = True
                        os.kill(os.getpid(), signal.SIGINT)  # -> reactor.sigInt -> reactor.stop()
                    else:
                        reactor.stop()

                made["stop"] = reactor.callLater(s["stopAt"] * U, request_stop)
            if s["fireOld"] != 99 and old_d is not None and not old_d.called:
                # the still pending Deferred of the previous run fires during this one
                made["fireold"] = reactor.callLater(s["fireOld"] * U, old_d.callback, self.vold)
            if s["reenter"]:
                # two attempts: a refused attempt must not open the door for the next one
                for _ in range(2):
                    try:
                        spinner.run(1, lambda: None)
                        st["inner"] = "returned"
                    except Exception as ex:
                        st["inner"] = type(ex).__name__
                    if st["inner"] != "ReentryError":
                        break
            k = s["k"]
            if k == "ret":
                return vals[s["v"]]
            if k == "raise":
                raise vals[s["v"]]
            if k == "dnowok":
                return defer.succeed(vals[s["v"]])
            if k == "dnowerr":
                return defer.fail(vals[s["v"]])
            d = st["d"] = defer.Deferred()
            if k == "dfire":
                made["fire"] = reactor.callLater(s["d"] * U, d.callback, vals[s["v"]])
            elif k == "dfail":
                made["fire"] = reactor.callLater(s["d"] * U, d.errback, vals[s["v"]])
            return d

        if s["early"]:
            # registered BEFORE run(): fires when the reactor starts, ahead of run()'s own startup trigger
            reactor.callWhenRunning(lambda: reactor.stop())
        try:
            got = spinner.run(s["T"] * U, f)
            obs_obj = got
            cls, val = "value", "?" + type(got).__name__
            for sym in ("None", "zero", "v1", "v2"):
                if got is vals[sym]:
                    val = sym
            if got is self.vold:
                val = "vold"
        except Stuck as ex:
            obs_obj = ex
            cls, val = "Stuck", "-"
        except BaseException as ex:  # f's SystemExit / KeyboardInterrupt / BaseException come out of run() too
            if not isinstance(ex, Exception) and not any(ex is o for o in self.ours):
                # not an object this replay created (a real Ctrl-C).  An object of an EARLIER run of this World
                # (e.g. a SystemExit the Spinner kept and raises again) is classified below like any other result -
                # letting it escape would end the whole check with SystemExit's code and no verdict.
                raise
            obs_obj = ex
            named = {sp.TimeoutError: "TimeoutError", sp.NoResultError: "NoResultError",
                     sp.StaleJunkError: "StaleJunkError", sp.ReentryError: "ReentryError"}  # fmt: skip
            if type(ex) in named:
                cls, val = named[type(ex)], "-"
            else:
                cls, val = "exception", "?" + type(ex).__name__
                for sym in ("e1", "e2", "b1", "b2", "b3"):
                    if ex is vals[sym]:
                        val = sym
        finally:
            sig_after = {name: signal.getsignal(sig) for name, sig in SIGS}
            for _, sig in SIGS:
                signal.signal(sig, signal.SIG_DFL)
        obs = {"cls": cls, "val": val}

        # --- result / guards ---------------------------------------------------
        allowed = [{"cls": "StaleJunkError", "val": "-"}] if junk_at_entry else h["allowedRun"]
        if obs not in allowed:
            # the very object (value or exception instance) an earlier run() of this Spinner produced
            stale = any(c == cls and prev is obs_obj for c, prev in self.results)
            # the stop request was due strictly first, yet something fired later in the same (busy) reactor
            # iteration became the result
            late = (
                s["busyAt"] != 99
                and [a["cls"] for a in allowed] == ["NoResultError"]
                and cls in ("value", "exception", "TimeoutError")
            )
            if cls == "value" and val == "vold":
                key = "deferred-of-previous-run-becomes-result"
            elif stale and h["run"] > 1:
                key = "stale-result-of-previous-run"
            elif late:
                key = "stop-first-overridden-by-later-event-in-same-iteration"
            else:
                key = "%s:%s->%s" % (s["k"], "|".join(sorted(a["cls"] for a in allowed)), cls)
            bad.append(("result", allowed, obs, "run%d:%s" % (min(h["run"], 2), key)))
        self.results.append((cls, obs_obj))
        if st.get("d") is not None and not st["d"].called:
            self.old_d = st["d"]
        if s["reenter"] and st["ran"] and st["inner"] != "ReentryError":
            bad.append(("reentry", "ReentryError", st["inner"], "inner:" + st["inner"]))

        # --- reactor clean -------------------------------------------------------
        junk = list(spinner.get_junk())
        if reactor.running:
            bad.append(("clean-running", False, True, "running"))
        pending = reactor.getDelayedCalls()
        if pending:
            bad.append(("clean-delayed-calls", [], [repr(c) for c in pending], "pending"))
        readers = [r for r in reactor.getReaders() if not type(r).__module__.startswith("twisted.internet")]
        if readers:
            bad.append(("clean-selectables", [], [repr(r) for r in readers], "readers"))
        for lab, call in sorted(made.items()):
            if not call.called:  # a leftover: must be cancelled and reported
                if not call.cancelled:
                    bad.append(("clean-leftover-cancelled", lab + " cancelled", "still active", "active:" + lab[:1]))
                if not any(j is call for j in junk):
                    bad.append(("junk-reported", lab + " in junk", [repr(j) for j in junk], "junk:" + lab[:1]))
        if st["sel"] is not None and not any(j is st["sel"] for j in junk):
            bad.append(("junk-reported", "selectable in junk", [repr(j) for j in junk], "junk:sel"))

        # --- restored ------------------------------------------------------------
        now_stop = reactor.stop
        ok = now_stop is self.custom_stop if self.custom_stop else now_stop == stop_before
        if not ok:
            bad.append(("restored-stop", repr(stop_before), repr(now_stop), "stop"))
        for name, _ in SIGS:
            if sig_after[name] is not sig_before[name] and sig_after[name] != sig_before[name]:
                bad.append(
                    ("restored-signal", "%s=%r" % (name, sig_before[name]), repr(sig_after[name]),
                     "sig:%s:%s" % (name, prof[[n for n, _ in SIGS].index(name)]))  # fmt: skip
                )

        # --- model drift (not a verdict): which calls fired, when no tie is involved -----
        drift = None
        if not self.real and len(h["allowed"]) == 1 and obs in h["allowed"] and not junk_at_entry:
            fired = sorted(lab for lab, c in made.items() if c.called)
            want = sorted(x for x in h["fired"] if x != "timeout")
            if fired != want:
                drift = "C15 fired calls differ from the model: %s vs %s in %s" % (fired, want, jdump(s))
        if st.get("killed"):
            obs = dict(obs, stop="SIGINT")
        return bad, obs, drift

    def close(self):
        for s in self.sels:
            s.close()
        if self.real:
            # a private SelectReactor holds a waker socket pair
            for attr in ("waker",):
                w = getattr(self.reactor, attr, None)
                try:
                    if w is not None:
                        self.reactor.removeReader(w)
                        w.connectionLost(None)
                except Exception:
                    pass


def replay(hist, idx, real=False, unit=1):
    """Returns (list of mismatches with run index, observed outcomes, drift notes)."""
    w = World(real, unit, idx)
    w.make_reactor(hist[0]["inst"])
    out, obs_all, drifts = [], [], []
    try:
        for h in hist:
            try:
                bad, obs, drift = w.run_once(h)
            except SystemExit as ex:  # must never end the check silently with its exit code
                raise tlc.MachineryError("C15: a SystemExit(%r) escaped the replay of %s" % (ex.code, jdump(abstract(hist))))
            obs_all.append(obs)
            if drift:
                drifts.append(drift)
            out += [(h["run"],) + b for b in bad]
    finally:
        w.close()
    return out, obs_all, drifts


def nontrivial_key(hist):
    """Non-trivial: a Deferred-returning f with a competing timeout/stop, or leftovers, or reuse."""
    s = hist[0]["s"]
    if len(hist) > 1 or (s["k"] in ("dfire", "dfail", "never")) or hist[0]["left"] or s["busyAt"] != 99 or s["early"]:
        return jdump([(h["s"], h["clr"], h["inst"]) for h in hist])
    return None


def wide(s):
    """All event times of the scenario pairwise distinct (>= 1 unit apart): fit for a wall-clock reactor."""
    fn_t = 0 if s["k"] in ("ret", "raise", "dnowok", "dnowerr") else (s["d"] if s["k"] in ("dfire", "dfail") else None)
    ts = [t for t in (fn_t, s["T"], None if s["stopAt"] == 99 else s["stopAt"]) if t is not None]
    ts += list(s["extra"]) + ([] if s["busyAt"] == 99 else [s["busyAt"]])
    return len(set(ts)) == len(ts)


def real_sample(behaviours, seed):
    """A handful of single-run scenarios for the private SelectReactor: one per (f kind, which event is first,
    leftovers, busy) class, rotating with the seed."""
    classes = {}
    for h in behaviours:
        s = h[0]["s"]
        if len(h) != 1 or not wide(s) or s["reenter"] or s["T"] > 2 or s["d"] > 3 or (s["busyAt"] != 99 and s["busyDt"] > 3):
            continue
        if s["busyAt"] != 99 and (s["k"] not in ("dfire", "dfail") or s["d"] <= s["T"] or s["stopAt"] != 99):
            continue  # busy: only "the Deferred fires/fails after the timeout, in the same iteration"
        key = (s["k"], s["v"][:1] == "b", "|".join(sorted(a["cls"] for a in h[0]["allowed"])), bool(s["extra"]), s["sel"],
               s["busyAt"] != 99)  # fmt: skip
        classes.setdefault(key, []).append(h)
    return [v[seed % len(v)] for _, v in sorted(classes.items())]


def real_sample2(behaviours, seed):
    """Two-run scenarios for the private SelectReactor: the first run is stopped by a startup trigger registered
    before run() (every behaviour of f), the second - same or new Spinner - sees the first run's Deferred fire."""
    classes = {}
    for h in behaviours:
        s1, s2 = h[0]["s"], h[1]["s"]
        if not s1["early"] or s1["stopAt"] != 99 or s1["extra"] or s2["early"]:
            continue
        if s2["fireOld"] not in (99, 1) or s2["k"] not in ("dfire", "never"):
            continue
        classes.setdefault((s1["k"], s1["v"], s2["newSp"]), []).append(h)
    return [v[seed % len(v)] for _, v in sorted(classes.items())]


def abstract(hist):
    out = []
    for h in hist:
        s = h["s"]
        out.append(
            "run%d%s%s: f=%s(d=%s,%s) T=%s extra=%s sel=%s stopAt=%s reenter=%s busy=%s%s%s -> allowed %s"
            % (h["run"], " after clear_junk" if h["clr"] else "", " (new Spinner)" if s["newSp"] else "",
               s["k"], s["d"], s["v"], s["T"], s["extra"], s["sel"],
               "-" if s["stopAt"] == 99 else s["stopAt"], s["reenter"],
               "-" if s["busyAt"] == 99 else "%s+%s" % (s["busyAt"], s["busyDt"]),
               " stop-from-earlier-startup-trigger" if s["early"] else "",
               "" if s["fireOld"] == 99 else " fires-previous-run's-Deferred-at=%s" % s["fireOld"],
               "|".join(sorted(a["cls"] + ("(" + a["val"] + ")" if a["val"] != "-" else "") for a in h["allowed"])))
        )  # fmt: skip
    return out


def run(tier, pid="C15"):
    use_repo()
    import gc

    rep = Report(
        "C15",
        tier,
        "model_checking",
        "scenario = (what f does: returns/raises/returns a Deferred firing or failing at delay d or never; timeout T; "
        "extra delayed calls; selectables; stop request at delay k; re-entrant call; optional second run() on the same "
        "Spinner with or without clear_junk()), every combination within the bounds of spec/twisted/sp_*.cfg enumerated "
        "by TLC as initial states; each is replayed with the real Spinner on the virtual reactor (and a wide-gap subset "
        "on a private SelectReactor). Non-trivial = Deferred-returning f competing with timeout/stop, or leftovers in "
        "the reactor, or a second run; distinct by scenario.",
    )
    rep.assume("f raises / its Deferred fails with Exceptions and with BaseExceptions that are not Exceptions (SystemExit, "
               "KeyboardInterrupt, a user BaseException subclass): Twisted's maybeDeferred turns all of them into failures")  # fmt: skip
    rep.assume("on exact time ties either neighbouring outcome class is accepted")
    rep.assume("virtual reactor = twisted.internet.task.Clock + run/crash/stop (harness/vreactor.py); its run() installs "
               "handlers for the three signals like a real reactor when inst=true")  # fmt: skip
    rep.assume("which signal handlers (SIG_DFL/SIG_IGN/Python function: 27 tables) and which reactor.stop (method / "
               "instance attribute) are pre-installed is cycled by the driver; the model treats them symbolically")  # fmt: skip
    rep.assume("reactor-internal readers (twisted.internet.* wakers) are not counted as leftover selectables")

    # the asCoded variants must violate the property in the spec (witness that the model can express the defects)
    # (thorough tier only: each is one more JVM start)
    coded = []
    if tier != "quick":
        coded = [
            ("sp_Dcoded.cfg", "SecondRun", "RunBound=FALSE"),
            ("sp_Ccoded.cfg", "ResultRight", "LateIgnored=FALSE (the code before fix 7c46244)"),
            ("sp_Bcoded.cfg", "SecondRun", "ResetsResult=FALSE (the code before fix 52cf306)"),
        ]
    rep.extra["ascoded_counterexamples"] = []
    for cfg, inv, what in coded:
        r = tlc.run_tlc("twisted", "MCSpinner", cfg, workers=4, timeout=600)
        if r.violated != inv:
            raise tlc.MachineryError("C15: %s did not violate %s (violated=%s error=%s)" % (cfg, inv, r.violated, r.error))
        rep.extra["ascoded_counterexamples"].append("TLC: %s violated with %s (%s)" % (inv, what, cfg))

    # quick: the real-reactor sample is drawn from sp_A's single-run scenarios (wide gaps only), no extra TLC run
    jobs = [("sp_A.cfg", "both"), ("sp_B.cfg", False), ("sp_D.cfg", "both")]
    if tier != "quick":
        jobs = [("sp_AT.cfg", False), ("sp_B.cfg", False), ("sp_BT.cfg", False), ("sp_D.cfg", "both"), ("sp_DT.cfg", False),
                ("sp_R.cfg", True)]  # fmt: skip
    old = {sig: signal.getsignal(sig) for _, sig in SIGS}
    # quick tier: the (small) TLC runs go side by side, their results are consumed in the fixed job order
    from concurrent.futures import ThreadPoolExecutor

    par = len(jobs) if tier == "quick" else 1
    pool = ThreadPoolExecutor(max_workers=par)
    futures = [
        pool.submit(tlc.run_tlc, "twisted", "MCSpinner", cfg, coverage=True, workers=8 if par == 1 else 4, timeout=1500, heap="4g")
        for cfg, _ in jobs
    ]
    pool.shutdown(wait=False)
    try:
        for (cfg, real), fut in zip(jobs, futures):
            r = fut.result()
            tlc.require_ok(r, "C15 " + cfg)
            acts = ACTIONS + (TWO_RUN if cfg not in ("sp_A.cfg", "sp_AT.cfg") else [])
            acts += ["EarlyStop"] if cfg.startswith("sp_D") else []
            tlc.require_coverage(r, acts, "C15 " + cfg)
            rep.add_tlc(r, cfg)
            behaviours = sorted(tlc.exported(r), key=jdump)
            if not behaviours:
                raise tlc.MachineryError("C15 %s exported no scenarios" % cfg)
            todo = [(False, h) for h in behaviours] if real is not True else []
            if real == "both":
                todo += [(True, h) for h in (real_sample2 if cfg.startswith("sp_D") else real_sample)(behaviours, rep.seed)]
            elif real:
                todo += [(True, h) for h in behaviours]
            gc.collect()
            first_real = True
            for idx, (is_real, hist) in enumerate(todo):
                idx2 = idx + rep.seed
                if is_real:
                    bad, obs, drifts = replay(hist, idx2, real=True, unit=0.04)
                    if bad:  # wall-clock noise is not a violation: it must reproduce with 4x wider gaps
                        bad, obs, drifts = replay(hist, idx2, real=True, unit=0.16)
                else:
                    bad, obs, drifts = replay(hist, idx2)
                nk = nontrivial_key(hist)
                rep.case(
                    sample={"reactor": "SelectReactor" if is_real else "virtual", "scenario": abstract(hist), "observed": obs}
                    if nk and (rep.evaluations % 4001 == 17 or (is_real and first_real))
                    else None,
                    nontrivial_key=(("real:" if is_real else "") + nk) if nk else None,
                )
                first_real = first_real and not (is_real and nk)
                rep.traces += 1
                for d in drifts:
                    rep.note_drift(d)
                seen = set()
                for runi, clause, exp, ob, key in bad:
                    sig = "%s:%s" % (clause, key)
                    if sig in seen:
                        continue
                    seen.add(sig)
                    rep.violation(
                        clause,
                        sig,
                        {"hist": hist[:runi], "idx": idx2, "real": is_real, "cfg": cfg},
                        expected=exp,
                        observed=ob,
                    )
    finally:
        for sig, hd in old.items():
            signal.signal(sig, hd)
    rep.exhaustive = True
    rep.extra["explanation"] = (
        "exhaustive over the scenario sets of spec/twisted/MCSpinner.tla (every scenario is an initial state; "
        "TLC checks the invariants on all of them and every one is replayed on the real Spinner)"
    )
    return rep.finish()


def replay_file(path, pid="C15"):
    import json

    use_repo()
    v = json.load(open(path))
    sc = v["scenario"]
    old = {sig: signal.getsignal(sig) for _, sig in SIGS}
    try:
        bad, obs, _ = replay(sc["hist"], sc["idx"], real=sc["real"], unit=0.16 if sc["real"] else 1)
    finally:
        for sig, hd in old.items():
            signal.signal(sig, hd)
    bad = [b for b in bad if b[1] == v["clause"]]
    if bad:
        print("VIOLATION property=C15 replay=%s" % path)
        for b in bad:
            print("  run=%s clause=%s expected=%r observed=%r" % b[:4])
        return 1
    print("replay: scenario conforms (observed %s)" % obs)
    return 0
