"""X09 - the testtools.run command line (TestProgram, TestToolsTestRunner, list_test).

Spec: spec/extra/RunCmd.tla.  TLC checks the steps of TestProgram.__init__ (parse, load names | discover + sort,
filter by the --load-list ids, list | run test by test under failfast, exit) against a meaning written over the command
line and the package tables only (ListMeaning, RunMeaning, ExitMeaning, SortedWhenDiscovered, LoadListRestricts,
ImportErrorNonZero, FailfastStops) and exports every behaviour of the bounded instance (+ random longer command lines).

The driver builds the synthetic package vx09pkg of the specification in a scratch directory (tests that pass / fail /
error / skip, a module that cannot be imported, a test_suite() callable and a load_tests hook that both return their tests
in reverse order) and executes every behaviour twice with the real testtools.run.TestProgram in-process (fresh
unittest.TestLoader, StringIO stdout, SystemExit caught): once untouched - stdout text, exit status, the order in which
test bodies ran, TestProgram.result - and once through an observing subclass that snapshots the options after parsing,
the ids loaded per name / discovered / after the discovery sort / handed to the runner, and every startTest.  Each step
of the behaviour is compared with the snapshot of the same step.  A few command lines also run as
`python -m testtools.run` child processes (process exit status).
"""

import io
import os
import random
import re
import shutil
import subprocess
import sys
import tempfile
import unittest

from . import tlc
from .common import BUILD, Report, jdump, repo_path, use_repo

PROPS = ("X09",)
ACTIONS = ["Parse", "LoadName", "Discover", "SortTests", "Filter", "ListTests", "StartRun", "RunOne", "StopRun"]
PKG = "vx09pkg"
NOEXIT = 99

IDS = {
    1: "unittest.loader._FailedTest.nomod",
    2: "unittest.loader._FailedTest.test_broken",
    3: "unittest.loader._FailedTest.%s.test_broken" % PKG,
    4: PKG + ".test_a.TA.test_1pass",
    5: PKG + ".test_a.TA.test_2fail",
    6: PKG + ".test_a.TA.test_3skip",
    7: PKG + ".test_a.TA.test_4err",
    8: PKG + ".test_l.TL.test_a",
    9: PKG + ".test_l.TL.test_b",
    10: PKG + ".test_ok.TO.test_x",
    11: PKG + ".test_ok.TO.test_y",
    12: PKG + ".test_s.TS.test_a",
    13: PKG + ".test_s.TS.test_b",
    14: PKG + ".test_a.TA.test_absent",
}
KINDS = {1: "imperr", 2: "imperr", 3: "imperr", 4: "pass", 5: "fail", 6: "skip", 7: "error", 8: "pass", 9: "error", 10: "pass", 11: "pass", 12: "skip", 13: "pass"}
SPECS = {
    "a": PKG + ".test_a",
    "ok": PKG + ".test_ok",
    "l": PKG + ".test_l",
    "s": PKG + ".test_s",
    "s.ts": PKG + ".test_s.test_suite",
    "broken": PKG + ".test_broken",
    "nomod": PKG + ".nomod",
    "a.TA": PKG + ".test_a.TA",
    "a.TA.2": PKG + ".test_a.TA.test_2fail",
    "l.TL.b": PKG + ".test_l.TL.test_b",
    "ok.TO.y": PKG + ".test_ok.TO.test_y",
}
PATTERNS = {"all": "test*.py", "al": "test_[al]*.py", "os": "test_[os]*.py", "bo": "test_[bo]*.py", "ls": "test_[ls]*.py"}
# name the loader reports for a failed import: names mode / discovery
ERRNAME = {"broken": "test_broken", "nomod": "nomod"}

SOURCES = {
    "__init__.py": "LOG = []\n",
    "test_a.py": """\
import testtools
from %(pkg)s import LOG
class TA(testtools.TestCase):
    def test_1pass(self):
        LOG.append(self.id())
    def test_2fail(self):
        LOG.append(self.id())
        self.fail("two is not one")
    def test_3skip(self):
        LOG.append(self.id())
        self.skipTest("not today")
    def test_4err(self):
        LOG.append(self.id())
        raise RuntimeError("four")
""",
    "test_broken.py": "import %(pkg)s_no_such_module_anywhere\n",
    "test_l.py": """\
import unittest
import testtools
from %(pkg)s import LOG
class TL(testtools.TestCase):
    def test_a(self):
        LOG.append(self.id())
    def test_b(self):
        LOG.append(self.id())
        raise KeyError("b")
def load_tests(loader, tests, pattern):
    return unittest.TestSuite([TL("test_b"), TL("test_a")])
""",
    "test_ok.py": """\
import testtools
from %(pkg)s import LOG
class TO(testtools.TestCase):
    def test_x(self):
        LOG.append(self.id())
    def test_y(self):
        LOG.append(self.id())
""",
    "test_s.py": """\
import unittest
import testtools
from %(pkg)s import LOG
class TS(testtools.TestCase):
    def test_a(self):
        LOG.append(self.id())
        self.skipTest("s.a")
    def test_b(self):
        LOG.append(self.id())
def test_suite():
    return unittest.TestSuite([TS("test_b"), TS("test_a")])
""",
}


class World:
    """The scratch directory with the package and the id files."""

    def __init__(self):
        os.makedirs(BUILD, exist_ok=True)
        self.top = tempfile.mkdtemp(prefix="x09-", dir=BUILD)
        self.pkgdir = os.path.join(self.top, PKG)
        os.mkdir(self.pkgdir)
        for name, src in SOURCES.items():
            with open(os.path.join(self.pkgdir, name), "w") as fh:
                fh.write(src % {"pkg": PKG})
        self.nfile = 0
        sys.path.insert(0, self.top)
        self.purge()

    def purge(self):
        for m in [m for m in sys.modules if m == PKG or m.startswith(PKG + ".")]:
            del sys.modules[m]

    def log(self):
        mod = sys.modules.get(PKG)
        return mod.LOG if mod is not None else []

    def idfile(self, ids, variant):
        """--load-list file: one id per line; blank first line / trailing blanks / CRLF / no final newline by variant."""
        self.nfile += 1
        path = os.path.join(self.top, "ids-%d.list" % self.nfile)
        lines = [IDS[i] for i in sorted(ids, reverse=bool(variant & 1))]
        if not lines:
            data = "" if variant % 2 == 0 else "\n"
        else:
            v = variant % 4
            if v == 0:
                data = "\n".join(lines) + "\n"
            elif v == 1:
                data = "\n" + "\n".join(lines) + "\n"  # the shape the repository's own tests use
            elif v == 2:
                data = "\r\n".join(l + "  " for l in lines) + "\r\n"
            else:
                data = "\n".join(lines)
        with open(path, "wb") as fh:
            fh.write(data.encode("utf-8"))
        return path

    def close(self):
        self.purge()
        if self.top in sys.path:
            sys.path.remove(self.top)
        shutil.rmtree(self.top, ignore_errors=True)


def argv_of(cmd, world, variant, idpath):
    flags = []
    if cmd["list"]:
        flags.append(["-l"] if variant & 1 else ["--list"])
    if cmd["ff"]:
        flags.append(["-f"] if variant & 2 else ["--failfast"])
    if idpath is not None:
        flags.append(["--load-list", idpath] if variant & 4 else ["--load-list=" + idpath])
    if variant & 8:
        flags.reverse()
    flat = [x for f in flags for x in f]
    if cmd["mode"] == "names":
        return ["prog"] + flat + [SPECS[n] for n in cmd["names"]]
    pat = PATTERNS[cmd["pat"]]
    if variant & 16:
        tail = [world.pkgdir, pat, world.top]  # positional: start, pattern, top
    else:
        tail = ["-s", world.pkgdir, "-t", world.top] + ([] if (cmd["pat"] == "all" and variant & 32) else ["-p", pat])
    return ["prog", "discover"] + flat + tail


def ids_of(test):
    from testtools.testsuite import iterate_tests

    return [t.id() for t in iterate_tests(test)]


class _LogProxy:
    """Forwards everything to the real result; records startTest."""

    def __init__(self, result, started):
        self.__dict__["_r"] = result
        self.__dict__["_started"] = started

    def __getattr__(self, name):
        return getattr(self.__dict__["_r"], name)

    def __setattr__(self, name, value):
        setattr(self.__dict__["_r"], name, value)

    def startTest(self, test):
        self.__dict__["_started"].append(test.id())
        return self.__dict__["_r"].startTest(test)


class _Tap:
    def __init__(self, test, started):
        self.test = test
        self.started = started

    def run(self, result):
        self.test.run(_LogProxy(result, self.started))
        return result


def execute(argv, world, observe):
    """One in-process invocation.  -> dict(out, code, log, result, snaps)"""
    from testtools import run

    snaps = {}
    started = []

    class Runner(run.TestToolsTestRunner):
        def list(self, test, loader):
            snaps["selected"] = ids_of(test)
            return super().list(test, loader)

        def run(self, test):
            snaps["selected"] = ids_of(test)
            return super().run(_Tap(test, started))

    class Probe(run.TestProgram):
        def createTests(self, from_discovery=False, Loader=None):
            snaps["opts"] = {"list": bool(self.listtests), "ff": bool(self.failfast), "ll": self.load_list}
            super().createTests(from_discovery=from_discovery, Loader=Loader)
            if from_discovery:
                snaps["discovered"] = ids_of(self.test)
            else:
                snaps["loaded"] = [ids_of(t) for t in self.test]
            snaps["nerr"] = len(self.testLoader.errors)

        def _do_discovery(self, argv, Loader=None):
            super()._do_discovery(argv, Loader=Loader)
            snaps["sorted"] = ids_of(self.test)

    del world.log()[:]
    out = io.StringIO()
    code = NOEXIT
    prog = None
    loader = unittest.TestLoader()
    try:
        if observe:
            prog = Probe(argv=list(argv), stdout=out, testLoader=loader, testRunner=Runner)
        else:
            prog = run.TestProgram(argv=list(argv), stdout=out, testLoader=loader)
    except SystemExit as ex:
        code = ex.code
    res = {"out": out.getvalue(), "code": code, "log": list(world.log()), "snaps": snaps, "started": started, "prog": prog}
    return res


def exit_int(code):
    if code == NOEXIT:
        return NOEXIT
    if code is None:
        return 0
    if isinstance(code, (bool, int)):
        return int(code)
    return "?%r" % (code,)


_RAN = re.compile(r"^Ran (\d+) tests? in ", re.M)


def parse_list_output(text, n):
    """-> (id lines, number of loader-error blocks, names the blocks mention)"""
    lines = text.split("\n")
    ids = lines[:n]
    rest = "\n".join(lines[n:])
    names = re.findall(r"^Failed to import test module: (\S+)$", rest, re.M)
    return ids, names, rest


def replay(hist, world, variant):
    """Return None or (step index, clause, expected, observed)."""
    cmd = hist[0]["arg"]
    ll = None if cmd["ll"] == [0] else cmd["ll"]
    idpath = world.idfile(ll, variant) if ll is not None else None
    argv = argv_of(cmd, world, variant, idpath)
    try:
        plain = execute(argv, world, observe=False)
        probe = execute(argv, world, observe=True)
    except tlc.MachineryError:
        raise
    except BaseException as ex:  # a well-formed command line never makes TestProgram raise anything but SystemExit
        return (len(hist) - 1, "raised", None, "%s: %s" % (type(ex).__name__, str(ex)[:200]))
    finally:
        if idpath:
            os.unlink(idpath)
    snaps = probe["snaps"]
    loaded_so_far = []
    nload = 0
    for i, h in enumerate(hist[1:], 1):
        a = h["a"]
        exp_ids = [IDS[x] for x in h["test"]]
        if a == "parse":
            exp = {"list": cmd["list"], "ff": cmd["ff"], "ll": idpath}
            if snaps.get("opts") != exp:
                return (i, "parse-options", exp, snaps.get("opts"))
        elif a == "load":
            got = snaps.get("loaded", [])
            nload += 1
            loaded_so_far = [x for part in got[:nload] for x in part]
            if loaded_so_far != exp_ids:
                return (i, "tests-of-names", exp_ids, loaded_so_far)
            if nload == len(cmd["names"]):
                if len(got) != nload:
                    return (i, "tests-of-names", exp_ids, got)
                if snaps.get("nerr") != h["nerr"]:
                    return (i, "import-errors-recorded", h["nerr"], snaps.get("nerr"))
        elif a == "discover":
            # the order in which unittest's discovery walks files is not testtools' business: compare as a multiset
            got = snaps.get("discovered")
            if got is None or sorted(got) != sorted(exp_ids):
                raise tlc.MachineryError("X09: discovery found %r, the specification's package has %r (%r)" % (got, exp_ids, argv))
            if snaps.get("nerr") != h["nerr"]:
                return (i, "import-errors-recorded", h["nerr"], snaps.get("nerr"))
        elif a == "sort":
            if snaps.get("sorted") != exp_ids:
                return (i, "discover-sorts-by-id", exp_ids, snaps.get("sorted"))
        elif a == "filter":
            if snaps.get("selected") != exp_ids:
                clause = "load-list-restricts" if ll is not None else "tests-handed-to-runner"
                return (i, clause, exp_ids, snaps.get("selected"))
        elif a == "list":
            want = [IDS[x] for x in h["out"]]
            for which, r in (("plain", plain), ("observed", probe)):
                ids, names, rest = parse_list_output(r["out"], len(want))
                if ids != want or (h["nerr"] == 0 and rest.strip()):
                    return (i, "list-ids", want, r["out"][:1500])
                if r["log"] or r["started"]:
                    return (i, "list-runs-nothing", [], r["log"] or r["started"])
                exp_names = expected_error_names(cmd)
                if sorted(names) != sorted(exp_names):
                    return (i, "list-reports-import-errors", exp_names, rest[:1500])
                if exit_int(r["code"]) != h["exit"]:
                    return (i, "list-exit-status", h["exit"], exit_int(r["code"]))
        elif a == "start":
            if not plain["out"].startswith("Tests running...\n"):
                return (i, "run-output", "Tests running...", plain["out"][:200])
        elif a == "run1":
            want = [IDS[x] for x in h["ran"]]
            got = probe["started"][: len(want)]
            if got != want:
                return (i, "run-order", want, got)
        elif a == "exit":
            want = [IDS[x] for x in h["ran"]]
            bodies = [IDS[x] for x in h["ran"] if KINDS[x] != "imperr"]
            if probe["started"] != want:
                clause = "failfast-stops" if cmd["ff"] and probe["started"][: len(want)] == want else "run-order"
                return (i, clause, want, probe["started"])
            for which, r in (("plain", plain), ("observed", probe)):
                if r["log"] != bodies:
                    clause = "failfast-stops" if cmd["ff"] and r["log"][: len(bodies)] == bodies else "run-order"
                    return (i, clause, bodies, r["log"])
                m = _RAN.search(r["out"])
                if not m or int(m.group(1)) != len(want):
                    return (i, "ran-count", len(want), r["out"][-200:])
                if exit_int(r["code"]) != h["exit"]:
                    return (i, "exit-status", h["exit"], exit_int(r["code"]))
            # outcome kinds are inputs: a disagreement is a broken package, not a defect of testtools.run
            bad_out = len(re.findall(r"^(?:ERROR|FAIL): ", plain["out"], re.M))
            if bad_out != h["nbad"]:
                raise tlc.MachineryError("X09: %d problem sections printed, the specification's package has %d (%r)" % (bad_out, h["nbad"], argv))
        else:
            raise tlc.MachineryError("X09: unknown action %r" % a)
    return None


def expected_error_names(cmd):
    if cmd["mode"] == "names":
        return [ERRNAME[n] for n in cmd["names"] if n in ERRNAME]
    matched = {"all": "ablos", "al": "al", "os": "os", "bo": "bo", "ls": "ls"}[cmd["pat"]]
    return [PKG + ".test_broken"] if "b" in matched else []


def subprocess_check(cmd, world, variant):
    """python -m testtools.run as a child process: (exit status, stdout) against the behaviour's last step."""
    ll = None if cmd["ll"] == [0] else cmd["ll"]
    idpath = world.idfile(ll, variant) if ll is not None else None
    argv = argv_of(cmd, world, variant, idpath)[1:]
    env = dict(os.environ, PYTHONPATH=repo_path() + os.pathsep + world.top, PYTHONDONTWRITEBYTECODE="1")
    p = subprocess.run([sys.executable, "-m", "testtools.run"] + argv, cwd=world.top, env=env, stdout=subprocess.PIPE, stderr=subprocess.PIPE, text=True, timeout=120)
    if idpath:
        os.unlink(idpath)
    return p.returncode, p.stdout, p.stderr


def shape(hist):
    cmd = hist[0]["arg"]
    s = []
    if cmd["mode"] == "discover":
        s.append("discover -p %s" % PATTERNS[cmd["pat"]])
    if cmd["list"]:
        s.append("--list")
    if cmd["ff"]:
        s.append("-f")
    if cmd["ll"] != [0]:
        s.append("--load-list{%s}" % ",".join(str(x) for x in cmd["ll"]))
    s += list(cmd["names"])
    return " ".join(s)


def nontrivial_key(hist):
    """Non-trivial: something is filtered out by the id file while something is kept, failfast cuts the run short, a failed
    import is involved, the discovery sort changes the order, or two names contribute tests."""
    cmd = hist[0]["arg"]
    steps = {h["a"]: h for h in hist[1:]}
    loaded = [h for h in hist[1:] if h["a"] in ("load", "discover")][-1]
    filt = steps["filter"]
    cut = 0 < len(filt["test"]) < len(loaded["test"])
    ffcut = (not cmd["list"]) and cmd["ff"] and len(hist[-1]["ran"]) < len(filt["test"])
    imp = loaded["nerr"] > 0
    resort = "sort" in steps and steps["sort"]["test"] != steps["discover"]["test"]
    two = len(cmd["names"]) >= 2 and len(filt["test"]) >= 2
    if cut or ffcut or imp or resort or two:
        return shape(hist)
    return None


def signature(hist, clause, observed):
    cmd = hist[0]["arg"]
    extra = ""
    if clause == "raised":
        extra = ":" + str(observed).split(":", 1)[0]
    bits = [cmd["mode"]]
    if clause in ("load-list-restricts",):
        bits.append("empty-file" if cmd["ll"] == [] else "ids")
    if clause in ("exit-status", "failfast-stops", "run-order", "ran-count"):
        bits.append("ff" if cmd["ff"] else "noff")
    if clause == "exit-status":
        kinds = sorted({KINDS[x] for x in hist[-1]["ran"] if KINDS[x] in ("fail", "error", "imperr")})
        bits.append("+".join(kinds) or "clean")
    if clause.startswith("list-"):
        bits.append("import-error" if hist[-1]["nerr"] else "clean")
    return "x09:%s:%s%s" % (clause, ":".join(bits), extra)


def run(tier, pid="X09"):
    use_repo()
    rep = Report(
        "X09",
        tier,
        "model_checking",
        "behaviours = one testtools.run command line each: 1..2 names out of 11 (1..3 out of 7 without id file; random: 3 out of 11) (modules, a class, methods, a "
        "test_suite() callable, a module with load_tests, a module that cannot be imported, a module that does not exist) or "
        "`discover` with one of 5 file patterns, x {run, run -f, --list} x {no --load-list, empty file, absent id, mixed "
        "present/absent ids, failed-import ids, ...}; exported by TLC (exhaustive within those bounds) or tlc -simulate; each "
        "executed twice with the real TestProgram (untouched and observed) and compared step by step; flag spellings, flag "
        "order, id-file layout and discover argument style vary with the seed. Non-trivial = the id file keeps some and drops "
        "some tests, failfast cuts the run short, a failed import is involved, the discovery sort reorders, or two names "
        "contribute tests; distinct by command line.",
    )
    rep.assume("each invocation gets a fresh unittest.TestLoader (the shared default loader keeps its errors list when TestProgram leaves through SystemExit, which only matters when TestProgram is called twice in one process)")
    rep.assume("the order in which unittest's discovery walks the files (before testtools sorts) is compared as a multiset; outcome kinds of the synthetic tests are inputs")
    rep.assume("a failed import is a test like any other for --load-list (its id unittest.loader._FailedTest.<name> can be listed in the file); a run restricted by an id file that does not name it is not required to fail")
    rep.assume("exit status: SystemExit.code False/True are the process statuses 0/1 (confirmed on child processes for a sample)")
    world = World()
    try:
        jobs = [
            ("rc_mc.cfg", {}, False),
            ("rc_exp.cfg", {}, True),
            ("rc_exp3.cfg", {}, True),
            ("rc_sim.cfg", dict(simulate=dict(num=60 if tier == "quick" else 2500, depth=25), seed=rep.seed + 1), True),
        ]
        rnd = random.Random(rep.seed)
        sub_pool = []
        for cfg, kw, export in jobs:
            r = tlc.run_tlc("extra", "MCRunCmd", cfg, coverage=True, timeout=600, workers=4, **kw)
            tlc.require_ok(r, "X09 " + cfg)
            if "simulate" not in kw:
                tlc.require_coverage(r, ACTIONS, "X09 " + cfg)
            rep.add_tlc(r, cfg)
            if not export:
                continue
            nb = 0
            for hist in tlc.exported(r):
                nb += 1
                nk = nontrivial_key(hist)
                variant = (rep.seed * 7 + nb * 5) % 64
                bad = replay(hist, world, variant)
                rep.case(sample={"command": shape(hist), "steps": [h["a"] for h in hist[1:]]} if nk and rep.evaluations % 700 == 13 else None, nontrivial_key=nk)
                rep.traces += 1
                if nk and cfg == "rc_exp.cfg" and rnd.random() < 0.01:
                    sub_pool.append(hist)
                if bad:
                    i, clause, exp, obs = bad
                    cut = hist[: i + 1]
                    rep.violation(clause, signature(hist, clause, obs), {"behaviour": cut, "variant": variant, "cfg": cfg}, expected=exp, observed=obs)
            if nb == 0:
                raise tlc.MachineryError("X09 %s exported no behaviours" % cfg)
        nsub = 0
        for hist in sub_pool[: 6 if tier == "quick" else 40]:
            cmd = hist[0]["arg"]
            code, out, err = subprocess_check(cmd, world, rep.seed % 64)
            if "ModuleNotFoundError: No module named 'testtools'" in err:
                raise tlc.MachineryError("X09 subprocess harness failure: %s" % err[-1500:])
            nsub += 1
            last = hist[-1]
            want = 0 if last["exit"] == NOEXIT else last["exit"]
            if code != want:
                rep.violation("process-exit-status", signature(hist, "exit-status" if not cmd["list"] else "list-exit-status", None) + ":process",
                              {"behaviour": hist, "subprocess": True}, expected=want, observed=(code, out[-400:], err[-400:]))
            if cmd["list"]:
                want_ids = [IDS[x] for x in last["out"]]
                if out.split("\n")[: len(want_ids)] != want_ids:
                    rep.violation("list-ids", signature(hist, "list-ids", None) + ":process", {"behaviour": hist, "subprocess": True}, expected=want_ids, observed=out[:1000])
        rep.extra["child_processes"] = nsub
    finally:
        world.close()
    if not rep.samples:
        rep.sample({"note": "see tlc_runs"})
    rep.exhaustive = False
    rep.extra["explanation"] = "exhaustive for rc_mc.cfg / rc_exp.cfg (bounds in spec/extra/rc_*.cfg); random for rc_sim.cfg; child processes are a sample"
    return rep.finish()


def replay_file(path, pid="X09"):
    import json

    use_repo()
    v = json.load(open(path))
    sc = v["scenario"]
    if sc.get("subprocess"):
        print("replay: child-process scenarios are replayed by re-running the check")
        return 0
    world = World()
    try:
        hist = sc["behaviour"]
        bad = replay(hist, world, sc.get("variant", 0))
    finally:
        world.close()
    if bad:
        print("VIOLATION property=X09 replay=%s" % path)
        print("  step=%s clause=%s expected=%r observed=%r" % bad)
        return 1
    print("replay: behaviour conforms")
    return 0
