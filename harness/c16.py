"""C16 - Content is lossless and independent of chunking.

Spec: spec/pure/Content.tla, six small machines selected by the constant Machine:
  read    the _iter_chunks read loop behind content_from_stream / content_from_file (Create, IterBytes, Enter, Open,
          Seek, Read, Yield, Stop, IterBuffered, Mutate) - replayed against an instrumented stream / an instrumented
          open() that log every seek/read; verdict on the bytes (offset..EOF), the chunk bounds and laziness;
          the exact call sequence is compared too and reported as DRIFT only (the property does not fix it)
  decode  the incremental decoder of Content.iter_text fed chunk by chunk - every valid unit string x every cutting
  ctype   ContentType render / parse round trip (oracle: ContentType.__eq__ after _make_content_type(repr(ct)))
  snap    copies made when details are gathered vs later changes of the source
  dechist HISTORIES of iter_text()/as_text() calls over two contents of one charset: generators started, advanced with
          next(), abandoned mid-way, whole decodes, truncated contents whose decode raises - a completed decode of a valid
          content equals the decode of its whole bytes whatever happened to other iterations (per-iteration decoder state)
  eq      Content.__eq__ rows;  text  text_content / json_content rows over a class alphabet
TLC checks each machine's mechanism against its meaning and exports every behaviour / row of the bounded instance;
each is executed against the real code (concretised with seeded representatives per class).
"""

import json
import os
import random
import tempfile
from concurrent.futures import ThreadPoolExecutor

from . import tlc
from .common import BUILD, Report, jdump, use_repo

PROPS = ("C16",)

# ---------------------------------------------------------------------------------------------------------
# read loop


def conc_bytes(vals):
    return bytes(32 + v for v in vals)


class Source:
    """Mutable byte store shared by the instrumented stream / the file on disk."""

    def __init__(self, data, path=None):
        self.path = path
        self.set(data)

    def set(self, data):
        self.data = bytes(data)
        if self.path:
            with open(self.path, "wb") as fh:
                fh.write(self.data)


class VStream:
    """File-like object over a Source; logs every seek/read; read() returns at most `cap` bytes."""

    def __init__(self, src, log, cap, pos=0):
        self.src, self.log, self.cap, self.pos = src, log, cap, pos

    def seek(self, offset, whence=0):
        self.log.append(["seek", offset, whence])
        if whence == 0:
            if offset < 0:
                raise ValueError("negative seek value %r" % offset)
            self.pos = offset
        elif whence == 1:
            self.pos = max(0, self.pos + offset)
        else:
            self.pos = max(0, len(self.src.data) + offset)
        return self.pos

    def tell(self):
        return self.pos

    def read(self, n=-1):
        data = self.src.data
        if n is None or n < 0:
            r = data[self.pos :]
        else:
            r = data[self.pos : self.pos + min(n, self.cap)]
        self.pos += len(r)
        self.log.append(["read", n, len(r)])
        return r


class VFile:
    """What the instrumented open() returns: a real file object whose seek/read/close are logged."""

    def __init__(self, fh, log):
        self.fh, self.log = fh, log
        log.append(["open", 0, 0])

    def __enter__(self):
        return self

    def __exit__(self, *a):
        self.close()
        return False

    def close(self):
        if not self.fh.closed:
            self.log.append(["close", 0, 0])
        self.fh.close()

    def seek(self, offset, whence=0):
        self.log.append(["seek", offset, whence])
        return self.fh.seek(offset, whence)

    def read(self, n=-1):
        r = self.fh.read(n)
        self.log.append(["read", n, len(r)])
        return r

    def __getattr__(self, name):
        return getattr(self.fh, name)


def exp_calls(calls):
    return [[c["op"], c["a"], c["b"]] for c in calls]


def replay_read(beh, tmpdir, drift):
    """Returns None or (clause, expected, observed)."""
    from testtools import content as tc

    sc = beh["init"]
    k, bnow, kind = sc["k"], sc["bnow"], sc["kind"]
    log = []
    data0 = conc_bytes(range(1, sc["n"] + 1))
    kw = dict(chunk_size=k, buffer_now=bnow)
    if sc["seek"]["on"]:
        kw["seek_offset"] = sc["seek"]["off"]
        kw["seek_whence"] = sc["seek"]["wh"]
    content = None
    it = None
    niter = 0
    mark = 0  # seek/read calls made at the last point where no further source access was allowed

    def touched():
        return [c for c in log if c[0] in ("seek", "read")]

    try:
        if kind == "file":
            path = os.path.join(tmpdir, "c16-read.bin")
            src = Source(data0, path)
            real_open = open

            def vopen(p, mode="r", *a, **k2):
                fh = real_open(p, mode, *a, **k2)
                return VFile(fh, log) if p == path else fh

            tc.open = vopen
        else:
            src = Source(data0)
            stream = VStream(src, log, sc["cap"], sc["pos0"])
        for h in beh["hist"]:
            a = h["a"]
            if a == "Create":
                if kind == "file" and not sc["seek"]["on"] and (sc["n"] + k) % 2 == 0:
                    # the same through attach_file(...) + getDetails()
                    import testtools

                    class _T(testtools.TestCase):
                        def test_it(self):
                            pass

                    case = _T("test_it")
                    tc.attach_file(case, path, name="c16", chunk_size=k, buffer_now=bnow)
                    content = case.getDetails()["c16"]
                elif kind == "file":
                    content = tc.content_from_file(path, **kw)
                else:
                    content = tc.content_from_stream(stream, **kw)
                if not bnow and touched():
                    return ("lazy-no-read-at-creation", [], list(log))
                mark = len(touched())
            elif a == "Mutate":
                src.set(conc_bytes(h["data"]))
            elif a == "IterBytes":
                it = iter(content.iter_bytes())
                if len(touched()) != mark:
                    return ("lazy-no-read-before-iteration", mark, list(log))
            elif a == "Stop" and h["sink"] == "buf":
                # creation of a buffered content is over: the calls it made
                if exp_calls(h["calls"]) != log:
                    drift("read loop call sequence (buffer_now): spec %r code %r" % (exp_calls(h["calls"]), log))
                mark = len(touched())
            elif a in ("Stop", "IterBuffered"):
                chunks = list(it) if a == "Stop" else list(content.iter_bytes())
                want = conc_bytes(h["bytes"])
                if any(len(c) == 0 or len(c) > k for c in chunks):
                    return ("chunk-bounds", "1..%d" % k, [len(c) for c in chunks])
                if b"".join(chunks) != want:
                    if niter > 0 and kind == "stream" and not sc["seek"]["on"] and not bnow:
                        # what a SECOND iteration over a stream yields when no offset was requested is not named
                        # by the property (the code reads on from where the stream stands, i.e. nothing)
                        drift("re-iteration of an unseeked stream: spec %r code %r" % (want, b"".join(chunks)))
                    else:
                        return ("bytes-offset-to-eof", want, b"".join(chunks))
                niter += 1
                if a == "IterBuffered":
                    if len(touched()) != mark:
                        return ("buffered-no-read-after-creation", mark, list(log))
                else:
                    if exp_calls(h["calls"]) != log:
                        drift("read loop call sequence: spec %r code %r" % (exp_calls(h["calls"]), log))
                    mark = len(touched())
                if [conc_bytes(c) for c in h["chunks"]] != chunks:
                    drift("read loop chunk boundaries: spec %r code %r" % (h["chunks"], chunks))
            # Enter / Open / Seek / Read / Yield happen inside the real call made at Create or at Stop
    finally:
        if kind == "file":
            try:
                del tc.open
            except AttributeError:
                pass
    return None


def read_signature(beh, clause):
    sc = beh["init"]
    seek = "noseek" if not sc["seek"]["on"] else ("set" if sc["seek"]["wh"] == 0 else "end")
    return "read:%s:%s:%s:%s" % (clause, sc["kind"], "buffer_now" if sc["bnow"] else "lazy", seek)


def read_nontrivial(beh):
    sc = beh["init"]
    return sc["n"] > 0 and (sc["seek"]["on"] or sc["cap"] < sc["k"] or sc["sc"] != "once" or sc["n"] % sc["k"] == 0)


# ---------------------------------------------------------------------------------------------------------
# decoder

REPS = {
    1: ["a", "\x00", "Z", "\n", "~"],
    2: ["\u00e9", "\u0301", "\u00df", "\u07ff", "\u0080"],  # incl. a combining mark
    3: ["\u4e00", "\u20ac", "\u20d7", "\uffff", "\u0800"],  # incl. a combining mark
    4: ["\U0001f600", "\U00010348", "\U0010ffff", "\U00010000"],
}
EXTRA_CODECS = ("utf-16", "utf-32", "utf-16-be", "utf-8-sig", "gb18030")


def pick(seq, rnd):
    return seq[rnd.randrange(len(seq))]


def cut(data, lens):
    out, p = [], 0
    for n in lens:
        out.append(data[p : p + n])
        p += n
    return out


def check_text(chunks, params, want):
    """as_text()/iter_text() of a text content over `chunks`; None or (clause, expected, observed)."""
    from testtools.content import Content
    from testtools.content_type import ContentType

    c = Content(ContentType("text", "plain", params), lambda: list(chunks))
    try:
        got = c.as_text()
        got2 = "".join(c.iter_text())
    except Exception as ex:
        return ("as_text-raised", want, repr(ex))
    if got != want:
        return ("as_text-equals-decode-of-whole", want, got)
    if got2 != want:
        return ("iter_text-equals-decode-of-whole", want, got2)
    return None


def replay_decode(beh, rnd, drift):
    """Yields (label, bad) for each concretisation."""
    sc = beh["init"]
    flush = beh["hist"][-1]
    chars = flush["text"]  # list of characters, each a list of units
    if sc["mode"] == "utf8":
        text = "".join(pick(REPS[len(ch)], rnd) for ch in chars)
        data = text.encode("utf-8")
        if len(data) != len(sc["units"]):
            raise tlc.MachineryError("C16 decode: concretisation does not respect the unit shape")
        chunks = cut(data, sc["cuts"])
        name = pick(["utf8", "utf-8", "UTF-8"], rnd)
        if data.decode("utf-8") != text:
            raise tlc.MachineryError("C16 decode: oracle disagreement")
        yield name, check_text(chunks, {"charset": name}, text), chunks
        # pieces per Feed: informative only
        # the same text in other declared charsets, cut at the proportional places and at every byte
        for cs in EXTRA_CODECS:
            d2 = text.encode(cs)
            pos, acc = [], 0
            for n in sc["cuts"]:
                acc += n
                pos.append((acc * len(d2)) // max(1, len(data)))
            lens = [b - a for a, b in zip([0] + pos[:-1], pos)]
            if lens:
                lens[-1] += len(d2) - sum(lens)
            ch2 = cut(d2, lens) if lens else ([d2] if d2 else [])
            if b"".join(ch2) != d2:
                raise tlc.MachineryError("C16 decode: bad proportional cut")
            yield cs, check_text(ch2, {"charset": cs}, text), ch2
        if len(data) <= 6:
            yield "utf-16/bytewise", check_text([bytes([b]) for b in text.encode("utf-16")] + [b""], {"charset": "utf-16"}, text), None
    else:
        # no charset declared: ISO-8859-1, every byte is a character - the very bytes that would be UTF-8 sequences
        byte_of = {"A": [0x41, 0x00, 0x7F], "L2": [0xC3, 0xDF], "L3": [0xE2, 0xEF], "L4": [0xF0, 0xF4], "C": [0xA9, 0x80, 0xBF]}
        data = bytes(pick(byte_of[u], rnd) for u in sc["units"])
        text = data.decode("iso-8859-1")
        if len(text) != len(chars):
            raise tlc.MachineryError("C16 decode: latin-1 shape")
        chunks = cut(data, sc["cuts"])
        yield "none", check_text(chunks, {}, text), chunks
        yield "none+param", check_text(chunks, {"language": "python"}, text), chunks


def decode_nontrivial(sc):
    """A cut strictly inside a multi-byte sequence, or an empty chunk."""
    units, p, inside = sc["units"], 0, False
    for n in sc["cuts"][:-1]:
        p += n
        if 0 < p < len(units) and units[p] == "C":
            inside = True
    return inside or any(n == 0 for n in sc["cuts"])


# ---------------------------------------------------------------------------------------------------------
# decoder histories: several iter_text() generators / as_text() calls over two contents of one charset


def conc_content(cn, rnd):
    """(chunks, expected text or None) for an abstract content; a truncated one ends inside a character."""
    units = cn["units"]
    groups, cur = [], []
    for u in units:
        if u != "C" and cur:
            groups.append(cur)
            cur = []
        cur.append(u)
    if cur:
        groups.append(cur)
    need = {"A": 1, "L2": 2, "L3": 3, "L4": 4}
    data, text = b"", ""
    for g in groups:
        ch = pick(REPS[need[g[0]]], rnd)
        enc = ch.encode("utf-8")
        data += enc[: len(g)]
        if len(g) == len(enc):
            text += ch
    if len(data) != len(units):
        raise tlc.MachineryError("C16 dechist: concretisation does not respect the unit shape")
    if cn["valid"]:
        if data.decode("utf-8") != text:
            raise tlc.MachineryError("C16 dechist: oracle disagreement")
    else:
        try:
            data.decode("utf-8")
        except UnicodeDecodeError:
            text = None
        else:
            raise tlc.MachineryError("C16 dechist: a truncated content decodes")
    return cut(data, cn["cuts"]), text


def replay_dechist(beh, rnd, drift, charset="utf8"):
    """Replays StartIter / NextChunk / Abandon / DecodeAll on two real Content objects of one charset.
    Verdict only on VALID contents: a completed as_text() / a generator driven to its end yields the decode of that
    content's whole bytes; it never raises.  Returns None or (step, clause, expected, observed)."""
    from testtools.content import Content
    from testtools.content_type import ContentType

    conts, texts, valid = {}, {}, {}
    for i, cn in enumerate(beh["init"]["cont"]):
        chunks, text = conc_content(cn, rnd)
        conts[i + 1] = Content(ContentType("text", "plain", {"charset": charset}), lambda chunks=chunks: list(chunks))
        texts[i + 1] = text
        valid[i + 1] = cn["valid"]
    gens, pieces = {}, {}
    for n, h in enumerate(beh["hist"]):
        a, c = h["a"], h["c"]
        if a == "StartIter":
            gens[c] = conts[c].iter_text()
            pieces[c] = []
        elif a == "Abandon":
            g = gens.pop(c, None)
            if g is not None:
                g.close()
                del g
        elif a == "DecodeAll":
            try:
                got = conts[c].as_text()
            except Exception as ex:
                got = ex
            if valid[c]:
                if isinstance(got, Exception):
                    return (n, "as_text-of-valid-content-raised-after-history", texts[c], repr(got))
                if got != texts[c]:
                    return (n, "as_text-equals-decode-of-whole-after-history", texts[c], got)
            elif not isinstance(got, Exception):
                drift("dechist: a truncated content decoded without error: %r" % (got,))
        elif a == "NextChunk":
            g = gens.get(c)
            if g is None:
                continue  # the real generator ended earlier than the model's (granularity is not compared)
            try:
                got = next(g)
                ended = False
            except StopIteration:
                got, ended = None, True
            except Exception as ex:
                got, ended = ex, True
            if isinstance(got, Exception):
                gens.pop(c, None)
                if valid[c]:
                    return (n, "iter_text-of-valid-content-raised-after-history", texts[c], repr(got))
                continue
            if not ended:
                pieces[c].append(got)
                if h["res"] != "stop":
                    continue
                # the model is at its end: drain what the real generator still has
                try:
                    pieces[c].extend(g)
                except Exception as ex:
                    gens.pop(c, None)
                    if valid[c]:
                        return (n, "iter_text-of-valid-content-raised-after-history", texts[c], repr(ex))
                    continue
                ended = True
            gens.pop(c, None)
            if valid[c]:
                if h["res"] != "stop":
                    # ended before the model did: compare at once, the bytes are all consumed or lost
                    pass
                if "".join(pieces[c]) != texts[c]:
                    return (n, "iter_text-equals-decode-of-whole-after-history", texts[c], "".join(pieces[c]))
    for g in gens.values():
        g.close()
    return None


def dechist_nontrivial(beh):
    """Some iteration was left incomplete (raised, abandoned, or still suspended) before a later decode ran."""
    live, dirty = set(), False
    for h in beh["hist"]:
        if h["a"] == "StartIter":
            live.add(h["c"])
        elif h["a"] == "Abandon":
            live.discard(h["c"])
            dirty = True
        elif h.get("res") in ("raise",):
            live.discard(h["c"])
            dirty = True
        elif h.get("res") == "stop":
            live.discard(h["c"])
        if h["a"] in ("DecodeAll", "NextChunk") and (dirty or len(live - {h["c"]}) > 0):
            return True
    return False


# ---------------------------------------------------------------------------------------------------------
# content type

CLASS_REPS = {
    "alnum": ["a", "Z", "7", "q"],
    "space": [" "],
    "semi": [";"],
    "eq": ["="],
    "slash": ["/"],
    "comma": [","],
    "bslash": ["\\"],
    "nonascii": ["\u00e9", "\u4e00", "\U0001f600", "\u0301"],
}


def ct_roundtrip(type_, subtype, params):
    """None if the type survives render + parse, else a description."""
    from testtools.content_type import ContentType
    from testtools.testresult.real import _make_content_type

    ct = ContentType(type_, subtype, dict(params))
    mime = repr(ct)
    try:
        back = _make_content_type(mime)
    except Exception as ex:
        return {"mime": mime, "raised": repr(ex)}
    if back == ct and ct == back:
        return None
    return {"mime": mime, "parsed": [back.type, back.subtype, dict(back.parameters)]}


def ct_minimise(type_, subtype, params):
    """Delete parameters / characters while the round trip still fails; returns the minimal params."""
    cur = dict(params)
    changed = True
    while changed:
        changed = False
        for name in sorted(cur):
            cand = {k: v for k, v in cur.items() if k != name}
            if ct_roundtrip(type_, subtype, cand):
                cur, changed = cand, True
                break
            v = cur[name]
            for i in range(len(v)):
                cand = dict(cur)
                cand[name] = v[:i] + v[i + 1 :]
                if ct_roundtrip(type_, subtype, cand):
                    cur, changed = cand, True
                    break
            if changed:
                break
    return cur


def class_of_char(ch):
    for c, reps in CLASS_REPS.items():
        if ch in reps:
            return c
    return "other"


def ct_signature(type_, subtype, params):
    small = ct_minimise(type_, subtype, params)
    if not small:
        return "ctype-roundtrip:type:%s/%s" % (type_, subtype), small
    parts = []
    for name in sorted(small):
        generic = ct_roundtrip("text", "plain", {"a": small[name]}) is not None
        parts.append("%s=%s" % ("param" if generic or name != "charset" else "charset",
                                "+".join(class_of_char(ch) for ch in small[name]) or "empty"))
    return "ctype-roundtrip:" + ",".join(parts), small


def replay_ctype(beh, rnd):
    """Yields (params, indomain, bad, spec_parsed) for two concretisations."""
    r, p = beh["hist"]
    for _ in range(2):
        conc = {}
        for prm in r["params"]:
            if prm["has"]:
                conc[prm["name"]] = "".join(pick(CLASS_REPS[c], rnd) for c in prm["val"])
        yield conc, r["indomain"], ct_roundtrip(r["type"], r["subtype"], conc)


def ctype_nontrivial(r):
    return any(prm["has"] and any(c != "alnum" for c in prm["val"]) for prm in r["params"])


# ---------------------------------------------------------------------------------------------------------
# snapshot


def sn_bytes(vals):
    return bytes(48 + v for v in vals)


def replay_snap(beh):
    import fixtures
    import testtools
    from testtools import testcase
    from testtools.content import Content
    from testtools.content_type import ContentType

    hist = beh["hist"]
    ctype = ContentType("application", "x-snap", {"k": "v"})
    chunks = [sn_bytes(c) for c in hist[0]["src"]]  # THE list the source serves (mutated in place later)
    src = Content(ctype, lambda: chunks)
    copies = []
    vias = []
    for i, h in enumerate(hist):
        if h["a"] == "Gather":
            vias.append(h["via"])
            if h["via"] == "copy_content":
                copies.append(testcase._copy_content(src))
            elif h["via"] == "gather_details":
                target = {"d": Content(ctype, lambda: [b"other"])}
                testcase.gather_details({"d": src}, target)
                copies.append(target["d-1"])
            else:

                class Fx(fixtures.Fixture):
                    def _setUp(self):
                        self.addDetail("d", src)

                class T(testtools.TestCase):
                    def test_it(self):
                        self.useFixture(Fx())

                case = T("test_it")
                case.run(testtools.TestResult())
                copies.append(case.getDetails()["d"])
        else:
            chunks[:] = [sn_bytes(c) for c in h["src"]]
        for j, want in enumerate(h["copies"]):
            got = b"".join(copies[j].iter_bytes())
            if got != sn_bytes(want):
                return (i, "copy-is-snapshot", sn_bytes(want), got, vias[j])
            if copies[j].content_type != ctype:
                return (i, "copy-keeps-type", repr(ctype), repr(copies[j].content_type), vias[j])
    return None


# ---------------------------------------------------------------------------------------------------------
# equality, text, json

TEXT_REPS = {
    "ascii": ["a", "~", " "],
    "nul": ["\x00"],
    "latin": ["\u00e9", "\u00ff", "\u0080"],
    "combining": ["\u0301", "\u0308"],
    "bmp": ["\u4e00", "\u20ac", "\ud7ff", "\ufffd", "\u2028"],
    "astral": ["\U0001f600", "\U0010ffff", "\U00010000"],
    "quote": ['"'],
    "bslash": ["\\"],
    "newline": ["\n", "\r", "\t"],
}


_USER = []


def user_content_class():
    from testtools.content import Content

    if not _USER:

        class UserContent(Content):
            """A trivial user subclass of Content."""

        _USER.append(UserContent)
    return _USER[0]


def make_operand(kind, ctype, chunks):
    from testtools import testcase
    from testtools.content import Content

    cls = user_content_class() if kind in ("subclass", "subsnapshot") else Content
    c = cls(ctype, lambda: list(chunks))
    if kind in ("snapshot", "subsnapshot"):
        c = testcase._copy_content(c)  # what gather_details keeps
    return c


def eq_observed(x, y):
    """(x == y, y == x, not x != y, not y != x)"""
    return (bool(x == y), bool(y == x), not bool(x != y), not bool(y != x))


def check_eq_row(r):
    from testtools.content_type import ContentType

    types = {
        1: lambda: ContentType("text", "plain", {"charset": "utf8"}),
        2: lambda: ContentType("text", "plain"),
        3: lambda: ContentType("application", "octet-stream"),
        4: lambda: ContentType("text", "x-other", {"charset": "utf8"}),
    }
    b = {1: b"x", 2: b"\xc3"}
    row = r["row"]
    c1 = [bytes(b[v][0] for v in ch) for ch in row["c1"]]
    c2 = [bytes(b[v][0] for v in ch) for ch in row["c2"]]
    x = make_operand(row.get("k1", "plain"), types[row["t1"]](), c1)
    y = make_operand(row.get("k2", "plain"), types[row["t2"]](), c2)
    got = eq_observed(x, y)
    if got != (r["equal"],) * 4:
        return ("eq-is-type-and-bytes", r["equal"], got)
    return None


def check_eq_stock():
    """The stock subclasses (TracebackContent, StackLinesContent via StacktraceContent) against a plain Content rebuilt
    from type + bytes and against their gather_details snapshot: equal iff type and bytes are (rule of the eq rows).
    Yields (label, bad)."""
    import sys

    from testtools import testcase
    from testtools.content import Content, StacktraceContent, TracebackContent
    from testtools.content_type import ContentType

    try:
        raise ValueError("c16 \u00e9")
    except ValueError:
        tb = TracebackContent(sys.exc_info(), None)
    st = StacktraceContent("pre\u4e00", "post")
    for name, c in (("TracebackContent", tb), ("StacktraceContent", st)):
        data = b"".join(c.iter_bytes())
        ct = ContentType(c.content_type.type, c.content_type.subtype, dict(c.content_type.parameters))
        other_type = ContentType("text", "plain", {"charset": "utf8"})
        target = {}
        testcase.gather_details({"d": c}, target)
        cases = [
            ("rebuilt-one-chunk", Content(ct, lambda: [data]), True),
            ("rebuilt-bytewise", Content(ct, lambda: [data[i : i + 1] for i in range(len(data))] + [b""]), True),
            ("snapshot", target["d"], True),
            ("copy_content", testcase._copy_content(c), True),
            ("other-bytes", Content(ct, lambda: [data + b"!"]), False),
            ("other-type", Content(other_type, lambda: [data]), False),
            ("user-subclass", user_content_class()(ct, lambda: [data[:3], data[3:]]), True),
        ]
        for label, other, want in cases:
            got = eq_observed(c, other)
            yield name + ":" + label, (None if got == (want,) * 4 else ("eq-is-type-and-bytes", want, got))


def check_text_value(s, nbytes=None):
    from testtools.content import text_content
    from testtools.content_type import UTF8_TEXT

    c = text_content(s)
    data = b"".join(c.iter_bytes())
    if nbytes is not None and len(s.encode("utf8")) != nbytes:
        raise tlc.MachineryError("C16 text: concretisation does not respect the class shape")
    if data != s.encode("utf8"):
        return ("text_content-bytes", s.encode("utf8"), data)
    if c.content_type != UTF8_TEXT:
        return ("text_content-type", repr(UTF8_TEXT), repr(c.content_type))
    if c.as_text() != s or "".join(c.iter_text()) != s:
        return ("text_content-roundtrip", s, c.as_text())
    return None


def json_shapes(s):
    return [s, [s, s], {s: [s]}, {"k": s, "n": 1, "z": None, "b": True, "f": 1.5, "l": [[s], {}]}]


def check_json_value(obj):
    from testtools.content import json_content
    from testtools.content_type import JSON

    c = json_content(obj)
    data = b"".join(c.iter_bytes())
    try:
        back = json.loads(data.decode("utf8"))
    except Exception as ex:
        return ("json_content-roundtrip", obj, repr(ex))
    if back != obj:
        return ("json_content-roundtrip", obj, back)
    if c.content_type != JSON:
        return ("json_content-type", repr(JSON), repr(c.content_type))
    return None


def random_text(rnd):
    n = rnd.randrange(0, 12)
    out = []
    for _ in range(n):
        region = rnd.randrange(6)
        if region == 0:
            cp = rnd.randrange(0, 0x80)
        elif region == 1:
            cp = rnd.randrange(0x80, 0x800)
        elif region == 2:
            cp = rnd.choice([rnd.randrange(0x800, 0xD800), rnd.randrange(0xE000, 0x10000)])
        elif region == 3:
            cp = rnd.randrange(0x10000, 0x110000)
        elif region == 4:
            cp = rnd.randrange(0x300, 0x370)  # combining diacriticals
        else:
            cp = 0
        out.append(chr(cp))
    return "".join(out)


# ---------------------------------------------------------------------------------------------------------

def guarded(fn, *args):
    """An exception out of the code under test is an observation (clause <fn>-raised), not a harness failure."""
    try:
        return fn(*args)
    except tlc.MachineryError:
        raise
    except Exception as ex:
        return (fn.__name__.replace("check_", "").replace("_value", "") + "-raised", "no exception", repr(ex))


READ_ACTIONS = ["Create", "Mutate", "IterBytes", "IterBuffered", "Enter", "Open", "Seek", "Read", "Yield", "Stop"]


def run(tier, pid="C16"):
    use_repo()
    rep = Report(
        "C16",
        tier,
        "exploration",
        "inputs enumerated by TLC from spec/pure/Content.tla, exhaustive up to the bounds of the ct_*.cfg files: "
        "read-loop scenarios (length x chunk size x seek origin/offset before-at-after EOF x buffer_now x stream/file x "
        "short reads x iterate once | twice | source appended-truncated-rewritten before the first or between two complete iterations), decoder inputs (every valid UTF-8-shaped unit string x every cutting "
        "incl. empty chunks; no-charset = ISO-8859-1), decoder histories (every sequence of StartIter/NextChunk/Abandon/"
        "DecodeAll calls up to the bound over two contents of one charset, truncated contents included; deeper ones by "
        "tlc -simulate), ContentType parameter sets over the class alphabet, gather/mutate "
        "behaviours, equality rows (type x bytes x chunking), text/json rows over a class alphabet; each concretised with "
        "seeded representatives and executed against the real code, expected value from the spec. One evaluation = one "
        "(input, concretisation). Non-trivial: read = something to read and (seek | short read | re-iteration | mutation "
        "| length multiple of chunk size); decode = a cut inside a multi-byte sequence or an empty chunk; dechist = a decode that runs after "
        "another iteration was abandoned, raised or is still suspended; ctype = a "
        "parameter value with a non-alphanumeric class; snap = a mutation after a gather; eq = differing chunkings or operand kinds (plain / subclass / snapshot); "
        "text = a non-ASCII / NUL / escaped class. Distinct by input.",
    )
    rep.assume("seek targets are positions >= 0 (offset >= 0 from the start, >= -len from the end); negative targets are outside the domain")
    rep.assume("the exact seek/read call sequence and chunk boundaries are not fixed by the property: differences are DRIFT, "
               "the verdict is on bytes, chunk bounds (1..chunk_size) and on no source access before iteration / after buffering")
    rep.assume("ContentType domain: lower-case token type/subtype, lower-case token parameter names, values free of ' and \"; "
               "a charset value containing a comma is executed but kept out of the verdict (documented work-around in _make_content_type)")
    rep.assume("texts exclude lone surrogates (not encodable as UTF-8)")
    rep.assume("decoder histories: verdict only on VALID contents (completed as_text() / completed iteration equals the decode "
               "of the content's whole bytes and does not raise); what a truncated content does is DRIFT; the number of "
               "pieces a generator yields is not compared")
    rep.assume("what a second iteration over a stream yields when no seek offset was requested is not compared (DRIFT only); "
               "a stream handed over at a position > 0 without seek offset is expected to be read from that position")
    rnd = random.Random(rep.seed)
    drifts = set()

    samples, seen = {}, {}

    def smp(machine, obj, nth):
        """keep the nth non-trivial case of each machine as the written-out sample"""
        seen[machine] = seen.get(machine, 0) + 1
        if seen[machine] == nth or machine not in samples:
            samples[machine] = obj

    def drift(text):
        key = text.split(":")[0]
        if key not in drifts:
            drifts.add(key)
            rep.note_drift("C16 " + text[:300])

    tmpdir = tempfile.mkdtemp(prefix="c16-", dir=BUILD if os.path.isdir(BUILD) else None)
    big = tier != "quick"
    pool = None
    try:
        # All TLC runs of this check are independent and mostly JVM start-up: they are started ahead, a few at a
        # time, and consumed in order.
        sim_kw = dict(simulate=dict(num=120 if not big else 3000, depth=12), seed=rep.seed + 5)
        plan = [("ct_coded_ctype.cfg", False, {}), ("ct_neg_snap.cfg", False, {}),
                ("ct_mc_read.cfg" if not big else "ct_mc_read_big.cfg", False, {}),
                ("ct_exp_read.cfg" if not big else "ct_exp_read_big.cfg", True, {}),
                ("ct_mc_decode.cfg", False, {}), ("ct_exp_decode.cfg" if not big else "ct_exp_decode_big.cfg", True, {}),
                ("ct_neg_dechist.cfg", False, {}), ("ct_mc_dechist.cfg", False, {}),
                ("ct_exp_dechist.cfg" if not big else "ct_exp_dechist_big.cfg", True, {}), ("ct_sim_dechist.cfg", False, sim_kw),
                ("ct_exp_ctype_one.cfg", True, {}), ("ct_exp_ctype_pairs.cfg", True, {}), ("ct_exp_ctype_triple.cfg", True, {})]
        if big:
            plan.append(("ct_exp_ctype_one3.cfg", True, {}))
        plan += [("ct_exp_snap.cfg", True, {}), ("ct_exp_eq.cfg", False, {}), ("ct_exp_eq_kinds.cfg", False, {}),
                 ("ct_exp_text.cfg" if not big else "ct_exp_text_big.cfg", False, {})]
        pool = ThreadPoolExecutor(max_workers=3 if not big else 2)
        futures = {}
        for cfg, cov, kw in plan:
            futures[cfg] = pool.submit(tlc.run_tlc, "pure", "MCContent", cfg, workers=4, coverage=cov, timeout=3000, **kw)

        def fetch(cfg, coverage=False, **kw):
            f = futures.pop(cfg, None)
            if f is not None:
                return f.result()
            return tlc.run_tlc("pure", "MCContent", cfg, workers=4, coverage=coverage, timeout=3000, **kw)

        def tl(cfg, actions, **kw):
            r = fetch(cfg, bool(actions), **kw)
            tlc.require_ok(r, "C16 " + cfg)
            if actions:
                tlc.require_coverage(r, actions, "C16 " + cfg)
            rep.add_tlc(r, cfg)
            return r

        # negative controls: the spec reproduces the recorded defect / a lazy copy is caught by the invariant
        r = fetch("ct_coded_ctype.cfg")
        if r.violated != "RoundTrip":
            raise tlc.MachineryError("C16 ct_coded_ctype.cfg: expected RoundTrip violated, got %r %r" % (r.violated, r.error))
        rep.add_tlc(r, "ct_coded_ctype.cfg (asCoded: RoundTrip violated as expected)")
        r = fetch("ct_neg_snap.cfg")
        if r.violated != "Snapshot":
            raise tlc.MachineryError("C16 ct_neg_snap.cfg: expected Snapshot violated, got %r %r" % (r.violated, r.error))
        rep.add_tlc(r, "ct_neg_snap.cfg (lazyRef: Snapshot violated as expected)")

        # ---- read loop
        tl("ct_mc_read.cfg" if not big else "ct_mc_read_big.cfg", None)
        r = tl("ct_exp_read.cfg" if not big else "ct_exp_read_big.cfg", READ_ACTIONS)
        n = 0
        for beh in tlc.exported(r):
            n += 1
            try:
                bad = replay_read(beh, tmpdir, drift)
            except Exception as ex:
                bad = ("read-raised", None, repr(ex))
            nt = read_nontrivial(beh)
            if nt:
                smp("read", {"machine": "read", "scenario": beh["init"], "actions": [h["a"] for h in beh["hist"]]}, 901)
            rep.case(nontrivial_key=("read" + jdump(beh["init"])) if nt else None)
            rep.traces += 1
            if bad:
                rep.violation(bad[0], read_signature(beh, bad[0]), {"machine": "read", "behaviour": beh}, bad[1], bad[2])
        if n == 0:
            raise tlc.MachineryError("C16 read: nothing exported")

        # ---- decoder
        tl("ct_mc_decode.cfg", None)
        r = tl("ct_exp_decode.cfg" if not big else "ct_exp_decode_big.cfg", ["Feed", "Flush"])
        n = 0
        for beh in tlc.exported(r):
            n += 1
            nt = decode_nontrivial(beh["init"])
            for label, bad, chunks in replay_decode(beh, rnd, drift):
                if nt and chunks:
                    smp("decode", {"machine": "decode", "charset": label, "scenario": beh["init"], "chunks": [c.hex() for c in chunks]}, 777)
                rep.case(nontrivial_key=("decode" + label + jdump(beh["init"])) if nt else None)
                if bad:
                    kind = "multibyte-cut" if nt else "plain"
                    rep.violation(bad[0], "decode:%s:%s:%s" % (bad[0], "declared" if not label.startswith("none") else "default-charset", kind),
                                  {"machine": "decode", "behaviour": beh, "charset": label, "chunks": chunks}, bad[1], bad[2])
            rep.traces += 1
        if n == 0:
            raise tlc.MachineryError("C16 decode: nothing exported")

        # ---- decoder histories (two contents of one charset; interleaved / abandoned / failing iterations)
        r = fetch("ct_neg_dechist.cfg")
        if r.violated != "PerIterationDecode":
            raise tlc.MachineryError("C16 ct_neg_dechist.cfg: expected PerIterationDecode violated, got %r %r" % (r.violated, r.error))
        rep.add_tlc(r, "ct_neg_dechist.cfg (sharedCached decoder: PerIterationDecode violated as expected)")
        tl("ct_mc_dechist.cfg", None)
        jobs = [("ct_exp_dechist.cfg" if not big else "ct_exp_dechist_big.cfg", {}, ["StartIter", "NextChunk", "Abandon", "DecodeAll"]),
                ("ct_sim_dechist.cfg", sim_kw, None)]
        for cfg, kw, acts in jobs:
            r = tl(cfg, acts, **kw)
            n = 0
            for beh in tlc.exported(r):
                n += 1
                cs = "utf8" if n % 5 else "utf-8"
                try:
                    bad = replay_dechist(beh, rnd, drift, cs)
                except tlc.MachineryError:
                    raise
                except Exception as ex:
                    bad = (len(beh["hist"]) - 1, "dechist-raised", None, repr(ex))
                nt = dechist_nontrivial(beh)
                if nt:
                    smp("dechist", {"machine": "dechist", "contents": beh["init"]["cont"],
                                    "calls": [(h["a"], h["c"], h.get("res")) for h in beh["hist"]]}, 4000)
                rep.case(nontrivial_key=("dechist" + jdump(beh)) if nt else None)
                rep.traces += 1
                if bad:
                    i, clause, exp, obs = bad
                    rep.violation(clause, "dechist:%s" % clause,
                                  {"machine": "dechist", "behaviour": {"init": beh["init"], "hist": beh["hist"][: i + 1]}, "charset": cs},
                                  exp, obs)
            if n == 0:
                raise tlc.MachineryError("C16 %s: nothing exported" % cfg)

        # ---- content type
        cfgs = ["ct_exp_ctype_one.cfg", "ct_exp_ctype_pairs.cfg", "ct_exp_ctype_triple.cfg"] + (["ct_exp_ctype_one3.cfg"] if big else [])
        for cfg in cfgs:
            r = tl(cfg, ["DoRender", "DoParse"])
            n = 0
            for beh in tlc.exported(r):
                n += 1
                rd = beh["hist"][0]
                nt = ctype_nontrivial(rd)
                for conc, indomain, bad in replay_ctype(beh, rnd):
                    if nt:
                        smp("ctype", {"machine": "ctype", "type": rd["type"] + "/" + rd["subtype"], "params": conc}, 333)
                    rep.case(nontrivial_key=("ctype" + jdump([rd["type"], rd["subtype"], rd["params"]])) if nt else None)
                    if not bad:
                        continue
                    if not indomain:
                        drift("charset containing a comma does not round-trip (outside the domain): %r" % (bad,))
                        continue
                    sig, small = ct_signature(rd["type"], rd["subtype"], conc)
                    rep.violation("ctype-roundtrip", sig,
                                  {"machine": "ctype", "type": rd["type"], "subtype": rd["subtype"], "params": conc, "minimal": small},
                                  "ContentType == _make_content_type(repr(ContentType))", bad)
                rep.traces += 1
            if n == 0:
                raise tlc.MachineryError("C16 %s: nothing exported" % cfg)

        # ---- snapshots
        r = tl("ct_exp_snap.cfg", ["Gather", "MutateSrc"])
        n = 0
        for beh in tlc.exported(r):
            n += 1
            try:
                bad = replay_snap(beh)
            except Exception as ex:
                bad = (len(beh["hist"]) - 1, "snap-raised", None, repr(ex), "?")
            nt = any(h["a"] == "Mutate" for h in beh["hist"])
            if nt:
                smp("snap", {"machine": "snap", "steps": [(h["a"], h.get("via") or h.get("how")) for h in beh["hist"]]}, 500)
            rep.case(nontrivial_key=("snap" + jdump(beh["hist"])) if nt else None)
            rep.traces += 1
            if bad:
                i, clause, exp, obs, via = bad
                rep.violation(clause, "snap:%s:%s" % (clause, via), {"machine": "snap", "behaviour": beh["hist"][: i + 1]}, exp, obs)
        if n == 0:
            raise tlc.MachineryError("C16 snap: nothing exported")

        # ---- equality rows (operand kinds: plain / subclass / snapshot of either; stock subclasses)
        for cfg in ("ct_exp_eq.cfg", "ct_exp_eq_kinds.cfg"):
            r = tl(cfg, None)
            n = 0
            for row in tlc.exported(r):
                n += 1
                bad = guarded(check_eq_row, row)
                rw = row["row"]
                nt = (rw["c1"] != rw["c2"] and (rw["d1"] or rw["d2"])) or rw["k1"] != rw["k2"]
                if nt:
                    smp("eq", {"machine": "eq", "row": rw, "equal": row["equal"]}, 2500)
                rep.case(nontrivial_key=("eq" + jdump(rw)) if nt else None)
                if bad:
                    rep.violation(bad[0], "eq:%s:%s:%s" % ("same-type" if rw["t1"] == rw["t2"] else "other-type",
                                                          "same-bytes" if rw["d1"] == rw["d2"] else "other-bytes",
                                                          "same-class" if (rw["k1"] == "subclass") == (rw["k2"] == "subclass") else "other-class"),
                                  {"machine": "eq", "row": row}, bad[1], bad[2])
            if n != r.distinct:
                raise tlc.MachineryError("C16 %s: %d rows for %d states" % (cfg, n, r.distinct))
        try:
            stock = list(check_eq_stock())
        except Exception as ex:
            stock = [("stock", ("eq-raised", "no exception", repr(ex)))]
        for label, bad in stock:
            rep.case(nontrivial_key="eqstock" + label)
            if bad:
                rep.violation(bad[0], "eq:stock-subclass:%s" % label.split(":")[1], {"machine": "eqstock", "case": label}, bad[1], bad[2])

        # ---- text / json rows
        r = tl("ct_exp_text.cfg" if not big else "ct_exp_text_big.cfg", None)
        n = 0
        for row in tlc.exported(r):
            n += 1
            classes = row["row"]["s"]
            nt = any(c != "ascii" for c in classes)
            for _ in range(2):
                s = "".join(pick(TEXT_REPS[c], rnd) for c in classes)
                bads = [guarded(check_text_value, s, row["nbytes"])] + [guarded(check_json_value, o) for o in json_shapes(s)]
                if nt:
                    smp("text", {"machine": "text", "classes": classes, "text": s}, 400)
                rep.case(nontrivial_key=("text" + jdump(classes)) if nt else None)
                for bad in bads:
                    if bad:
                        rep.violation(bad[0], "text:%s:%s" % (bad[0], "+".join(sorted(set(classes)))),
                                      {"machine": "text", "classes": classes, "text": s}, bad[1], bad[2])
        if n != r.distinct:
            raise tlc.MachineryError("C16 text: %d rows for %d states" % (n, r.distinct))
        # harness-generated full-range texts (the class alphabet cannot enumerate Unicode): same oracle
        for i in range(400 if not big else 30000):
            s = random_text(rnd)
            for bad in [guarded(check_text_value, s)] + [guarded(check_json_value, o) for o in json_shapes(s)[:2]]:
                if bad:
                    rep.violation(bad[0], "text-random:%s" % bad[0], {"machine": "text", "text": s}, bad[1], bad[2])
            rep.case(nontrivial_key="rnd" + s if s else None)
            if s:
                data = s.encode("utf8")
                cuts = sorted(rnd.randrange(len(data) + 1) for _ in range(rnd.randrange(4)))
                lens = [b - a for a, b in zip([0] + cuts, cuts + [len(data)])]
                bad = check_text(cut(data, lens), {"charset": "utf8"}, s)
                if bad:
                    rep.violation(bad[0], "decode-random:%s" % bad[0], {"machine": "decode", "text": s, "lens": lens}, bad[1], bad[2])
    finally:
        import shutil

        shutil.rmtree(tmpdir, ignore_errors=True)
        if pool is not None:
            pool.shutdown(wait=True, cancel_futures=True)
    rep.samples = [samples[m] for m in ("read", "decode", "dechist", "ctype", "snap", "text", "eq") if m in samples]
    rep.exhaustive = False
    rep.extra["explanation"] = ("exhaustive over the abstract inputs of each ct_exp_*.cfg instance; class representatives and the "
                                "full-range random texts are seeded samples")
    return rep.finish()


def replay_file(path, pid="C16"):
    use_repo()
    v = json.load(open(path))
    sc = v["scenario"]
    m = sc["machine"]
    bad = None
    if m == "read":
        tmpdir = tempfile.mkdtemp(prefix="c16-", dir=BUILD)
        try:
            bad = replay_read(sc["behaviour"], tmpdir, lambda t: print("DRIFT: " + t[:200]))
        finally:
            import shutil

            shutil.rmtree(tmpdir, ignore_errors=True)
    elif m == "ctype":
        bad = ct_roundtrip(sc["type"], sc["subtype"], sc["params"])
    elif m == "snap":
        bad = replay_snap({"hist": sc["behaviour"]})
    elif m == "eq":
        bad = check_eq_row(sc["row"])
    elif m == "eqstock":
        bad = [b for l, b in check_eq_stock() if l == sc["case"] and b]
    elif m == "text":
        bad = check_text_value(sc["text"]) or check_json_value(sc["text"])
    elif m == "dechist":
        bad = replay_dechist(sc["behaviour"], random.Random(0), lambda t: print("DRIFT: " + t[:200]), sc.get("charset", "utf8"))
    elif m == "decode":
        print("replay: decode scenarios are replayed by re-running the check with the same VERIF_SEED")
        return 2
    if bad:
        print("VIOLATION property=C16 replay=%s" % path)
        print("  observed=%r" % (bad,))
        return 1
    print("replay: conforms")
    return 0
