"""X03 - DecorateTestCaseResult: callout / before_run / after_run bracketing and attribute forwarding.

Spec: spec/extra/DecorCase.tla.  TLC checks the pc-stepped body of _run and the three attribute hooks (mechanism)
against predicates over the event list written by the callbacks and over the two attribute stores (meaning:
CalloutOnce, CaseGetsAltered, NoEarlyCase, BeforePrecedes, AfterFollows, ForwardedView, OwnStaysOwn, ReadYourWrite)
and exports every behaviour of the bounded instances.  Each behaviour is replayed into a real
DecorateTestCaseResult around recording cases; after EVERY call the events of the call, how it ended, the four own
attributes of the decorator and the attribute dicts of both cases are compared with the spec.
"""

from . import tlc
from .common import Report, use_repo, jdump

PROPS = ("X03",)

ACTIONS = ["StartRun", "DoBefore", "DoCase", "DoAfter", "SetAttr"]
OWN = ("decorated", "callout", "before_run", "after_run")


class CaseExc(Exception):
    pass


class CaseBase(BaseException):
    pass


class Named:
    def __init__(self, name):
        self._n = name

    def __repr__(self):
        return "<%s>" % self._n


class Wrapped:
    def __init__(self, inner):
        self.inner = inner


class StubCase:
    """A recording 'test': run(result) / __call__(result) log themselves and end as told."""

    def __init__(self, name, world):
        self.__dict__["_name"] = name
        self.__dict__["_world"] = world

    def _go(self, via, result):
        w = self._world
        w.log.append({"ev": "case", "who": self._name, "via": via, "arg": w.name_of(result)})
        if w.outcome == "exc":
            w.exc = CaseExc("case")
            raise w.exc
        if w.outcome == "base":
            w.exc = CaseBase("case")
            raise w.exc
        return "case-returned"

    def run(self, result=None):
        return self._go("run", result)

    def __call__(self, result=None):
        return self._go("call", result)


class World:
    def __init__(self, init):
        from testtools.testcase import DecorateTestCaseResult

        self.log = []
        self.outcome = "ret"
        self.exc = None
        self.objs = {"none": None, "r1": Named("r1"), "v0": Named("v0"), "v1": Named("v1"), "v2": Named("v2")}
        self.c = {"c1": StubCase("c1", self), "c2": StubCase("c2", self)}
        self.c["c1"].x = self.objs["v0"]
        self.c["c2"].y = self.objs["v0"]
        self.objs.update(self.c)
        for k in ("k1", "k2"):
            self.objs[k] = self._callout(k)
        for k in ("b1", "b2"):
            self.objs[k] = self._hook("before", k)
        for k in ("a1", "a2"):
            self.objs[k] = self._hook("after", k)
        self.names = {id(v): k for k, v in self.objs.items() if v is not None}
        self.d = DecorateTestCaseResult(
            self.c["c1"],
            self.objs[init["callout"]],
            before_run=self.objs[init["before_run"]],
            after_run=self.objs[init["after_run"]],
        )

    def _callout(self, k):
        def callout(result):
            self.log.append({"ev": "callout", "who": k, "arg": self.name_of(result)})
            return result if k == "k1" else Wrapped(result)

        return callout

    def _hook(self, kind, k):
        def hook(result):
            self.log.append({"ev": kind, "who": k, "arg": self.name_of(result)})

        return hook

    def name_of(self, o):
        if o is None:
            return "none"
        if isinstance(o, Wrapped):
            return "w(%s)" % self.name_of(o.inner)
        return self.names.get(id(o), "?%r" % (o,))

    def obs(self, fwd):
        miss = object()
        own = {}
        for nm in OWN:
            try:
                own[nm] = self.name_of(getattr(self.d, nm))
            except AttributeError:
                own[nm] = "absent"
        cases = {}
        for cn, c in self.c.items():
            cases[cn] = {}
            for nm in fwd:
                v = c.__dict__.get(nm, miss)
                cases[cn][nm] = "absent" if v is miss else self.name_of(v)
        return {"own": own, "cases": cases}


def check_run(w, h):
    via, r, outcome = h["arg"]
    w.outcome = outcome
    w.exc = None
    del w.log[:]
    try:
        if via == "run":
            w.d.run(w.objs[r])
        else:
            w.d(w.objs[r])
        ended = "ret"
    except (CaseExc, CaseBase) as ex:
        ended = outcome if ex is w.exc else "other-exception"
    evs = list(w.log)
    exp = h["out"]["evs"]

    def of(kind, seq):
        return [e for e in seq if e["ev"] == kind]

    if of("callout", evs) != of("callout", exp) or (evs and evs[0]["ev"] != "callout"):
        return ("callout-once-with-callers-result", of("callout", exp), evs)
    if of("case", evs) != of("case", exp):
        return ("case-runs-once-with-altered-result", of("case", exp), evs)
    if of("before", evs) != of("before", exp):
        return ("before_run-with-altered-result", of("before", exp), evs)
    if of("after", evs) != of("after", exp):
        return ("after_run-follows-also-on-raise" if outcome != "ret" else "after_run-with-altered-result", of("after", exp), evs)
    if evs != exp:
        return ("hook-order", exp, evs)
    if ended != h["out"]["ended"]:
        return ("case-exception-propagates", h["out"]["ended"], ended)
    return None


def replay(hist):
    w = World(hist[0]["arg"])
    fwd = sorted(hist[0]["obs"]["cases"]["c1"])
    if w.obs(fwd) != hist[0]["obs"]:
        return (0, "constructor-keeps-own-slots", hist[0]["obs"], w.obs(fwd))
    for i, h in enumerate(hist[1:], 1):
        a = h["a"]
        try:
            if a == "run":
                bad = check_run(w, h)
                if bad:
                    return (i,) + bad
            elif a == "get":
                try:
                    got = w.name_of(getattr(w.d, h["arg"]))
                except AttributeError:
                    got = "AttributeError"
                if got != h["out"]:
                    return (i, "get-forwarded", h["out"], got)
            elif a == "set":
                nm, v = h["arg"]
                setattr(w.d, nm, w.objs[v])
            elif a == "del":
                try:
                    delattr(w.d, h["arg"])
                    got = "none"
                except AttributeError:
                    got = "AttributeError"
                if got != h["out"]:
                    return (i, "del-forwarded", h["out"], got)
            else:
                raise tlc.MachineryError("X03: unknown action %r" % a)
        except tlc.MachineryError:
            raise
        except Exception as ex:
            return (i, "raised", None, "%s: %s" % (type(ex).__name__, ex))
        obs = w.obs(fwd)
        if obs != h["obs"]:
            if obs["own"] != h["obs"]["own"]:
                return (i, "own-slots", h["obs"]["own"], obs["own"])
            return (i, "attributes-forwarded-to-case", h["obs"]["cases"], obs["cases"])
    return None


def shape(hist):
    out = ["init(%s,%s,%s)" % (hist[0]["arg"]["callout"], hist[0]["arg"]["before_run"], hist[0]["arg"]["after_run"])]
    for h in hist[1:]:
        if h["a"] == "run":
            out.append("%s(%s)->%s" % tuple(h["arg"]))
        elif h["a"] == "set":
            out.append("set %s=%s" % tuple(h["arg"]))
        else:
            out.append("%s %s" % (h["a"], h["arg"]))
    return out


def nontrivial_key(hist):
    """Non-trivial: a call whose case raises, a call after an own slot was reassigned, a hook present, or an
    attribute operation on a forwarded name followed by a read/run."""
    raised = any(h["a"] == "run" and h["arg"][2] != "ret" for h in hist)
    reassigned = False
    seen_set = False
    for h in hist[1:]:
        if h["a"] == "set" and h["arg"][0] in OWN:
            seen_set = True
        if h["a"] in ("run", "get", "del") and seen_set:
            reassigned = True
    hooks = hist[0]["arg"]["before_run"] != "none" or hist[0]["arg"]["after_run"] != "none"
    attr = any(h["a"] == "del" or (h["a"] == "set" and h["arg"][0] not in OWN) for h in hist[1:])
    if raised or reassigned or (hooks and any(h["a"] == "run" for h in hist)) or attr:
        return jdump(shape(hist))
    return None


def signature(hist, clause, observed):
    last = hist[-1]
    a = last["a"]
    if a == "run":
        at = "%s:%s" % (last["arg"][0], "ret" if last["arg"][2] == "ret" else "raise")
    elif a in ("get", "del"):
        at = "%s:%s" % (a, "own" if last["arg"] in OWN else "fwd")
    elif a == "set":
        at = "set:%s" % (last["arg"][0] if last["arg"][0] in OWN else "fwd")
    else:
        at = a
    extra = ""
    if clause == "raised":
        extra = ":" + str(observed).split(":", 1)[0]
    return "x03:%s:%s%s" % (clause, at, extra)


def run(tier, pid="X03"):
    use_repo()
    rep = Report(
        "X03",
        tier,
        "model_checking",
        "behaviours = DecorateTestCaseResult(case, callout[, before_run][, after_run]) followed by sequences of "
        "run(result) / __call__(result) (result given or None; the case's method returns, raises Exception, raises "
        "BaseException), reassignment of the four own attributes, and get / set / delete of other attributes; exported "
        "by TLC (exhaustive up to the bounds of spec/extra/dc_exp*.cfg) or tlc -simulate and replayed call by call. "
        "Non-trivial = the case raises, an own slot was reassigned before a later call, hooks present, or an attribute "
        "operation on a forwarded name; distinct by call sequence.",
    )
    rep.assume("the wrapped 'case' is a recording object with run() and __call__(); hooks and callout do not raise and do not touch the decorator")
    rep.assume("deleting one of the decorator's own four attributes is not explored (the documentation does not say what it means)")
    rep.assume("the value returned by run()/__call__ of the decorator is not compared (undocumented)")
    jobs = [
        ("dc_mcA.cfg", {}, False),
        ("dc_expA.cfg", {}, True),
        ("dc_expB.cfg", {}, True),
        ("dc_expC.cfg", {}, True),
        ("dc_sim.cfg", dict(simulate=dict(num=100 if tier == "quick" else 3000, depth=60), seed=rep.seed + 1), True),
    ]
    for cfg, kw, export in jobs:
        r = tlc.run_tlc("extra", "MCDecorCase", cfg, coverage=True, timeout=600, workers=4, **kw)
        tlc.require_ok(r, "X03 " + cfg)
        if "simulate" not in kw:
            tlc.require_coverage(r, ACTIONS, "X03 " + cfg)
        rep.add_tlc(r, cfg)
        if not export:
            continue
        nb = 0
        for hist in tlc.exported(r):
            nb += 1
            nk = nontrivial_key(hist)
            bad = replay(hist)
            rep.case(sample={"calls": shape(hist)} if nk and rep.evaluations % 6000 == 17 else None, nontrivial_key=nk)
            rep.traces += 1
            if bad:
                i, clause, exp, obs = bad
                cut = hist[: i + 1]
                rep.violation(clause, signature(cut, clause, obs), {"behaviour": cut, "cfg": cfg}, expected=exp, observed=obs)
        if nb == 0:
            raise tlc.MachineryError("X03 %s exported no behaviours" % cfg)
    if not rep.samples:
        rep.sample({"note": "see tlc_runs"})
    rep.exhaustive = False
    rep.extra["explanation"] = "exhaustive for the mc/exp configs (bounds in spec/extra/dc_*.cfg); random for dc_sim.cfg"
    return rep.finish()


def replay_file(path, pid="X03"):
    import json

    use_repo()
    v = json.load(open(path))
    bad = replay(v["scenario"]["behaviour"])
    if bad:
        print("VIOLATION property=X03 replay=%s" % path)
        print("  step=%s clause=%s expected=%r observed=%r" % bad)
        return 1
    print("replay: behaviour conforms")
    return 0
