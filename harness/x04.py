"""X04 - exception pass-through rules: ExpectedException, TestCase.assertRaises, Raises / MatchesException.

Spec: spec/extra/ExcRules.tla.  TLC checks the if-chains of the code (ExitEE, ExitAR, ExitRM: mechanism) against the
documented decision tables (EEMeaning, ARMeaning, RMMeaning: meaning) for every (frame, incoming flow) - invariants
FrameMeaning, InterruptEscapes, NoRaiseNoPass - and exports every behaviour: a body that returns or raises an
exception of a small class hierarchy, inside one or two nested frames.  Each behaviour is replayed with the real
context manager / assertion / matcher; for every frame the replay compares which of {swallowed, AssertionError,
original propagates | returns the caught exception, fails, propagates | match, mismatch, propagates} happened,
with object identity for "the original" and "the caught exception".
"""

from . import tlc
from .common import Report, use_repo, jdump

PROPS = ("X04",)


class E(Exception):
    pass


class Sub(E):
    pass


class U(Exception):
    pass


class V(Exception):
    pass


_env = None


def env():
    global _env
    if _env is None:
        import testtools
        from testtools import matchers

        class Host(testtools.TestCase):
            def test_nothing(self):
                pass

        _env = {
            "case": Host("test_nothing"),
            "EE": testtools.ExpectedException,
            "Raises": matchers.Raises,
            "MatchesException": matchers.MatchesException,
            "ok": matchers.Always(),
            "bad": matchers.Never(),
            "classes": {"E": E, "Sub": Sub, "U": U, "V": V, "KI": KeyboardInterrupt, "AE": AssertionError, "ME": matchers.MismatchError},
            "matchers": matchers,
        }
    return _env


def make_exc(cls, msg):
    en = env()
    if cls == "ME":
        m = en["matchers"]
        return m.MismatchError(2, m.Equals(1), m.Equals(1).match(2))
    return en["classes"][cls](msg)


def exp_arg(f):
    en = env()
    cs = [en["classes"][c] for c in sorted(f["exp"])]
    return cs[0] if len(cs) == 1 else tuple(cs)


def value_arg(f):
    en = env()
    if f["rek"] == "re":
        return "".join(f["rev"])
    if f["rek"] == "m":
        return en[f["rev"][0]]
    return None


class Probe:
    """Wraps a callable: records how it ended, passes the ending on unchanged."""

    def __init__(self, fn):
        self.fn = fn
        self.ended = None

    def __call__(self):
        try:
            v = self.fn()
        except BaseException as ex:
            self.ended = ("raise", ex)
            raise
        self.ended = ("ret", v)
        return v


def layer(f, inner):
    """A callable that runs `inner` inside frame f."""
    en = env()
    api = f["api"]
    if api == "EE":
        kw = {}
        if f["ann"]:
            kw["msg"] = "annotation"
        v = value_arg(f)

        def run_ee():
            with en["EE"](exp_arg(f), v, **kw):
                inner()
            return "left-with-block"

        return run_ee
    if api == "AR":

        def run_ar():
            return en["case"].assertRaises(exp_arg(f), inner)

        return run_ar
    if f["rek"] == "nomatcher":
        matcher = en["Raises"]()
    elif f["rek"] == "inst":
        matcher = en["Raises"](en["MatchesException"](make_exc(sorted(f["exp"])[0], "".join(f["rev"]))))
    else:
        matcher = en["Raises"](en["MatchesException"](exp_arg(f), value_arg(f)))

    def run_rm():
        return matcher.match(inner)

    return run_rm


def classify(f, ended_in, ended_out):
    """Name what the frame did, from how its inside ended and how the frame itself ended."""
    en = env()
    api = f["api"]
    kin, vin = ended_in
    kout, vout = ended_out
    if kout == "raise":
        if kin == "raise" and vout is vin:
            return "propagates"
        if api == "EE" and isinstance(vout, AssertionError):
            return "AssertionError"
        if api == "AR" and isinstance(vout, en["case"].failureException):
            return "fails"
        return "raised-other:%s" % type(vout).__name__
    if api == "EE":
        return "swallowed" if kin == "raise" else "returned-without-exception"
    if api == "AR":
        if kin == "raise" and vout is vin:
            return "returns-exc"
        return "returned-other:%r" % (vout,)
    if vout is None:
        return "match"
    if hasattr(vout, "describe"):
        return "mismatch"
    return "returned-other:%r" % (vout,)


def replay(hist):
    init = hist[0]
    body = init["body"]
    raised = {}

    def body_fn():
        if body["k"] == "ret":
            return "body-returned"
        raised["exc"] = make_exc(body["cls"], "".join(body["msg"]))
        raise raised["exc"]

    probes = [Probe(body_fn)]
    for f in init["frames"]:
        probes.append(Probe(layer(f, probes[-1])))
    try:
        probes[-1]()
    except BaseException:
        pass
    exits = [h for h in hist if h["a"] == "exit"]
    for j, h in enumerate(exits):
        f = h["frame"]
        pin, pout = probes[j], probes[j + 1]
        if pin.ended is None or pout.ended is None:
            return (j, "frame-not-run", "frame entered and left", "inner=%r outer=%r" % (pin.ended, pout.ended))
        if h["out"] == "unspecified":
            return None  # not judged; the specification stops the behaviour here
        got = classify(f, pin.ended, pout.ended)
        if got != h["out"]:
            clause = {"EE": "expected-exception-rule", "AR": "assertRaises-rule", "RM": "raises-matcher-rule"}[f["api"]]
            return (j, clause, h["out"], got)
    return None


def frame_str(f):
    v = ""
    if f["rek"] == "re":
        v = ",/%s/" % "".join(f["rev"])
    elif f["rek"] == "m":
        v = ",matcher:%s" % f["rev"][0]
    elif f["rek"] == "inst":
        v = "('%s')" % "".join(f["rev"])
    elif f["rek"] == "nomatcher":
        v = "<no matcher>"
    return "%s(%s%s%s)" % (f["api"], "|".join(sorted(f["exp"])), v, ",msg" if f["ann"] else "")


def flow_str(x):
    if x["k"] == "ret":
        return "returns"
    return "raises %s('%s')%s" % (x["cls"], "".join(x["msg"]), "" if x["gen"] == "no" else "[by %s]" % x["gen"])


def shape(hist):
    return [frame_str(f) for f in hist[0]["frames"]] + [flow_str(hist[0]["body"])]


def flow_class(x):
    if x["k"] == "ret":
        return "ret"
    return x["cls"] if x["gen"] == "no" else "gen" + x["gen"]


def signature(h, clause, got):
    f = h["frame"]
    val = f["rek"] if f["rek"] != "re" else ("re-empty" if not f["rev"] else "re")
    return "x04:%s:%s(%s,%s%s):in=%s:%s->%s" % (
        clause,
        f["api"],
        "|".join(sorted(f["exp"])),
        val,
        ",msg" if f["ann"] else "",
        flow_class(h["in"]),
        h["out"],
        str(got).split(":")[0],
    )


def run(tier, pid="X04"):
    use_repo()
    rep = Report(
        "X04",
        tier,
        "model_checking",
        "cases = (body, frame stack): body returns or raises E / Sub(E) / U / V / KeyboardInterrupt / AssertionError / "
        "MismatchError with a message that matches or does not match the pattern; frames = ExpectedException(class, "
        "value_re none | pattern | '' | matcher, msg), assertRaises(class | tuple), Raises(MatchesException(class | "
        "tuple | instance, value_re)) and Raises(); all single frames and all (inner, outer) pairs of the alphabets in "
        "spec/extra/MCExcRules.tla, enumerated by TLC and replayed. Non-trivial = the body raises and the frame's "
        "class is related to the raised class (same, subclass, tuple member), or a value pattern / matcher decides, or "
        "a non-Exception passes through, or two frames; distinct by (frames, body).",
    )
    rep.assume("ExpectedException's docstring is read literally: a subclass of the expected type is 'a type other than the specified type' and propagates")
    rep.assume("patterns are literals; 'match' is re.match (anchored at the start of str(exception))")
    rep.assume("assertRaises fails with 'a failureException' whose exact type is not documented: an ExpectedException(AssertionError) directly around a failing assertRaises is executed but not judged")
    rep.assume("MatchesException(instance) against an exception of a strict subclass is executed but not judged ('the type ... checked' does not say how); arguments = the one message")
    jobs = [("xr_exp2.cfg", True)]
    for cfg, export in jobs:
        r = tlc.run_tlc("extra", "MCExcRules", cfg, coverage=True, timeout=600, workers=4)
        tlc.require_ok(r, "X04 " + cfg)
        tlc.require_coverage(r, ["RunBody", "ExitFrame"], "X04 " + cfg)
        rep.add_tlc(r, cfg)
        if not export:
            continue
        nb = 0
        for hist in tlc.exported(r):
            nb += 1
            frames = hist[0]["frames"]
            body = hist[0]["body"]
            nk = None
            if len(frames) > 1 or (body["k"] == "raise" and (frames[0]["rek"] != "none" or body["cls"] in ("KI", "Sub") or body["cls"] in frames[0]["exp"])):
                nk = jdump(shape(hist))
            bad = replay(hist)
            rep.case(sample={"frames_inner_first": shape(hist)[:-1], "body": shape(hist)[-1], "verdicts": [h["out"] for h in hist if h["a"] == "exit"]} if nk and rep.evaluations % 2500 == 19 else None, nontrivial_key=nk)
            rep.traces += 1
            if bad:
                j, clause, exp, obs = bad
                h = [x for x in hist if x["a"] == "exit"][j]
                rep.violation(clause, signature(h, clause, obs), {"behaviour": hist, "frame_index": j, "cfg": cfg}, expected=exp, observed=obs)
        if nb == 0:
            raise tlc.MachineryError("X04 %s exported no behaviours" % cfg)
    rep.exhaustive = True
    rep.extra["explanation"] = "exhaustive over the alphabets of spec/extra/MCExcRules.tla: every single frame x body and every (inner, outer in OuterAll) x body model-checked and replayed"
    return rep.finish()


def replay_file(path, pid="X04"):
    import json

    use_repo()
    v = json.load(open(path))
    bad = replay(v["scenario"]["behaviour"])
    if bad:
        print("VIOLATION property=X04 replay=%s" % path)
        print("  frame=%s clause=%s expected=%r observed=%r" % bad)
        return 1
    print("replay: behaviour conforms")
    return 0
