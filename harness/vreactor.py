"""Deterministic virtual-time reactor for driving testtools' Spinner / AsynchronousDeferredRunTest.

It is twisted.internet.task.Clock (the delayed-call queue Twisted itself uses in tests) plus the
few reactor methods Spinner touches: run/crash/stop/callWhenRunning/iterate/removeAll/addReader/
running/getDelayedCalls.  run() advances virtual time from one delayed call to the next until
crash()/stop() or nothing is left to do (a real reactor would block for ever: we raise Stuck)."""

from twisted.internet import task


class Stuck(Exception):
    """run() has nothing left to fire and nobody stopped the reactor (a real reactor would hang)."""


class VReactor(task.Clock):
    def __init__(self):
        super().__init__()
        self.running = False
        self._when_running = []
        self._readers = []
        self.threadpool = None
        self.fired = []  # (time, repr of callable) log of every delayed call fired
        self.max_steps = 10000
        # A real reactor fires EVERY "after startup" trigger, also those after one that crashed/stopped it
        # (ReactorBase.fireSystemEvent).  Off by default (historical behaviour: stop at the first crash).
        self.all_startup_triggers = False

    # -- IReactorCore subset ---------------------------------------------------
    def callWhenRunning(self, f, *a, **kw):
        if self.running:
            f(*a, **kw)
        else:
            self._when_running.append((f, a, kw))

    def run(self, installSignalHandlers=True):
        if self.running:
            raise RuntimeError("VReactor already running")
        self.running = True
        try:
            pending, self._when_running = self._when_running, []
            for f, a, kw in pending:
                if not self.running and not self.all_startup_triggers:
                    break
                f(*a, **kw)
            steps = 0
            while self.running:
                calls = self.getDelayedCalls()
                if not calls:
                    raise Stuck("reactor would block for ever at t=%s" % self.seconds())
                nxt = min(c.getTime() for c in calls)
                self.advance(max(0, nxt - self.seconds()))
                steps += 1
                if steps > self.max_steps:
                    raise Stuck("too many steps")
        finally:
            self.running = False

    def crash(self):
        self.running = False

    def stop(self):
        if not self.running:
            from twisted.internet import error

            raise error.ReactorNotRunning("Can't stop reactor that isn't running.")
        self.running = False

    def iterate(self, delay=0):
        self.advance(delay)

    def getDelayedCalls(self):
        # a real reactor returns a fresh list; task.Clock returns its internal one (cancel() while
        # iterating would then skip entries)
        return list(super().getDelayedCalls())

    # -- IReactorFDSet subset --------------------------------------------------
    def addReader(self, r):
        if r not in self._readers:
            self._readers.append(r)

    def removeReader(self, r):
        if r in self._readers:
            self._readers.remove(r)

    def getReaders(self):
        return list(self._readers)

    def removeAll(self):
        out, self._readers = self._readers, []
        return out

    # task.Clock.advance fires calls due at the new time, in (time, insertion) order; a call that
    # crashes the reactor does not prevent other calls due at the same instant from firing in the
    # same advance (a real reactor's runUntilCurrent behaves the same way).
