"""X08 - TextTestResult output grammar; unicode_output_stream.

Specs: spec/extra/TextResult.tla and spec/extra/UniStream.tla.

TextResult: TLC checks the lists/counters/supplied-time mechanism and the tokens stopTestRun writes from them against
folds over the call history of the run (GrammarMeaning, CeilMeaning, QuietInRun, TypeOK) and exports every behaviour of
the bounded instance (+ random deeper ones).  Each behaviour is replayed into a real TextTestResult writing to a
StringIO, under a controlled system clock (the `datetime` module reference of testtools.testresult.real is replaced by
a shim whose datetime.now() is the spec's clock): after EVERY call the text written by that call must be exactly the
rendering of the spec's tokens (separators, labels, ids, rendered details, "Ran N test(s) in S.SSSs", OK / FAILED
(failures=K)), and testsRun / list lengths / wasSuccessful() must agree.

UniStream: TLC checks the if-chain of unicode_output_stream against the table "text streams and unicode encodings come
back unchanged, everything else gets a replacing encoder for its encoding or ascii" (NeverRaises, UnchangedMeaning,
ReplacementMeaning) for 16 kinds of stream x pairs of texts over 5 character classes; each behaviour is replayed on real
/ duck-typed streams: identity of the returned object, no exception on write, and the exact text or bytes that reached
the underlying stream.
"""

import datetime
import io
import re
import types

from . import tlc
from .common import Report, use_repo, jdump

PROPS = ("X08",)

UTC = datetime.timezone.utc
EPOCH = datetime.datetime(2020, 1, 1, tzinfo=UTC)
TR_ACTIONS = ["StartTestRun", "Tick", "Time", "StartTest", "Add", "AddStray", "StopTest", "StopTestRun"]

TESTS = {"t1": "pkg.mod.T.test_é", "t2": "t2"}
SEP1 = "=" * 70 + "\n"
SEP2 = "-" * 70 + "\n"


def instant(ticks):
    return EPOCH + datetime.timedelta(microseconds=100 * ticks)


class Clock:
    ticks = 0


class _FakeDatetime(datetime.datetime):
    @classmethod
    def now(cls, tz=None):
        return instant(Clock.ticks)


_SHIM = types.SimpleNamespace(
    datetime=_FakeDatetime, timedelta=datetime.timedelta, tzinfo=datetime.tzinfo, timezone=datetime.timezone, date=datetime.date
)


class _Test:
    def __init__(self, tid):
        self._id = tid

    def id(self):
        return self._id


def body_of(label, tid):
    if label == "ERROR":
        return "boom %s é\n" % tid
    return ""


def fmt_ms(p):
    return "%s%d.%03d" % ("-" if p < 0 else "", abs(p) // 1000, abs(p) % 1000)


def render(tokens, exact):
    """Expected text for the tokens of one call; returns the list of acceptable texts."""
    outs = [""]
    for x in tokens:
        k = x["k"]
        if k == "running":
            piece = ["Tests running...\n"]
        elif k == "sep1":
            piece = [SEP1]
        elif k == "head":
            piece = ["%s: %s\n" % (x["label"], TESTS[x["id"]])]
        elif k == "sep2body":
            piece = [SEP2 + body_of(x["label"], TESTS[x["id"]])]
        elif k == "ran":
            piece = ["\nRan %d test%s in " % (x["num"], x["label"])]
        elif k == "elapsed":
            piece = [fmt_ms(x["num"]) + "s\n"]
            if exact:
                # binary floating point in _delta_to_float: an elapsed time of exactly k ms may be shown as k+1 ms
                piece.append(fmt_ms(x["num"] + 1) + "s\n")
        elif k == "ok":
            piece = ["OK\n"]
        elif k == "failed":
            piece = ["FAILED (failures=%d)\n" % x["num"]]
        else:
            raise tlc.MachineryError("X08: unknown token %r" % (x,))
        outs = [o + p for o in outs for p in piece]
    return outs


_STOP_RE = re.compile(r"^(?P<sections>.*)\nRan (?P<n>\d+) test(?P<pl>s?) in (?P<t>-?\d+\.\d{3})s\n(?P<verdict>OK|FAILED \(failures=\d+\))\n$", re.S)


def tr_replay(hist):
    """Return None or (step index, clause, expected, observed)."""
    from testtools import content
    from testtools.testresult import real

    saved = real.datetime
    real.datetime = _SHIM
    try:
        stream = io.StringIO()
        result = real.TextTestResult(stream)
        tests = {k: _Test(v) for k, v in TESTS.items()}
        for i, h in enumerate(hist):
            a, arg = h["a"], h["arg"]
            mark = len(stream.getvalue())
            try:
                if a == "startTestRun":
                    Clock.ticks = h["clock"]
                    result.startTestRun()
                elif a == "tick":
                    Clock.ticks = h["clock"]
                elif a == "time":
                    result.time(None if arg < 0 else instant(arg))
                elif a == "startTest":
                    result.startTest(tests[arg])
                elif a == "stopTest":
                    result.stopTest(tests[arg])
                elif a == "add":
                    t = tests[arg["t"]]
                    k = arg["k"]
                    if k == "error":
                        result.addError(t, details={"traceback": content.text_content("boom %s é\n" % t.id())})
                    elif k == "failure":
                        result.addFailure(t, details={})
                    elif k == "uxsuccess":
                        result.addUnexpectedSuccess(t)
                    elif k == "success":
                        result.addSuccess(t)
                    elif k == "skip":
                        result.addSkip(t, reason="why")
                    elif k == "xfail":
                        result.addExpectedFailure(t, details={})
                    else:
                        raise tlc.MachineryError("X08: unknown outcome %r" % k)
                elif a == "stopTestRun":
                    result.stopTestRun()
                else:
                    raise tlc.MachineryError("X08: unknown action %r" % a)
            except tlc.MachineryError:
                raise
            except Exception as ex:
                return (i, "raised", None, "%s: %s" % (type(ex).__name__, ex))
            wrote = stream.getvalue()[mark:]
            exact = a == "stopTestRun" and arg["exact"]
            allowed = render(h["new"], exact)
            if wrote not in allowed:
                clause = "output-grammar"
                if a not in ("startTestRun", "stopTestRun"):
                    clause = "quiet-in-run"
                elif a == "stopTestRun":
                    mw = _STOP_RE.match(wrote)
                    if mw is not None:
                        for grp, name in (("sections", "sections"), ("n", "ran-count"), ("pl", "ran-count"), ("verdict", "verdict-line"), ("t", "elapsed-time")):
                            if all(mw.group(grp) != _STOP_RE.match(e).group(grp) for e in allowed):
                                clause = name
                                break
                return (i, clause, allowed[0], wrote)
            c = h["counts"]
            obs = {"run": result.testsRun, "e": len(result.errors), "f": len(result.failures), "u": len(result.unexpectedSuccesses)}
            if obs != c:
                return (i, "counters", c, obs)
            ok = c["e"] + c["f"] + c["u"] == 0
            if result.wasSuccessful() != ok:
                return (i, "wasSuccessful", ok, result.wasSuccessful())
        return None
    finally:
        real.datetime = saved


def tr_shape(hist):
    out = []
    for h in hist:
        a, arg = h["a"], h["arg"]
        if a == "add":
            out.append("%s(%s)" % (arg["k"], arg["t"]))
        elif a == "tick":
            out.append("clock+%gms" % (arg / 10.0))
        elif a == "time":
            out.append("time(None)" if arg < 0 else "time(start%+gms)" % ((arg - hist[0]["clock"]) / 10.0))
        elif a in ("startTest", "stopTest"):
            out.append("%s(%s)" % (a, arg))
        else:
            out.append(a)
    return out


def tr_nontrivial(hist):
    """Non-trivial: at least one problem section, or a supplied time, or a clock advance, or a test count other than 0."""
    acts = [h["a"] for h in hist]
    bad = any(h["a"] == "add" and h["arg"]["k"] in ("error", "failure", "uxsuccess") for h in hist)
    if bad or "time" in acts or "tick" in acts or "startTest" in acts:
        return jdump(tr_shape(hist))
    return None


def tr_signature(hist, clause, observed):
    last = hist[-1]
    extra = ""
    if clause == "raised":
        extra = ":" + str(observed).split(":", 1)[0]
    kinds = sorted({h["arg"]["k"] for h in hist if h["a"] == "add" and h["arg"]["k"] in ("error", "failure", "uxsuccess")})
    timed = "timed" if any(h["a"] == "time" for h in hist) else "clock"
    if clause in ("elapsed-time",):
        return "x08:%s:%s" % (clause, timed)
    if clause in ("sections", "verdict-line", "counters", "wasSuccessful"):
        return "x08:%s:%s" % (clause, "+".join(kinds) or "clean")
    return "x08:%s:%s%s" % (clause, last["a"], extra)


# ---------------------------------------------------------------------------------------------- unicode_output_stream

CHARS = {"a": "a", "l": "é", "g": "θ", "x": "ɪ", "w": "\U0001f600"}
CODECS = {"bogus": "bogus-codec-x07", "ascii": "ascii", "latin1": "iso-8859-1", "greek": "iso-8859-7", "utf8": "utf-8", "utf16": "UTF-16"}


class Duck:
    """Something with write() only."""

    def __init__(self):
        self.log = []

    def write(self, data):
        self.log.append(data)


class DuckText(Duck):
    """A text-stream look-alike (not an io class): buffer, encoding, errors, newlines, line_buffering."""

    def __init__(self, buffer, encoding, errors="strict", newlines=None, line_buffering=False):
        Duck.__init__(self)
        self.buffer = buffer
        self.encoding = encoding
        self.errors = errors
        self.newlines = newlines
        self.line_buffering = line_buffering

    def write(self, data):
        self.log.append(data)
        self.buffer.write(data.encode(self.encoding, self.errors))


def make_stream(s):
    kind, enc = s["kind"], s["enc"]
    if kind == "stringio":
        return io.StringIO()
    if kind == "tiw":
        return io.TextIOWrapper(io.BytesIO(), encoding=CODECS[enc])
    if s["impl"] == "bytesio":
        return io.BytesIO()
    if s["buffer"]:
        return DuckText(Duck(), CODECS[enc])
    d = Duck()
    if enc == "none":
        d.encoding = None
    elif enc != "absent":
        d.encoding = CODECS[enc]
    return d


def received(stream, s, wrapper):
    """Everything the underlying stream has received so far: ('text', str) or ('bytes', bytes)."""
    if isinstance(stream, io.StringIO):
        return ("text", stream.getvalue())
    if isinstance(stream, io.TextIOWrapper):
        stream.flush()
        return ("bytes", stream.buffer.getvalue())
    if isinstance(stream, io.BytesIO):
        return ("bytes", stream.getvalue())
    if isinstance(stream, DuckText) and wrapper is not stream:
        log = stream.buffer.log  # a rebuilt look-alike shares the buffer
    else:
        log = stream.log
    if all(isinstance(x, str) for x in log):
        return ("text", "".join(log))
    if all(isinstance(x, bytes) for x in log):
        return ("bytes", b"".join(log))
    return ("mixed", repr(log))


def us_replay(hist):
    from testtools.compat import unicode_output_stream

    init = hist[0]
    s = init["stream"]
    stream = make_stream(s)
    try:
        w = unicode_output_stream(stream)
    except Exception as ex:
        return (0, "wrap-raised", None, "%s: %s" % (type(ex).__name__, ex))
    if (w is stream) != init["same"]:
        return (0, "unchanged-or-wrapped", "unchanged" if init["same"] else "wrapped", "unchanged" if w is stream else "wrapped: %r" % type(w).__name__)
    eff = None if init["same"] else CODECS[init["enc"]]
    exp_kind, exp_data = None, None
    for i, h in enumerate(hist[1:], 1):
        text = "".join(CHARS[c] for c in h["text"])
        res = h["res"]
        try:
            w.write(text)
        except Exception as ex:
            if res["out"] == "unspecified":
                return None  # an io.TextIOWrapper with a narrow codec keeps its own error handler: executed, not judged
            return (i, "write-raised", "no exception", "%s: %s" % (type(ex).__name__, str(ex)[:80]))
        if res["out"] == "unspecified":
            return None
        if res["out"] == "text":
            if isinstance(stream, io.TextIOWrapper):
                piece = ("bytes", text.encode(CODECS[s["enc"]]))
            else:
                piece = ("text", text)
        else:
            piece = ("bytes", b"".join(b"?" if c == "?" else CHARS[c].encode(eff) for c in res["data"]))
        if exp_kind is None:
            exp_kind, exp_data = piece
        else:
            exp_data = exp_data + piece[1]
        got = received(stream, s, w)
        if got[0] == "text" and exp_kind == "bytes" and got[1] == "" and exp_data == b"":
            continue
        if got != (exp_kind, exp_data):
            if got[0] == "mixed" or (got[0] != exp_kind and got[1]):
                clause = "text-or-bytes"
            else:
                clause = "replacement" if exp_kind == "bytes" else "text-passes-through"
            return (i, clause, (exp_kind, exp_data), got)
    return None


def us_shape(hist):
    s = hist[0]["stream"]
    name = s["kind"] if s["kind"] != "duck" else ("BytesIO" if s["impl"] == "bytesio" else "duck" + ("+buffer" if s["buffer"] else ""))
    return {"stream": "%s(encoding=%s)" % (name, s["enc"]), "writes": ["".join(h["text"]) for h in hist[1:]]}


def us_signature(hist, clause, observed):
    s = hist[0]["stream"]
    extra = ""
    if clause in ("write-raised", "wrap-raised"):
        extra = ":" + str(observed).split(":", 1)[0]
    return "x08:uos:%s:%s:%s%s%s" % (clause, s["kind"], s["enc"], "+buffer" if s["buffer"] else "", extra)


# ---------------------------------------------------------------------------------------------- driver


def run(tier, pid="X08"):
    use_repo()
    rep = Report(
        "X08",
        tier,
        "model_checking",
        "TextResult: behaviours = startTestRun, then up to 3 (exhaustive) / 14 (random) calls of startTest / one of six "
        "outcomes / a problem outcome outside startTest-stopTest / stopTest / time(value | None) / system-clock advances, then stopTestRun; clock and time() values chosen "
        "around millisecond boundaries (0.4 ms, exactly 1 ms, 1.1 ms, 1.234 s, 1 day + 1.0007 s, time going backwards). "
        "UniStream: 16 kinds of stream (StringIO, TextIOWrapper utf-8/ascii/latin-1, BytesIO, write-only objects without "
        "/ with None / bogus / ascii / latin-1 / greek / utf-8 / utf-16 encoding, text-stream look-alikes with a buffer) x "
        "pairs of 12 texts over ASCII, Latin-1, Greek, other-BMP and astral characters. All behaviours replayed with "
        "per-call comparison. Non-trivial = a run with problem sections, supplied time, clock advance or tests; every "
        "stream behaviour with a non-ASCII character; distinct by call sequence / (stream, texts).",
    )
    rep.assume("the system clock is controlled by replacing the `datetime` module reference inside testtools.testresult.real with a shim (datetime.now() = the spec's clock) for the duration of a replay")
    rep.assume("'ceiling': the printed time must be the elapsed time rounded up to the millisecond; for an elapsed time that is an exact number of milliseconds the next millisecond is accepted too (binary floating point in _delta_to_float turns e.g. exactly 1.132 s into 1.133; the comment only promises 'the most pessimistic view')")
    rep.assume("time() values given before startTestRun are not explored (startTestRun resets the result; the repository's own test expects them to count - undocumented either way)")
    rep.assume("io.TextIOWrapper is returned unchanged whatever its codec (NEWS 0.9.29 calls wrapping it 'incorrect'); writing characters its codec cannot represent is executed but not judged")
    jobs = [
        ("MCTextResult", "tr_mc.cfg", {}, TR_ACTIONS, None, None, None, None, None),
        ("MCTextResult", "tr_exp.cfg", {}, TR_ACTIONS, tr_replay, tr_shape, tr_signature, tr_nontrivial, "text"),
        ("MCTextResult", "tr_sim.cfg", dict(simulate=dict(num=150 if tier == "quick" else 4000, depth=30), seed=rep.seed + 1), None, tr_replay, tr_shape, tr_signature, tr_nontrivial, "text"),
        ("MCUniStream", "us_exp.cfg", {}, ["Write"], us_replay, us_shape, us_signature, None, "stream"),
    ]
    for mod, cfg, kw, actions, replay, shape, signature, nontriv, kind in jobs:
        r = tlc.run_tlc("extra", mod, cfg, coverage=True, timeout=600, workers=4, **kw)
        tlc.require_ok(r, "X08 " + cfg)
        if actions:
            tlc.require_coverage(r, actions, "X08 " + cfg)
        rep.add_tlc(r, cfg)
        if replay is None:
            continue
        nb = 0
        for hist in tlc.exported(r):
            nb += 1
            if kind == "text":
                nk = nontriv(hist)
            else:
                nk = jdump(us_shape(hist)) if any(set(h["text"]) - {"a"} for h in hist[1:]) else None
            bad = replay(hist)
            rep.case(sample={kind: shape(hist)} if nk and rep.evaluations % 2900 == 23 else None, nontrivial_key=nk)
            rep.traces += 1
            if bad:
                i, clause, exp, obs = bad
                cut = hist[: i + 1]
                rep.violation(clause, signature(cut, clause, obs), {"kind": kind, "behaviour": cut, "cfg": cfg}, expected=exp, observed=obs)
        if nb == 0:
            raise tlc.MachineryError("X08 %s exported no behaviours" % cfg)
    if not rep.samples:
        rep.sample({"note": "see tlc_runs"})
    rep.exhaustive = False
    rep.extra["explanation"] = "exhaustive for tr_mc/tr_exp/us_exp (bounds in spec/extra/tr_*.cfg, us_exp.cfg); random for tr_sim.cfg"
    return rep.finish()


def replay_file(path, pid="X08"):
    import json

    use_repo()
    v = json.load(open(path))
    sc = v["scenario"]
    bad = (tr_replay if sc["kind"] == "text" else us_replay)(sc["behaviour"])
    if bad:
        print("VIOLATION property=X08 replay=%s" % path)
        print("  step=%s clause=%s expected=%r observed=%r" % bad)
        return 1
    print("replay: behaviour conforms")
    return 0
