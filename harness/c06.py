"""C06 - matcher verdicts obey their declared semantics compositionally.

Spec: spec/match/MatcherSem.tla (RECURSIVE Sem: the documented verdict of every stock matcher and combinator),
spec/match/Matchers.tla (typed enumeration of expressions by the actions PushLeaf / Wrap / Combine / Combine3 plus
the algebraic laws of the oracle as invariants), spec/match/MatchersTrace.tla (Sem evaluated on rows recorded from
the code).

Direction spec -> code: TLC enumerates every expression up to the bound (and random deeper ones with -simulate) and
prints, per expression, the verdict for every value of the sort's universe.  For every (expression, value) pair the
driver builds the real matcher and matchee afresh - under several concretisations of the text alphabet and several
constructions (argument order permuted where the semantics is order-free, equal sub-matchers shared as one object,
alternative public constructors) - snapshots both, calls match() twice and checks
  * verdict: None <=> "T", a Mismatch <=> "F", the matchee's BaseException propagates <=> "P";
  * the second call gives the same verdict;
  * neither the matcher nor the matched value changed.
Direction code -> spec: a seeded random generator builds larger trees and values, records the verdict of the real
matcher, and TLC decides every recorded row with the same Sem.
A failing pair is localised by sending its sub-pairs through TLC as well: the signature names the smallest
sub-expression whose real verdict differs from the spec's.
"""

import random

from . import tlc
from . import matchers_common as mc
from .common import Report, jdump, sig_hash, use_repo

PROPS = ("C06",)


# ---------------------------------------------------------------------------------------------------------
def show_value(v):
    k = v["k"]
    if k == "int":
        return str(v["i"])
    if k == "bool":
        return str(bool(v["bi"]))
    if k == "float":
        return repr(float(v["fi"]))
    if k == "str":
        return '"' + "".join(("a", "b", "\\n")[c - 1] for c in v["s"]) + '"'
    if k == "list":
        return "[" + ", ".join(show_value(x) for x in v["l"]) + "]"
    if k == "dict":
        return "{" + ", ".join("%s: %s" % (p[0], show_value(p[1])) for p in v["d"]) + "}"
    if k == "key":
        return v["name"]
    if k == "obj":
        return "obj#%d(x=%d, y=%d)" % (v["id"], v["x"], v["y"])
    if k == "exc":
        return "exc_info(%s(%d))" % (v["ty"], v["arg"])
    if k == "call":
        return "(lambda: %d)" % v["arg"] if v["beh"] == "ret" else "(lambda: raise %s(%d))" % (v["ty"], v["arg"])
    if k == "path":
        if v["st"] == "file":
            return "file(%s)" % show_value({"k": "str", "s": v["content"]})
        if v["st"] == "dir":
            return "dir(%s)" % ", ".join(show_value(n) for n in v["names"])
        return "missing-path"
    return jdump(v)


def show_expr(e):
    op = e["op"]
    args = []
    for k in ("ref", "refs", "n", "tys", "pat", "keys", "pred", "form", "ty", "arg", "vk", "f", "msg", "m", "ms", "kms", "attrs", "fo"):
        if k not in e:
            continue
        x = e[k]
        if k == "ref":
            args.append(show_value(x))
        elif k == "refs":
            args.append("[" + ", ".join(show_value(r) for r in x) + "]")
        elif k == "m":
            args.append(show_expr(x))
        elif k == "ms":
            args += [show_expr(y) for y in x]
        elif k in ("kms", "attrs"):
            args.append("{" + ", ".join("%s: %s" % (p[0], show_expr(p[1])) for p in x) + "}")
        elif k == "pat":
            args.append("/" + "".join(((".", "a", "b", "\\n")[a["c"]]) + ("*" if a["star"] else "") for a in x["atoms"]) + ("$" if x["anch"] else "") + "/" + x.get("fl", ""))
        elif k == "fo":
            if x:
                args.append("first_only=True")
        else:
            args.append("%s=%s" % (k, x if not isinstance(x, list) else "|".join(map(str, x))))
    return "%s(%s)" % (op, ", ".join(args))


# ---------------------------------------------------------------------------------------------------------
LIGHT = False  # quick tier: one permuted construction instead of two


def variants_for(e, v, rnd, extra_setwise=2):
    out = [dict(perm=0)]
    if mc.order_free(e) or v["k"] == "dict":
        out.append(dict(perm=1))
        if not LIGHT:
            out.append(dict(perm=2))
    if mc.has_op(e, ("MatchesSetwise",)):
        out += [dict(perm=2)] * (1 if LIGHT else extra_setwise)  # more allocation orders for the set of matchers
    if mc.has_repeated_subexpr(e):
        out.append(dict(perm=0, shared=True))
    if mc.has_alt(e):
        out.append(dict(perm=0, alt=True))
    if mc.has_op(e, ("MatchesStructure",)):
        # derived matchers: update() on every MatchesStructure of the tree, before the original is used
        out.append(dict(perm=0, derive=True))
        out.append(dict(perm=0, alt=True, derive=True))
    if mc.has_op(e, ("MatchesRegex",)):
        # cross-matcher state: the same patterns with other flags are used first, on the same value
        out.append(dict(perm=0, twin=1))
        if not LIGHT:
            out.append(dict(perm=0, twin=2))
    return out


def diff_class(a, b, cur=None):
    """Name of the innermost object on the path to the first difference between two snapshots."""
    if a == b:
        return None
    if isinstance(a, tuple) and isinstance(b, tuple) and len(a) == len(b):
        if len(a) == 3 and a[0] == "obj" and b[0] == "obj" and a[1] == b[1]:
            cur = a[1]
        for x, y in zip(a, b):
            if x != y:
                return diff_class(x, y, cur)
    return cur


def envkw_of(var):
    return {k: x for k, x in var.items() if k not in ("twin", "derive")}


def derive_from(env):
    """Derived-matcher operations on every MatchesStructure object of a construction: replace, remove and add an
    attribute matcher with update() and throw the derived matcher away.  The original must not notice."""
    from testtools import matchers as M

    for obj in list(env.built.values()):
        if type(obj).__name__ != "MatchesStructure":
            continue
        names = sorted(obj.kws)
        if names:
            obj.update(**{names[0]: M.Never()})
            obj.update(**{names[-1]: None})
            obj.update(**{n: M.Always() for n in names}).update(**{names[0]: None})
        obj.update(zz=M.Never())
        obj.update()


def check_pair(e, v, expected, cx, pool, rnd, variants):
    """Returns a list of failures: dicts clause, variant, observed, detail."""
    fails = []
    for var in variants:
        mc.jitter(rnd)
        env = mc.Env(cx, pool, rnd=rnd, **envkw_of(var))
        val = mc.build_value(v, env)
        if var.get("twin"):
            # a sibling matcher (same regex patterns, other flags) matches first: it must not influence `m`
            mc.verdict(mc.build_matcher(mc.regex_twin(e, var["twin"]), mc.Env(cx, pool, rnd=rnd)), val)
        m = mc.build_matcher(e, env)
        sm0 = mc.snapshot(m)
        sv0 = mc.snap_value(v, val)
        str0 = None
        if var.get("derive"):
            # matchers derived from this one (MatchesStructure.update) are built and dropped before it is used:
            # its verdict, its structure and its str() must be those of the matcher as written
            try:
                str0 = str(m)
                derive_from(env)
            except Exception as ex:  # noqa
                fails.append(dict(clause="matcher-modified", variant=var, observed="update raised %s" % type(ex).__name__))
        r1, _ = mc.verdict(m, val)
        r2, _ = mc.verdict(m, val)
        sm1 = mc.snapshot(m)
        sv1 = mc.snap_value(v, val)
        if str0 is not None and sm0 == sm1 and str(m) != str0:
            fails.append(dict(clause="matcher-modified", variant=var, observed="str:" + e["op"]))
        mc.jitter(rnd, keep=m)
        if r1 != expected:
            # what every sub-matcher OBJECT of this very construction says about its sub-value (same objects, same
            # process state: the verdicts that produced the failure); TLC decides these rows when the failure is localised
            sub = []
            for ce, cv in mc.descendants(e, v):
                obj = env.built.get(id(ce))
                if obj is not None:
                    sub.append({"e": ce, "v": cv, "r": mc.verdict(obj, mc.build_value(cv, env))[0]})
            fails.append(dict(clause="raised" if r1.startswith("E:") else "verdict", variant=var, observed=r1, sub=sub))
        if r2 != r1:
            fails.append(dict(clause="unstable", variant=var, observed="%s then %s" % (r1, r2)))
        if sm0 != sm1:
            fails.append(dict(clause="matcher-modified", variant=var, observed=diff_class(sm0, sm1) or e["op"]))
        if sv0 != sv1:
            fails.append(dict(clause="value-modified", variant=var, observed=repr(sv1)[:200]))
    # a failure that needs one object passed several times is a different defect from one that does not
    plain_bad = any(f["clause"] in ("verdict", "raised") and not f["variant"].get("shared") for f in fails)
    for f in fails:
        if f["clause"] in ("verdict", "raised") and f["variant"].get("shared") and not plain_bad:
            f["clause"] += "-shared-object"
    return fails


def localise_all(failures, pool, rep, rnd):
    """failures: list of dicts with e, v, cx, clause, expected, observed.  Adds 'signature' to each."""
    allneed = [f for f in failures if f["clause"].startswith(("verdict", "raised", "unstable"))]
    # the same pair usually fails under several concretisations / constructions: localise it once
    groups = {}
    for f in allneed:
        groups.setdefault(jdump((f["clause"].endswith("-shared-object"), f["e"], f["v"], f["expected"], f["observed"])), []).append(f)
    need = [g[0] for g in groups.values()]
    # Rebuild the failing pair until the failure shows again (a hash-order dependent verdict needs the right
    # allocation order), then ask every sub-matcher OBJECT of that very construction for its verdict on its
    # sub-value: same objects, same set iteration order, hence the verdicts that produced the failure.
    sub = []
    owner = []
    for n, f in enumerate(need):
        if f["clause"].startswith("unstable"):
            continue
        if "sub" in f:  # collected from the failing construction itself (possibly in a worker process)
            for row in f["sub"]:
                sub.append(row)
                owner.append(n)
            continue
        env = None
        for attempt in range(80):
            env = mc.Env(f["cx"], pool, rnd=rnd, **envkw_of(f["variant"]))
            val = mc.build_value(f["v"], env)
            m = mc.build_matcher(f["e"], env)
            r, _ = mc.verdict(m, val)
            mc.jitter(rnd, keep=(m, val))
            if r != f["expected"]:
                break
        else:
            f["unreproduced"] = True
            continue
        for ce, cv in mc.descendants(f["e"], f["v"]):
            obj = env.built.get(id(ce))
            if obj is None:
                continue  # built through a convenience constructor: no separate object
            rv, _ = mc.verdict(obj, mc.build_value(cv, env))
            sub.append({"e": ce, "v": cv, "r": rv})
            owner.append(n)
    bad = mc.trace_verdicts(sub, rep, "localise") if sub else {}
    per = {}
    for i, sv in bad.items():
        if sv != "X":
            per.setdefault(owner[i - 1], []).append((sub[i - 1], sv))
    for n, f in enumerate(need):
        cands = per.get(n)
        if cands:
            row, sv = min(cands, key=lambda c: len(jdump(c[0]["e"])))
            f["culprit"] = (row["e"]["op"], sv, row["r"])
        else:
            f["culprit"] = (f["e"]["op"], f["expected"], f["observed"])
    for g in groups.values():
        for f in g[1:]:
            f["culprit"] = g[0]["culprit"]
    for f in failures:
        if "culprit" in f:
            op, exp, obs = f["culprit"]
            if f["clause"] == "unstable" or f["clause"].endswith("-shared-object"):
                f["signature"] = "%s:%s" % (f["clause"], op)
            else:
                f["signature"] = "%s:%s:expected=%s:observed=%s" % (f["clause"], op, exp, obs)
        else:
            f["signature"] = "%s:%s" % (f["clause"], f["observed"] if f["clause"] == "matcher-modified" else f["e"]["op"])


def report_failures(rep, failures, pool, rnd):
    """One localisation run (TLC) for all failing pairs of the check, then one violation per signature."""
    if not failures:
        return
    localise_all(failures, pool, rep, rnd)
    # one replay scenario per signature: the smallest failing pair
    best = {}
    for f in failures:
        k = (f["clause"], f["signature"])
        if k not in best or len(jdump(f["e"])) < len(jdump(best[k]["e"])):
            best[k] = f
    for (clause, sig), f in sorted(best.items()):
        rep.violation(
            clause,
            sig,
            {
                "expr": f["e"],
                "value": f["v"],
                "cx": f["cx"].name,
                "variant": f["variant"],
                "shown": "%s  .match(%s)" % (show_expr(f["e"]), show_value(f["v"])),
                "source": f.get("source"),
                "count": sum(1 for g in failures if g["signature"] == sig),
            },
            expected=f["expected"],
            observed=f["observed"],
        )


def pick_cxs(srt, e, v, rnd, n_extra=1):
    if not (mc.has_text(e) or mc.has_text(v)) or srt == "path":
        return [mc.CX_ASCII]
    rest = [c for c in mc.CX_ALL[1:] if mc.cx_applicable(c, srt, e)]
    if not mc.cx_applicable(mc.CX_ASCII, srt, e):
        return rest[:1]
    return [mc.CX_ASCII] + rnd.sample(rest, min(n_extra, len(rest)))


def replay_rows(rep, rows, uni, pool, rnd, source, sample_every=9973):
    failures = []
    texty_sort = {"str": True, "lstr": True}
    for row in rows:
        e, srt = row["e"], row["srt"]
        nontriv = mc.depth_of(e) >= 2
        # facts that depend on the expression only are computed once per row
        var = variants_for(e, {"k": "dict" if srt == "dict" else srt}, rnd)
        if srt == "path" or not (texty_sort.get(srt) or mc.has_text(e)):
            others = []
        else:
            others = [c for c in mc.CX_ALL[1:] if mc.cx_applicable(c, srt, e)]
        shown_e = None
        for v, expected in zip(uni[srt], row["r"]):
            if expected == "X":
                continue  # outside the documented domain (FileContains on a directory)
            cxs = [mc.CX_ASCII] + ([rnd.choice(others)] if others else [])
            for cx in cxs:
                fails = check_pair(e, v, expected, cx, pool, rnd, var)
                want_sample = nontriv and rep.evaluations % sample_every == 17
                rep.case(
                    sample={"matcher": show_expr(e), "value": show_value(v), "expected": expected, "text_as": cx.name, "constructions": len(var)}
                    if want_sample
                    else None,
                    nontrivial_key=sig_hash((e, v, cx.name)) if nontriv else None,
                )
                for f in fails:
                    f.update(e=e, v=v, cx=cx, expected=expected, source=source)
                    failures.append(f)
    return failures


def _replay_worker(args):
    rows, uni, seed, source, light = args
    global LIGHT
    LIGHT = light
    acc = mc.Acc()
    pool = mc.PathPool("c06w")
    try:
        fails = replay_rows(acc, rows, uni, pool, random.Random(seed), source)
    finally:
        pool.close()
    return acc, fails


def replay_rows_parallel(rep, rows, uni, pool, rnd, source, nproc=3):
    """replay_rows over `nproc` worker processes (inline for small jobs)."""
    if len(rows) < 600:
        return replay_rows(rep, rows, uni, pool, rnd, source)
    chunks = mc.split(rows, nproc)
    out = mc.run_parallel(_replay_worker, [(c, uni, rnd.randrange(2**31), source, LIGHT) for c in chunks], nproc)
    failures = []
    for acc, fails in out:
        mc.merge_acc(rep, acc)
        failures += fails
    return failures


def random_rows(rep, pool, rnd, n, maxdepth, source):
    """code -> spec: random typed pairs, verdict recorded from the real matcher, decided by TLC."""
    g = mc.Gen(rnd)
    sorts = ["int", "str", "str", "num", "lint", "lint", "lstr", "lstr", "llint", "lnum", "lnum", "dict", "dict", "obj", "exc", "call", "path"]
    rows = []
    meta = []
    while len(rows) < n:
        s = rnd.choice(sorts)
        e = g.expr(s, rnd.randrange(2, maxdepth + 1))
        v = g.value(s)
        if not mc.in_domain_hint(e, v):
            continue
        cxs = pick_cxs(s, e, v, rnd)
        cx = cxs[-1]
        var = rnd.choice(variants_for(e, v, rnd, extra_setwise=1))
        mc.jitter(rnd)
        env = mc.Env(cx, pool, rnd=rnd, **envkw_of(var))
        val = mc.build_value(v, env)
        if var.get("twin"):
            mc.verdict(mc.build_matcher(mc.regex_twin(e, var["twin"]), mc.Env(cx, pool, rnd=rnd)), val)
        m = mc.build_matcher(e, env)
        sm0, sv0 = mc.snapshot(m), mc.snap_value(v, val)
        r1, _ = mc.verdict(m, val)
        r2, _ = mc.verdict(m, val)
        rows.append({"e": e, "v": v, "r": r1})
        sm1 = mc.snapshot(m)
        meta.append((cx, var, r1 != r2, (diff_class(sm0, sm1) or e["op"]) if sm0 != sm1 else None, sv0 != mc.snap_value(v, val)))
    bad = mc.trace_verdicts(rows, rep, source)
    failures = []
    skipped = 0
    for i, row in enumerate(rows, 1):
        cx, var, unstable, mmod, vmod = meta[i - 1]
        sv = bad.get(i)
        if sv == "X":
            skipped += 1
            continue
        rep.traces += 1
        nontriv = mc.depth_of(row["e"]) >= 2
        rep.case(
            sample={"matcher": show_expr(row["e"]), "value": show_value(row["v"]), "observed": row["r"], "decided_by": "MatchersTrace.tla", "text_as": cx.name}
            if nontriv and i % 997 == 5
            else None,
            nontrivial_key=sig_hash((row["e"], row["v"], cx.name)) if nontriv else None,
        )
        base = dict(e=row["e"], v=row["v"], cx=cx, variant=var, source=source)
        if sv is not None:
            clause = "raised" if row["r"].startswith("E:") else "verdict"
            if var.get("shared"):
                # does it also fail without sharing?  (decides which defect this is)
                plain = mc.real_verdict(row["e"], row["v"], cx, pool, rnd=rnd, perm=var.get("perm", 0))  # noqa
                if plain == sv:
                    clause += "-shared-object"
            failures.append(dict(base, clause=clause, expected=sv, observed=row["r"]))
        if unstable:
            failures.append(dict(base, clause="unstable", expected=row["r"], observed="differs on the second call"))
        if mmod:
            failures.append(dict(base, clause="matcher-modified", expected="unchanged", observed=mmod))
        if vmod:
            failures.append(dict(base, clause="value-modified", expected="unchanged", observed="changed"))
    if skipped > len(rows) // 10:
        raise tlc.MachineryError("random generator: %d of %d pairs fall outside the spec's domain" % (skipped, len(rows)))
    rep.extra["random_rows_outside_domain_skipped"] = rep.extra.get("random_rows_outside_domain_skipped", 0) + skipped
    return failures


RULE = (
    "pairs (matcher expression, value): every expression TLC builds with the actions PushLeaf/Wrap/Combine(/Combine3) of "
    "spec/match/Matchers.tla up to the depth/node bound of the config (exhaustive) or by tlc -simulate (random deeper), "
    "paired with every value of its sort's universe; plus seeded random larger pairs built by the harness and decided by "
    "TLC through MatchersTrace.tla. Each pair is executed under 1-2 concretisations of the text alphabet and 1-5 (quick) / "
    "1-7 (thorough) constructions. Non-trivial = the expression contains at least one combinator (height >= 2); distinct by "
    "(expression, value, concretisation)."
)


def run(tier, pid="C06"):
    use_repo()
    rep = Report("C06", tier, "exploration", RULE)
    rep.assume("Sem in spec/match/MatcherSem.tla is the documented predicate of each stock matcher (read from the docstrings)")
    rep.assume("FileContains applied to a directory is outside its documented domain (the code raises IsADirectoryError); such pairs are not judged")
    rep.assume("Is() on integers relies on CPython's small-integer cache; Is() on other values is explored on objects with explicit identities")
    rep.assume("text values are concretised as str or bytes over two code units A < B (ASCII, non-ASCII, control, quotes, newline, high bytes, astral); paths only with ASCII names/contents")
    rep.assume("not modelled: DocTestMatches, Warnings/WarningMessage/IsDeprecated, HasPermissions, SamePath, TarballContains, MatchesPredicateWithParams (other than HasLength)")
    rnd = random.Random(rep.seed)
    pool = mc.PathPool("c06")
    # The stock matchers outside spec/match (doctest, warnings, SamePath/HasPermissions/TarballContains,
    # MatchesPredicateWithParams) have their own TLA+ semantics in spec/extra (X12): part of "every stock matcher".
    # That sub-check is independent of this driver, so it runs in a background thread (it collects into a Report of
    # its own, merged below) while the pairs of spec/match are replayed here.
    from concurrent.futures import ThreadPoolExecutor

    from .common import run_subcheck

    subrep = Report("C06", tier, "exploration", RULE)
    subex = ThreadPoolExecutor(max_workers=1)
    subfut = subex.submit(run_subcheck, subrep, "x12", "X12", tier, "x12")
    try:
        mc.check_greedy_counterexample(rep, "C06")
        global LIGHT
        LIGHT = tier == "quick"
        if tier == "quick":
            jobs = [
                ("mt_mcQ.cfg", {}),
                ("mt_mcD3q.cfg", {}),
                ("mt_mcT3.cfg", dict(actions=["PushLeaf", "Combine", "Combine3"])),
                ("mt_sim.cfg", dict(simulate=dict(num=15, depth=14), seed=rep.seed + 1)),
            ]
            nrandom, rdepth = 3000, 5
        else:
            jobs = [
                ("mt_mcQ.cfg", {}),
                ("mt_mcF.cfg", {}),
                ("mt_mcD3.cfg", {}),
                ("mt_mcT3.cfg", dict(actions=["PushLeaf", "Combine", "Combine3"])),
                ("mt_sim.cfg", dict(simulate=dict(num=400, depth=16), seed=rep.seed + 1)),
            ]
            nrandom, rdepth = 60000, 6
        import time

        failures = []
        phases = rep.extra.setdefault("phase_wall_s", {})
        for cfg, rows, uni, r in mc.tlc_rows_pipeline(jobs, "C06"):  # TLC of the next job runs during this replay
            rep.add_tlc(r, cfg)
            t1 = time.time()
            failures += replay_rows_parallel(rep, rows, uni, pool, rnd, cfg)
            phases[cfg] = {"tlc": round(r.wall_s, 1), "replay": round(time.time() - t1, 1)}
        done = 0
        t0 = time.time()
        while done < nrandom:
            n = min(20000, nrandom - done)
            failures += random_rows(rep, pool, rnd, n, rdepth, "random-%d" % done)
            done += n
        phases["random rows + MatchersTrace"] = round(time.time() - t0, 1)
        t0 = time.time()
        report_failures(rep, failures, pool, rnd)
        phases["localise failures"] = round(time.time() - t0, 1)
    finally:
        pool.close()
        subex.shutdown(wait=True)  # the sub-check redirects stdout while it runs: let it finish before anything is printed
    subfut.result()  # a machinery failure of the sub-check is a machinery failure of this check
    rep.evaluations += subrep.evaluations
    rep.states += subrep.states
    rep.transitions += subrep.transitions
    rep.traces += subrep.traces
    rep.tlc_runs += subrep.tlc_runs
    rep.violations += subrep.violations
    rep.known += subrep.known
    rep.extra["driver_cpu_s"] = round(time.process_time(), 1)
    rep.exhaustive = False
    rep.extra["explanation"] = (
        "exhaustive over the expression/value spaces of the mt_mc*.cfg configs (bounds in spec/match/*.cfg and "
        "MCMatchers.tla); random for mt_sim.cfg and for the harness-generated rows decided by MatchersTrace.tla"
    )
    return rep.finish()


def replay_file(path, pid="C06"):
    import json

    use_repo()
    v = json.load(open(path))
    sc = v["scenario"]
    cx = [c for c in mc.CX_ALL if c.name == sc["cx"]][0]
    pool = mc.PathPool("c06r")
    rnd = random.Random(0)
    try:
        var = sc["variant"]
        # the spec's verdict for exactly this pair, then many constructions of it
        bad = mc.trace_verdicts([{"e": sc["expr"], "v": sc["value"], "r": "?"}], None, "replay")
        expected = bad.get(1)
        fails = []
        for _ in range(12):
            fails += check_pair(sc["expr"], sc["value"], expected, cx, pool, rnd, [var] + variants_for(sc["expr"], sc["value"], rnd))
    finally:
        pool.close()
    print("pair: %s" % sc.get("shown"))
    print("spec verdict: %s" % expected)
    if fails:
        print("VIOLATION property=C06 replay=%s" % path)
        for f in fails[:5]:
            print("  clause=%s construction=%s observed=%s" % (f["clause"], f["variant"], f["observed"]))
        return 1
    print("replay: the real matcher agrees with the spec on this pair")
    return 0
