"""C14 - AsynchronousDeferredRunTest: Deferred-returning tests succeed iff all completed cleanly.

Spec: spec/twisted/AsyncRunTest.tla (virtual time).  TLC checks OneOutcome, Sequenced, SuccessIff,
TimeoutIsError, InterruptIsError, AfterRun on every scenario of the bounded space and exports each
scenario with what the model expects (units started with their virtual start times, the set of allowed
outcomes, whether result.stop() is called).  Each scenario is turned into a real TestCase run by the
real AsynchronousDeferredRunTest(ForBrokenTwisted) on the deterministic virtual-time reactor
(harness/vreactor.py), and the observation is compared."""

import gc
import io
import sys

from . import tlc
from .common import Report, jdump, use_repo

PROPS = ("C14",)
NOINTR = 999
NEVER = 998
FAR = 500


def build_case(scen, reactor, log, flushlog=None):
    flushlog = [] if flushlog is None else flushlog
    import testtools
    from twisted.internet import defer
    from twisted.python import failure
    from twisted.python import log as tlog

    from testtools.matchers import Equals
    from testtools.twistedsupport import (
        AsynchronousDeferredRunTest,
        AsynchronousDeferredRunTestForBrokenTwisted,
        flush_logged_errors,
    )

    beh, side, ncl = scen["beh"], scen["side"], scen["ncl"]
    runner = AsynchronousDeferredRunTestForBrokenTwisted if scen["variant"] == "broken" else AsynchronousDeferredRunTest
    keep = []  # references the harness itself must not hold for dropped Deferreds: nothing goes here for "drop"

    def exc_of(kind, unit):
        if kind == "fail":
            return AssertionError("fail in %s" % unit)
        if kind == "skip":
            return testtools.TestCase.skipException("skip in %s" % unit)
        if kind == "ki":
            return KeyboardInterrupt("ki in %s" % unit)
        return RuntimeError("err in %s" % unit)

    def do(unit, case):
        log.append((unit, reactor.seconds()))
        if side["unit"] == unit:
            if side["what"] == "leave":
                reactor.callLater(FAR, lambda: None)
            elif side["what"] == "chain0":
                reactor.callLater(0, lambda: reactor.callLater(FAR, lambda: None))
            elif side["what"] == "logerr":
                tlog.err(failure.Failure(RuntimeError("logged in %s" % unit)))
            elif side["what"] == "drop":
                defer.fail(RuntimeError("dropped in %s" % unit))  # never given an errback
            elif side["what"] == "expect":
                case.expectThat(1, Equals(2))  # does not raise: the test must fail once it has finished
            elif side["what"] in ("logflush", "flushall"):
                tlog.err(failure.Failure(RuntimeError("logged in %s" % unit)))
                tlog.err(failure.Failure(LookupError("also logged in %s" % unit)))
                # the user declares which logged errors were expected: only those go away
                flushed = flush_logged_errors(LookupError) if side["what"] == "logflush" else flush_logged_errors()
                flushlog.append(sorted(type(f.value).__name__ for f in flushed))
        b = beh[unit]
        if b["b"] == "ret":
            return None
        if b["b"] == "raise":
            raise exc_of(b["k"], unit)
        if b["b"] == "dpause":
            inner = defer.Deferred()
            reactor.callLater(b["d"], inner.callback, None)
            return defer.succeed(None).addCallback(lambda _: inner)  # called, but paused until `inner` fires
        d = defer.Deferred()
        if b["b"] == "dfire":
            reactor.callLater(b["d"], d.callback, None)
        elif b["b"] == "dfail":
            reactor.callLater(b["d"], d.errback, failure.Failure(exc_of(b["k"], unit)))
        else:
            keep.append(d)  # never fires
        return d

    class Case(testtools.TestCase):
        run_tests_with = runner.make_factory(
            reactor=reactor,
            timeout=scen["T"],
            suppress_twisted_logging=scen.get("suppress", True),
            store_twisted_logs=scen.get("store", True),
        )

        def setUp(self):
            super().setUp()
            for i in range(ncl):
                c = "c%d" % (i + 1)
                self.addCleanup(do, c, self)
            return do("setUp", self)

        def test_it(self):
            return do("body", self)

        def tearDown(self):
            r = do("tearDown", self)
            super().tearDown()
            return r

    return Case("test_it"), keep


def observe(scen):
    from testtools.testresult import doubles
    from testtools.twistedsupport._runtest import _get_global_publisher_and_observers

    from .vreactor import VReactor

    reactor = VReactor()
    log = []
    flushlog = []
    case, keep = build_case(scen, reactor, log, flushlog)
    res = doubles.ExtendedTestResult()
    _, obs_before = _get_global_publisher_and_observers()
    if scen["intr"] != NOINTR:
        reactor.callLater(scen["intr"], lambda: reactor.stop())
    raised = None
    # with log suppression off Twisted's fallback observer writes "Unhandled Error" to stderr: keep it quiet
    real_stderr, sys.stderr = sys.stderr, io.StringIO()
    try:
        case.run(res)
    except BaseException as ex:  # noqa
        raised = type(ex).__name__
    finally:
        sys.stderr = real_stderr
    _, obs_after = _get_global_publisher_and_observers()
    names = []
    outcome = None
    stop = False
    for ev in res._events:
        n = ev[0]
        if n in ("startTest", "stopTest"):
            names.append(n)
        elif n.startswith("add"):
            names.append("outcome")
            outcome = {
                "addSuccess": "success",
                "addFailure": "failure",
                "addError": "error",
                "addSkip": "skip",
                "addExpectedFailure": "xfail",
                "addUnexpectedSuccess": "uxsuccess",
            }[n]
        elif n == "stop":
            stop = True
    stop = stop or bool(getattr(res, "shouldStop", False))
    # the harness's own pending interrupt request is cleaned by the spinner as junk, like any left-over call
    left = [c for c in reactor.getDelayedCalls()]
    return {
        "ran": [{"u": u, "at": int(t)} for u, t in log],
        "names": names,
        "outcome": outcome,
        "stop": stop,
        "left": len(left),
        "running": bool(reactor.running),
        "observers_same": [id(o) for o in obs_before] == [id(o) for o in obs_after],
        "propagated": raised,
        "flushed": flushlog,
        "side_what": scen["side"]["what"],
    }


def compare(exp, obs):
    """-> list of failing clauses"""
    bad = []
    if obs["names"] != ["startTest", "outcome", "stopTest"]:
        bad.append("one-outcome")
    # nothing but a KeyboardInterrupt raised by user code leaves run(); one raised by setUp / test / tearDown always does
    allowed_prop = {"no": (None,), "may": (None, "KeyboardInterrupt"), "must": ("KeyboardInterrupt",)}[exp.get("prop", "no")]
    if obs["propagated"] not in allowed_prop:
        bad.append("one-outcome" if exp.get("prop", "no") == "no" else "base-exception-propagates")
    if obs["ran"] != exp["ran"]:
        bad.append("sequenced")
    if obs["outcome"] not in exp["allowed"]:
        if exp["allowed"] == ["success"] or obs["outcome"] == "success":
            bad.append("success-iff")
        elif exp["timedOut"]:
            bad.append("timeout-is-error")
        elif exp["interrupted"]:
            bad.append("interrupt-is-error")
        else:
            bad.append("outcome")
    if exp["interrupted"] and not obs["stop"]:
        bad.append("interrupt-asks-stop")
    if obs["left"] or obs["running"]:
        bad.append("reactor-clean")
    if not obs["observers_same"]:
        bad.append("observers-restored")
    want = {"logflush": [["LookupError"]], "flushall": [["LookupError", "RuntimeError"]]}
    if obs.get("flushed") and obs["flushed"] != want.get(obs.get("side_what"), obs["flushed"]):
        bad.append("flush-returns-declared")
    return bad


def risky(scen):
    return scen["side"]["what"] == "drop" or any(b["b"] in ("dfail", "never") for b in scen["beh"].values())


def nontrivial(scen):
    beh = scen["beh"]
    return any(b["b"] in ("dfire", "dpause", "dfail", "never") for b in beh.values()) or scen["side"]["what"] != "none"


def signature(scen, clause):
    kinds = sorted(set(b["b"] for b in scen["beh"].values() if b["b"] != "ret"))
    return "%s:beh=%s:side=%s:%s" % (
        clause,
        "+".join(kinds) or "ret",
        scen["side"]["what"],
        "intr" if scen["intr"] != NOINTR else "nointr",
    )


def run(tier, pid="C14"):
    use_repo()
    rep = Report(
        "C14",
        tier,
        "model_checking",
        "scenarios = (behaviour of setUp/test/tearDown/0..2 cleanups: return, raise, Deferred firing/failing after a "
        "delay, never; one optional side effect: delayed call left behind, error logged to Twisted, failed Deferred "
        "dropped; timeout; interrupt instant; runner variant) enumerated by TLC from AsyncRunTest.tla; each run with the "
        "real AsynchronousDeferredRunTest on a virtual-time reactor. Non-trivial = some unit returns a Deferred or a side "
        "effect is present; distinct by scenario.",
    )
    rep.assume("virtual-time reactor harness/vreactor.py (task.Clock + run/crash/stop); no same-instant ties: delays even, timeout/interrupt odd")
    rep.assume("automatic garbage collection is off while scenarios run and a collection is forced between scenarios: a failed Deferred left by one test and collected during the next would (legitimately) fail that next test")
    rep.assume("which non-success outcome is reported is not fixed by C14 except timeout/interrupt => error")
    rep.assume("a stop request still pending when the test finishes is itself a left-over delayed call (=> error)")
    cfgs = ["ar_quick.cfg", "ar_user.cfg", "ar_ki.cfg"] if tier == "quick" else ["ar_quick.cfg", "ar_user.cfg", "ar_ki.cfg", "ar_exp_t.cfg"]
    if tier == "thorough":
        r = tlc.run_tlc("twisted", "MCAsyncRunTest", "ar_thorough.cfg", coverage=True, timeout=3000, workers=8)
        tlc.require_ok(r, "C14 ar_thorough.cfg")
        rep.add_tlc(r, "ar_thorough.cfg")
    gc.collect()
    gc.disable()
    seen = set()
    flags = [(True, True), (False, True), (True, False), (False, False)]
    n = 0
    for cfg in cfgs:
        r = tlc.run_tlc("twisted", "MCAsyncRunTest", cfg, coverage=True, timeout=3000, workers=8)
        tlc.require_ok(r, "C14 " + cfg)
        tlc.require_coverage(r, ["Begin", "Complete", "TimeoutFires", "InterruptFires", "ChainDone", "Account", "Report"], cfg)
        rep.add_tlc(r, cfg)
        for row in tlc.exported(r):
            scen, exp = row["scen"], row["exp"]
            k = jdump(scen)
            if k in seen:
                continue
            seen.add(k)
            n += 1
            # logging suppression / capture on or off: rotate deterministically
            scen["suppress"], scen["store"] = flags[n % 4]
            obs = observe(scen)
            # A failed Deferred left behind by one scenario must not be garbage-collected (and logged as
            # "Unhandled error in Deferred") while the NEXT scenario's error observer is installed: collect
            # between scenarios, outside any test, with automatic collection off during the runs.
            if n % 1000 == 0:
                gc.collect()
            elif risky(scen) or n % 50 == 0:
                gc.collect(0)
            bad = compare(exp, obs)
            rep.case(
                sample={"scenario": scen, "expected": exp} if n % 3001 == 5 else None,
                nontrivial_key=k if nontrivial(scen) else None,
            )
            rep.traces += 1
            for clause in bad:
                rep.violation(clause, signature(scen, clause), {"scenario": scen}, expected=exp, observed=obs)
    if n == 0:
        raise tlc.MachineryError("C14: no scenarios exported")
    # AsyncRunTest.tla abstracts the Spinner to what C15 establishes (result of run(), junk, restoration - including
    # the same-reactor-pass races that need a busy reactor): that assumption is discharged here by running C15's
    # check as part of this one
    from .common import run_subcheck

    run_subcheck(rep, "c15", "C15", tier, "c15")
    rep.assume("Spinner behaviour (AsyncRunTest.tla's abstraction of it) is established by the C15 sub-check run inside this check")
    return rep.finish()


def replay_file(path, pid="C14"):
    import json

    use_repo()
    v = json.load(open(path))
    obs = observe(v["scenario"]["scenario"])
    bad = compare(v["expected"], obs)
    print("replay:", bad or "conforms", obs)
    if bad:
        print("VIOLATION property=C14 replay=%s" % path)
        return 1
    return 0
