"""Shared by c06.py and c07.py: binding between the matcher ASTs of spec/match/MatcherSem.tla and the real
testtools matchers.

* Cx            - a concretisation of the symbolic text alphabet {1, 2} (str / bytes, ASCII / non-ASCII / control ...)
* Env           - one construction: fresh objects, argument-order permutation, optional sharing of equal sub-matchers
* build_value / build_matcher - AST -> real matchee / matcher
* snapshot      - deep structural snapshot (to show that match() modifies neither side)
* verdict       - run match(): "T" None, "F" a mismatch, "P" the matchee's BaseException propagated, "E:<type>" other
* tlc_rows      - run TLC on spec/match/MCMatchers with a config and return the exported oracle rows
* children / trace_verdicts / localise - sub-pairs of a failing pair are sent back through MatchersTrace.tla so that
  the *spec* names the smallest failing sub-expression (used for one-defect-one-signature)
* gen_expr      - seeded random generator of typed (expression, value) pairs, larger than what TLC enumerates
"""

import hashlib
import json
import os
import random
import re
import shutil
import sys
import types

from . import tlc
from .common import BUILD, jdump

ELEM = {"lint": "int", "lstr": "str", "llint": "lint", "lnum": "num"}


class VerifBase(BaseException):
    """'BE': a direct BaseException subclass (stands for KeyboardInterrupt/SystemExit without their side effects)."""


EXC = {"VE": ValueError, "KE": KeyError, "LE": LookupError, "EX": Exception, "BE": VerifBase, "BX": BaseException}


class Obj:
    """An object with attributes x, y: == is structural, `is` is identity."""

    def __init__(self, x, y):
        self.x = x
        self.y = y

    def __eq__(self, other):
        return isinstance(other, Obj) and (self.x, self.y) == (other.x, other.y)

    def __ne__(self, other):
        return not self.__eq__(other)

    def __hash__(self):
        return hash((self.x, self.y))

    def __repr__(self):
        return "Obj(x=%r, y=%r)" % (self.x, self.y)


# ---------------------------------------------------------------------------------------------------------
class Cx:
    """Concretisation of symbolic texts: symbol 1 -> A, symbol 2 -> B, symbol 3 -> newline, with newline < A < B
    (single code units), so that equality, prefix/suffix/infix, lexicographic order, length and the regex language
    (incl. what '.' and '$' do with a newline under re.S / re.M) are preserved."""

    def __init__(self, name, A, B, regex_ok=True):
        assert A < B and len(A) == 1 and len(B) == 1 and A > A[:0] + (b"\n" if isinstance(A, bytes) else "\n")
        self.name = name
        self.A = A
        self.B = B
        self.isbytes = isinstance(A, bytes)
        self.texttype = bytes if self.isbytes else str
        self.regex_ok = regex_ok
        self.NL = b"\n" if self.isbytes else "\n"
        self.sym = {1: self.A, 2: self.B, 3: self.NL}

    def text(self, seq):
        e = b"" if self.isbytes else ""
        return e.join([self.sym[c] for c in seq])

    def key(self, name):
        if self.isbytes:
            return name.encode()
        if self.name in ("nonascii", "astral"):
            return "ключ-" + name
        return name

    def regex(self, pat):
        out = []
        for at in pat["atoms"]:
            if at["c"] == 0:
                p = b"." if self.isbytes else "."
            else:
                p = re.escape(self.sym[at["c"]])
            if at["star"]:
                p = (b"(?:" + p + b")*") if self.isbytes else ("(?:" + p + ")*")
            out.append(p)
        if pat["anch"]:
            out.append(b"$" if self.isbytes else "$")
        return (b"" if self.isbytes else "").join(out)


CX_ASCII = Cx("ascii", "a", "b")
CX_ALL = [
    CX_ASCII,
    Cx("bytes", b"a", b"b"),
    Cx("nonascii", "é", "語"),
    Cx("control", "\x0b", "\x7f"),
    Cx("quotes", "'", "\\"),
    Cx("dquote", '"', "|"),
    Cx("bytes-high", b"\x10", b"\xff"),
    Cx("astral", " ", "\U0001f600"),
]


def has_op(e, ops):
    if isinstance(e, dict):
        if e.get("op") in ops:
            return True
        return any(has_op(x, ops) for x in e.values())
    if isinstance(e, list):
        return any(has_op(x, ops) for x in e)
    return False


def has_text(x):
    """Does the AST / value mention a symbolic text?"""
    if isinstance(x, dict):
        if x.get("k") == "str" or x.get("op") in ("MatchesRegex",) or "text" in (x.get("tys") or ()):
            return True
        return any(has_text(y) for y in x.values())
    if isinstance(x, list):
        return any(has_text(y) for y in x)
    return False


def cx_applicable(cx, srt, e):
    if srt == "path" or has_op(e, ("FileContains", "FileContainsM", "DirContains", "DirContainsM")):
        return cx.name == "ascii"  # file names / text-mode file contents: plain ASCII only
    if not cx.regex_ok and has_op(e, ("MatchesRegex",)):
        return False
    return True


# ---------------------------------------------------------------------------------------------------------
class PathPool:
    """Concrete filesystem objects for the abstract path values, in a scratch directory under /verif/build."""

    def __init__(self, tag):
        os.makedirs(BUILD, exist_ok=True)
        self.root = os.path.join(BUILD, "paths-%s-%d" % (tag, os.getpid()))
        shutil.rmtree(self.root, ignore_errors=True)
        os.makedirs(self.root)
        self.made = {}

    def path_for(self, v):
        key = jdump(v)
        p = self.made.get(key)
        if p is None:
            p = os.path.join(self.root, v["st"] + "-" + hashlib.sha1(key.encode()).hexdigest()[:10])
            if v["st"] == "file":
                with open(p, "w") as f:
                    f.write(CX_ASCII.text(v["content"]))
            elif v["st"] == "dir":
                os.makedirs(p)
                for n in v["names"]:
                    with open(os.path.join(p, CX_ASCII.text(n["s"])), "w") as f:
                        f.write("x")
            self.made[key] = p
        return p

    def close(self):
        shutil.rmtree(self.root, ignore_errors=True)


def snap_path(p):
    if not os.path.lexists(p):
        return ("missing",)
    if os.path.isdir(p):
        return ("dir", tuple(sorted(os.listdir(p))))
    with open(p, "rb") as f:
        return ("file", f.read())


# ---------------------------------------------------------------------------------------------------------
_junk = []


def jitter(rnd, keep=None):
    """Shift allocation addresses between constructions (id()-based hashes decide set iteration order): some
    small objects, and optionally an earlier construction, are kept alive for a while."""
    n = rnd.randrange(0, 7)
    _junk.append(([object() for _ in range(n)], keep if rnd.random() < 0.5 else None))
    if len(_junk) > 64:
        del _junk[: rnd.randrange(1, 40)]


class Env:
    """One construction of (matcher, matchee) from an AST pair."""

    def __init__(self, cx, pool, perm=0, shared=False, alt=False, rnd=None):
        self.cx = cx
        self.pool = pool
        self.perm = perm  # 0 as written, 1 reversed, 2 seeded shuffle - applied only where the semantics is order-free
        self.shared = shared  # equal sub-expressions are built once and the same object is passed several times
        self.alt = alt  # use the alternative public constructors where they exist
        self.rnd = rnd or random.Random(0)
        self.objs = {}
        self.cache = {}
        self.built = {}

    def order(self, seq):
        seq = list(seq)
        if self.perm == 1:
            seq.reverse()
        elif self.perm == 2:
            self.rnd.shuffle(seq)
        return seq


def _raise_info(cls, arg):
    try:
        raise cls(arg)
    except BaseException:
        return sys.exc_info()


def _returns(n):
    def returns():
        return n

    return returns


def _raises(cls, arg):
    def raiser():
        raise cls(arg)

    return raiser


def build_value(v, env):
    k = v["k"]
    if k == "int":
        return v["i"]
    if k == "bool":
        return bool(v["bi"])
    if k == "float":
        return float(v["fi"])
    if k == "str":
        return env.cx.text(v["s"])
    if k == "list":
        return [build_value(x, env) for x in v["l"]]
    if k == "dict":
        return {env.cx.key(p[0]): build_value(p[1], env) for p in env.order(v["d"])}
    if k == "key":
        return env.cx.key(v["name"])
    if k == "obj":
        o = env.objs.get(v["id"])
        if o is None:
            o = env.objs[v["id"]] = Obj(v["x"], v["y"])
        elif (o.x, o.y) != (v["x"], v["y"]):
            raise tlc.MachineryError("object identity %r used with two states" % v["id"])
        return o
    if k == "exc":
        return _raise_info(EXC[v["ty"]], v["arg"])
    if k == "call":
        return _returns(v["arg"]) if v["beh"] == "ret" else _raises(EXC[v["ty"]], v["arg"])
    if k == "path":
        return env.pool.path_for(v)
    raise tlc.MachineryError("unknown value kind %r" % (v,))


def _even(x):
    return x % 2 == 0


def _nonempty(x):
    return len(x) > 0


def rev(x):
    return x[::-1]


def arg0(e):
    return e.args[0]


REFLAGS = {"": 0, "S": re.S, "M": re.M}
PRED = {"even": (_even, "%s is odd"), "nonempty": (_nonempty, "%r is empty")}
FUNCS = {"len": len, "sum": sum, "rev": rev}


def _types(env, tys):
    from testtools import matchers as M  # noqa

    table = {
        "int": int,
        "bool": bool,
        "float": float,
        "text": env.cx.texttype,
        "list": list,
        "dict": dict,
        "obj": Obj,
        "tuple": tuple,
        "function": types.FunctionType,
        "object": object,
    }
    return [table[t] for t in tys]


def build_matcher(e, env):
    if env.shared:
        key = jdump(e)
        if key in env.cache:
            env.built[id(e)] = env.cache[key]
            return env.cache[key]
    m = _build_matcher(e, env)
    env.built[id(e)] = m  # AST node -> the real object built for it (used to localise a failing sub-expression)
    if env.shared:
        env.cache[key] = m
    return m


def _build_matcher(e, env):
    from testtools import matchers as M

    op = e["op"]
    bv = lambda v: build_value(v, env)  # noqa: E731
    bm = lambda x: build_matcher(x, env)  # noqa: E731
    if op in ("Equals", "NotEquals", "Is", "LessThan", "GreaterThan", "Contains", "StartsWith", "EndsWith"):
        return getattr(M, op)(bv(e["ref"]))
    if op == "IsInstance":
        return M.IsInstance(*env.order(_types(env, e["tys"])))
    if op == "ContainsAll":
        return M.ContainsAll(env.order([bv(r) for r in e["refs"]]))
    if op == "MatchesRegex":
        fl = REFLAGS[e["pat"].get("fl", "")]
        return M.MatchesRegex(env.cx.regex(e["pat"]), fl) if fl or env.alt else M.MatchesRegex(env.cx.regex(e["pat"]))
    if op == "HasLength":
        return M.HasLength(e["n"])
    if op == "SameMembers":
        return M.SameMembers(env.order(bv(e["ref"])))
    if op == "KeysEqual":
        keys = env.order([env.cx.key(k) for k in e["keys"]])
        if env.alt and len(set(keys)) == len(keys):
            return M.KeysEqual({k: None for k in keys})
        return M.KeysEqual(*keys)
    if op == "Always":
        return M.Always()
    if op == "Never":
        return M.Never()
    if op == "MatchesPredicate":
        return M.MatchesPredicate(*PRED[e["pred"]])
    if op == "MatchesException":
        if e["form"] == "inst":
            return M.MatchesException(EXC[e["ty"]](e["arg"]))
        tys = env.order([EXC[t] for t in e["tys"]])
        tyarg = tys[0] if len(tys) == 1 else tuple(tys)
        if e["vk"] == "none":
            return M.MatchesException(tyarg)
        if e["vk"] == "re":
            return M.MatchesException(tyarg, str(e["n"]))
        return M.MatchesException(tyarg, M.AfterPreprocessing(arg0, bm(e["m"]), annotate=False))
    if op == "RaisesAny":
        return M.Raises()
    if op == "Raises":
        inner = e["m"]
        if env.alt and inner["op"] == "MatchesException" and (inner["form"] == "inst" or inner["vk"] == "none"):
            if inner["form"] == "inst":
                return M.raises(EXC[inner["ty"]](inner["arg"]))
            tys = [EXC[t] for t in inner["tys"]]
            return M.raises(tys[0] if len(tys) == 1 else tuple(tys))
        return M.Raises(bm(inner))
    if op == "PathExists":
        return M.PathExists()
    if op == "DirExists":
        return M.DirExists()
    if op == "FileExists":
        return M.FileExists()
    if op == "FileContains":
        return M.FileContains(contents=CX_ASCII.text(e["ref"]["s"])) if env.alt else M.FileContains(CX_ASCII.text(e["ref"]["s"]))
    if op == "FileContainsM":
        return M.FileContains(matcher=bm(e["m"]))
    if op == "DirContains":
        return M.DirContains(env.order([CX_ASCII.text(r["s"]) for r in e["refs"]]))
    if op == "DirContainsM":
        return M.DirContains(matcher=bm(e["m"]))
    if op == "Not":
        return M.Not(bm(e["m"]))
    if op == "Annotate":
        return M.Annotate(e["msg"], bm(e["m"]))
    if op == "AfterPreprocessing":
        return M.AfterPreprocessing(FUNCS[e["f"]], bm(e["m"]), annotate=not env.alt)
    if op == "MatchesAll":
        ms = e["ms"]
        if not has_op(e, ("Raises", "RaisesAny")):  # evaluation order is observable only when something propagates
            ms = env.order(ms)
        return M.MatchesAll(*[bm(x) for x in ms], first_only=e["fo"])
    if op == "MatchesAny":
        ms = e["ms"]
        if not has_op(e, ("Raises", "RaisesAny")):
            ms = env.order(ms)
        return M.MatchesAny(*[bm(x) for x in ms])
    if op == "AllMatch":
        return M.AllMatch(bm(e["m"]))
    if op == "AnyMatch":
        return M.AnyMatch(bm(e["m"]))
    if op == "MatchesListwise":
        return M.MatchesListwise([bm(x) for x in e["ms"]], first_only=e["fo"])
    if op == "MatchesSetwise":
        return M.MatchesSetwise(*[bm(x) for x in env.order(e["ms"])])
    if op == "MatchesStructure":
        attrs = env.order(e["attrs"])
        if env.alt and all(a[1]["op"] == "Equals" for a in attrs):
            kw = {a[0]: bv(a[1]["ref"]) for a in attrs}
            how = env.rnd.randrange(3)  # the three convenience constructors
            if how == 0:
                return M.MatchesStructure.byEquality(**kw)
            if how == 1:
                return M.MatchesStructure.byMatcher(M.Equals, **kw)
            example = types.SimpleNamespace(**kw)
            return M.MatchesStructure.fromExample(example, *[a[0] for a in attrs])
        return M.MatchesStructure(**{a[0]: bm(a[1]) for a in attrs})
    if op in ("MatchesDict", "ContainsDict", "ContainedByDict"):
        return getattr(M, op)({env.cx.key(p[0]): bm(p[1]) for p in env.order(e["kms"])})
    raise tlc.MachineryError("unknown matcher op %r" % op)


def regex_twin(e, k=1):
    """The same expression with every MatchesRegex given the k-th next flag setting (same pattern text): a matcher
    that must not influence `e`, however it is used before it."""
    order = ["", "S", "M"]
    if isinstance(e, dict):
        if e.get("op") == "MatchesRegex":
            p = dict(e["pat"])
            p["fl"] = order[(order.index(p.get("fl", "")) + k) % 3]
            return {"op": "MatchesRegex", "pat": p}
        return {key: regex_twin(x, k) for key, x in e.items()}
    if isinstance(e, list):
        return [regex_twin(x, k) for x in e]
    return e


def order_free(e):
    """Does the expression have a node whose argument order the semantics ignores (so permuted constructions differ)?"""
    return has_op(
        e,
        (
            "MatchesSetwise",
            "MatchesDict",
            "ContainsDict",
            "ContainedByDict",
            "MatchesStructure",
            "SameMembers",
            "KeysEqual",
            "ContainsAll",
            "DirContains",
            "MatchesAll",
            "MatchesAny",
        ),
    ) or (isinstance(e, dict) and len(e.get("tys") or ()) > 1)


def has_repeated_subexpr(e):
    seen = set()

    def walk(x):
        dup = False
        if isinstance(x, dict):
            if "op" in x:
                k = jdump(x)
                if k in seen:
                    return True
                seen.add(k)
            for y in x.values():
                dup = walk(y) or dup
        elif isinstance(x, list):
            for y in x:
                dup = walk(y) or dup
        return dup

    return walk(e)


def has_alt(e):
    return has_op(e, ("KeysEqual", "Raises", "FileContains", "AfterPreprocessing", "MatchesStructure"))


# ---------------------------------------------------------------------------------------------------------
_ATOM = (int, float, str, bytes, bool, type(None))
_ATOMSET = frozenset(_ATOM)


def snapshot(o, seen=None, depth=0):
    """Deep structural snapshot, insensitive to object addresses."""
    t = type(o)
    if t in _ATOMSET:
        return o
    if t is list or t is tuple:
        return (t.__name__, tuple([snapshot(x, seen, depth + 1) for x in o]))
    if t is dict:
        return ("dict", tuple([(snapshot(k, seen, depth + 1), snapshot(v, seen, depth + 1)) for k, v in o.items()]))
    if depth > 40:
        return "<deep>"
    if isinstance(o, _ATOM):
        return o
    if isinstance(o, (list, tuple)):
        return (type(o).__name__, tuple([snapshot(x, seen, depth + 1) for x in o]))
    if isinstance(o, dict):
        return ("dict", tuple([(snapshot(k, seen, depth + 1), snapshot(v, seen, depth + 1)) for k, v in o.items()]))
    if isinstance(o, (set, frozenset)):
        return ("set", tuple(sorted((snapshot(x, seen, depth + 1) for x in o), key=repr)))
    if isinstance(o, type):
        return ("type", o.__name__)
    if isinstance(o, (types.FunctionType, types.BuiltinFunctionType, types.MethodType)):
        return ("fn", getattr(o, "__name__", "?"))
    if isinstance(o, types.TracebackType):
        return "<tb>"
    if isinstance(o, BaseException):
        return ("exc", type(o).__name__, snapshot(o.args, seen, depth + 1))
    if seen is None:
        seen = set()
    if id(o) in seen:
        return "<cycle>"
    seen = seen | {id(o)}
    d = getattr(o, "__dict__", None)
    if d is None:
        return ("obj", type(o).__name__)
    return (
        "obj",
        type(o).__name__,
        tuple([(k, snapshot(v, seen, depth + 1)) for k, v in sorted(d.items())]),
    )


def snap_value(v, real):
    if v["k"] == "path":
        return snap_path(real)
    return snapshot(real)


def verdict(m, val):
    """('T'|'F'|'P'|'E:<Type>', mismatch-or-exception)"""
    try:
        r = m.match(val)
    except VerifBase as ex:
        return "P", ex
    except BaseException as ex:  # noqa
        return "E:" + type(ex).__name__, ex
    return ("T" if r is None else "F"), r


# ---------------------------------------------------------------------------------------------------------
# TLC as the row source
ACTIONS = ["PushLeaf", "Wrap", "Combine"]


def tlc_rows(cfg, what, rep=None, actions=ACTIONS, want_result=False, **kw):
    """Run TLC on MCMatchers with `cfg`; returns (rows, universe). rows: dicts srt, e, dep, r (verdict per value)."""
    kw.setdefault("workers", 8)
    kw.setdefault("timeout", 1500)
    # -coverage 1 triples the run time of these export runs; which actions were taken is read off the exported
    # expressions instead (every node of an exported tree is one PushLeaf / Wrap / Combine / Combine3 step)
    r = tlc.run_tlc("match", "MCMatchers", cfg, coverage=False, collect=("EXPORT", "UNIVERSE"), **kw)
    tlc.require_ok(r, what + " " + cfg)
    uni = [json.loads(t[1]) for t in r.printed if t[0] == "UNIVERSE"]
    if not uni:
        raise tlc.MachineryError("%s %s: TLC printed no UNIVERSE" % (what, cfg))
    rows = []
    seen = set()
    for row in tlc.exported(r):
        k = row["srt"] + jdump(row["e"])
        if k in seen:
            continue  # -simulate revisits expressions
        seen.add(k)
        if len(row["r"]) != len(uni[0][row["srt"]]):
            raise tlc.MachineryError("verdict vector does not fit the universe of sort %s" % row["srt"])
        rows.append(row)
    if not rows:
        raise tlc.MachineryError("%s %s exported no rows" % (what, cfg))
    taken = {"PushLeaf": 0, "Wrap": 0, "Combine": 0, "Combine3": 0}
    for row in rows:
        taken[action_of(row["e"])] += 1
    r.coverage = {k: (v, v) for k, v in taken.items()}
    tlc.require_coverage(r, actions, what + " " + cfg)
    if rep is not None:
        rep.add_tlc(r, cfg)
    if want_result:
        return rows, uni[0], r
    return rows, uni[0]


def tlc_rows_pipeline(jobs, what):
    """Run the TLC export jobs one after the other in a background thread and yield (cfg, rows, universe, result)
    in order, so that the single-threaded replay of one job overlaps with TLC (8 workers) running the next."""
    from concurrent.futures import ThreadPoolExecutor

    with ThreadPoolExecutor(max_workers=1) as ex:
        futs = [(cfg, ex.submit(tlc_rows, cfg, what, None, want_result=True, **kw)) for cfg, kw in jobs]
        try:
            for cfg, fut in futs:
                rows, uni, r = fut.result()
                yield cfg, rows, uni, r
        finally:
            for _, fut in futs:
                fut.cancel()


def action_of(e):
    """The action of Matchers.tla that produced the root node of an exported expression."""
    for k in ("ms", "kms", "attrs"):
        if k in e:
            return {0: "PushLeaf", 1: "Wrap", 2: "Combine", 3: "Combine3"}[len(e[k])]  # 0: MatchesAny() / MatchesAll()
    return "Wrap" if "m" in e else "PushLeaf"


def check_greedy_counterexample(rep, what):
    """Non-vacuity: under the code's mechanism (greedy assignment) TLC must refute permutation invariance."""
    r = tlc.run_tlc("match", "MCMatchers", "mt_greedy.cfg", workers=1, timeout=300)
    if r.violated != "SetwisePermutationInvariant":
        raise tlc.MachineryError(
            "%s: TLC did not refute SetwisePermutationInvariant under SetwiseMode=greedy (violated=%s error=%s)"
            % (what, r.violated, r.error)
        )
    rep.tlc_runs.append({"what": "mt_greedy.cfg (expected counterexample found)", "generated": r.generated, "distinct": r.distinct, "depth": r.depth, "wall_s": round(r.wall_s, 2), "coverage": None})


# ---------------------------------------------------------------------------------------------------------
# abstract sub-pairs of a pair (structure only: which sub-matcher sees which sub-value; no matcher semantics here)
def IntV(n):
    return {"k": "int", "i": n}


def abs_apply(f, v):
    if f == "len":
        return IntV(len(v["s"] if v["k"] == "str" else v["l"] if v["k"] == "list" else v["d"]))
    if f == "sum":
        return IntV(sum(x["i"] for x in v["l"]))
    if f == "rev":
        if v["k"] == "str":
            return {"k": "str", "s": v["s"][::-1]}
        return {"k": "list", "l": v["l"][::-1]}
    raise tlc.MachineryError("unknown preprocessor %r" % f)


def children(e, v):
    op = e["op"]
    if op in ("Not", "Annotate"):
        return [(e["m"], v)]
    if op == "AfterPreprocessing":
        return [(e["m"], abs_apply(e["f"], v))]
    if op in ("MatchesAll", "MatchesAny"):
        return [(m, v) for m in e["ms"]]
    if op in ("AllMatch", "AnyMatch"):
        return [(e["m"], x) for x in v["l"]]
    if op == "MatchesListwise":
        return list(zip(e["ms"], v["l"]))
    if op == "MatchesSetwise":
        return [(m, x) for m in e["ms"] for x in v["l"]]
    if op == "MatchesStructure":
        return [(a[1], IntV(v[a[0]])) for a in e["attrs"]]
    if op in ("MatchesDict", "ContainsDict", "ContainedByDict"):
        d = {p[0]: p[1] for p in v["d"]}
        return [(p[1], d[p[0]]) for p in e["kms"] if p[0] in d]
    if op == "Raises":
        if v["beh"] == "raise":
            return [(e["m"], {"k": "exc", "ty": v["ty"], "arg": v["arg"]})]
        return []
    if op == "MatchesException" and e.get("vk") == "m" and v["k"] == "exc":
        return [(e["m"], IntV(v["arg"]))]
    if op == "FileContainsM" and v["st"] == "file":
        return [(e["m"], {"k": "str", "s": v["content"]})]
    if op == "DirContainsM" and v["st"] == "dir":
        return [(e["m"], {"k": "list", "l": v["names"]})]
    return []


def descendants(e, v, out=None, seen=None):
    out = [] if out is None else out
    seen = set() if seen is None else seen
    for ce, cv in children(e, v):
        k = jdump((ce, cv))
        if k not in seen:
            seen.add(k)
            out.append((ce, cv))
            descendants(ce, cv, out, seen)
    return out


def trace_verdicts(rows, rep=None, what="trace"):
    """rows: list of {"e","v","r"}; TLC evaluates Verdict(e, v) with MatchersTrace.tla.
    Returns {index(1-based): verdict of the spec} for the rows on which the recorded verdict differs."""
    if not rows:
        return {}
    os.makedirs(BUILD, exist_ok=True)
    path = os.path.join(BUILD, "mtrace-%d-%d.json" % (os.getpid(), random.getrandbits(32)))
    with open(path, "w") as f:
        json.dump(rows, f)
    try:
        r = tlc.run_tlc(
            "match", "MatchersTrace", "mt_trace.cfg", workers=4, timeout=1500, env={"TRACE_FILE": path}, collect=("BAD", "CHECKED")
        )
    finally:
        os.unlink(path)
    tlc.require_ok(r, what + " MatchersTrace")
    checked = [t for t in r.printed if t[0] == "CHECKED"]
    if not checked or checked[0][1] != len(rows) or r.distinct != len(rows) + 1:
        raise tlc.MachineryError("%s: MatchersTrace did not evaluate all %d rows (%s, %d states)" % (what, len(rows), checked, r.distinct))
    if rep is not None:
        rep.add_tlc(r, "mt_trace.cfg (%d rows, %s)" % (len(rows), what))
    return {t[1]: t[2] for t in r.printed if t[0] == "BAD"}


def real_verdict(e, v, cx, pool, **envkw):
    env = Env(cx, pool, **envkw)
    val = build_value(v, env)
    m = build_matcher(e, env)
    return verdict(m, val)[0]


# ---------------------------------------------------------------------------------------------------------
# seeded random generator of larger typed pairs (the code -> spec direction)
class Gen:
    def __init__(self, rnd, maxint=4, maxlen=4):
        self.r = rnd
        self.maxint = maxint
        self.maxlen = maxlen
        self.nobj = 0

    # ---- values
    def text(self, n=None):
        n = self.r.randrange(0, 4) if n is None else n
        return [self.r.choice((1, 2, 1, 2, 3)) for _ in range(n)]

    def num(self):
        n = self.r.randrange(0, 3)
        return self.r.choice([{"k": "int", "i": n}, {"k": "bool", "bi": n % 2}, {"k": "float", "fi": n}])

    def value(self, s):
        r = self.r
        if s == "int":
            return IntV(r.randrange(0, self.maxint + 1))
        if s == "str":
            return {"k": "str", "s": self.text()}
        if s == "num":
            return self.num()
        if s in ELEM:
            return {"k": "list", "l": [self.value(ELEM[s]) for _ in range(r.randrange(0, self.maxlen + 1))]}
        if s == "dict":
            keys = [k for k in ("k1", "k2", "k3", "k4") if r.random() < 0.5]
            r.shuffle(keys)
            return {"k": "dict", "d": [[k, self.value("int")] for k in keys]}
        if s == "obj":
            return self.obj()
        if s == "exc":
            return {"k": "exc", "ty": r.choice(("VE", "KE", "BE")), "arg": r.randrange(0, 4)}
        if s == "call":
            if r.random() < 0.3:
                return {"k": "call", "beh": "ret", "ty": "-", "arg": r.randrange(0, 4)}
            return {"k": "call", "beh": "raise", "ty": r.choice(("VE", "KE", "BE")), "arg": r.randrange(0, 4)}
        if s == "path":
            st = r.choice(("missing", "file", "dir"))
            names = sorted({tuple(r.choice((1, 2)) for _ in range(r.randrange(1, 3))) for _ in range(r.randrange(0, 3))})
            return {
                "k": "path",
                "st": st,
                "content": [c for c in self.text() if c != 3] if st == "file" else [],
                "names": [{"k": "str", "s": list(n)} for n in names] if st == "dir" else [],
            }
        raise AssertionError(s)

    def obj(self):
        # identities 1..6 with fixed states so that an identity always denotes one object state;
        # 1 and 3, 4 and 6 are equal but distinct objects
        i = self.r.randrange(1, 7)
        return {"k": "obj", "id": i, "x": i % 2, "y": i // 4}

    # ---- expressions
    def leaf(self, s):
        r = self.r
        if r.random() < 0.08:  # zero-arity combinators (an empty MismatchesAll / no mismatch at all), at any sort
            return r.choice([{"op": "MatchesAny", "ms": []}, {"op": "MatchesAll", "ms": [], "fo": r.random() < 0.5}])
        univ = [{"op": "Always"}, {"op": "Never"}]
        if s == "num":
            c = [
                {"op": "IsInstance", "tys": r.sample(["int", "bool", "float", "text"], r.randrange(1, 3))},
                {"op": "Is", "ref": r.choice([{"k": "int", "i": r.randrange(0, 3)}, {"k": "bool", "bi": r.randrange(0, 2)}])},
                {"op": r.choice(("Equals", "NotEquals", "LessThan", "GreaterThan")), "ref": self.num()},
            ]
            return r.choice(c + univ[: r.randrange(0, 2)])
        if s in ("int", "str"):
            c = [
                {"op": r.choice(("Equals", "NotEquals", "LessThan", "GreaterThan")), "ref": self.value(s)},
                {"op": "IsInstance", "tys": r.sample(["int", "text", "list", "dict"], r.randrange(1, 3))},
            ]
            if s == "int":
                c += [{"op": "Is", "ref": self.value("int")}, {"op": "MatchesPredicate", "pred": "even"}, {"op": "Contains", "ref": self.value("int")}]
            else:
                c += [
                    {"op": r.choice(("StartsWith", "EndsWith", "Contains")), "ref": {"k": "str", "s": self.text(r.randrange(0, 3))}},
                    {"op": "HasLength", "n": r.randrange(0, 4)},
                    {"op": "MatchesRegex", "pat": {"atoms": [{"c": r.randrange(0, 4), "star": r.random() < 0.4} for _ in range(r.randrange(1, 4))], "anch": r.random() < 0.4, "fl": r.choice(("", "", "S", "M"))}},
                    {"op": "ContainsAll", "refs": [{"k": "str", "s": self.text(r.randrange(0, 3))} for _ in range(r.randrange(0, 3))]},
                ]
            return r.choice(c + univ[: r.randrange(0, 2)])
        if s in ELEM:
            el = ELEM[s]
            c = [
                {"op": r.choice(("Equals", "NotEquals", "SameMembers")), "ref": self.value(s)},
                {"op": "HasLength", "n": r.randrange(0, self.maxlen + 1)},
                {"op": "Contains", "ref": self.value(el)},
                {"op": "ContainsAll", "refs": [self.value(el) for _ in range(r.randrange(0, 3))]},
                {"op": "MatchesPredicate", "pred": "nonempty"},
            ]
            return r.choice(c + univ[: r.randrange(0, 2)])
        if s == "dict":
            c = [
                {"op": "KeysEqual", "keys": r.sample(["k1", "k2", "k3", "k4"], r.randrange(0, 4))},
                {"op": "Equals", "ref": self.value("dict")},
                {"op": "Contains", "ref": {"k": "key", "name": r.choice(("k1", "k2", "k3"))}},
                {"op": "HasLength", "n": r.randrange(0, 4)},
            ]
            return r.choice(c + univ[: r.randrange(0, 2)])
        if s == "obj":
            return r.choice([{"op": r.choice(("Is", "Equals", "NotEquals")), "ref": self.obj()}, {"op": "IsInstance", "tys": ["obj"]}] + univ[: r.randrange(0, 2)])
        if s == "exc":
            tys = r.sample(["VE", "KE", "LE", "EX", "BE", "BX"], r.randrange(1, 3))
            c = [
                {"op": "MatchesException", "form": "inst", "ty": r.choice(("VE", "KE", "LE", "BE")), "arg": r.randrange(0, 4)},
                {"op": "MatchesException", "form": "type", "tys": tys, "vk": "none"},
                {"op": "MatchesException", "form": "type", "tys": tys, "vk": "re", "n": r.randrange(0, 4)},
            ]
            return r.choice(c + univ[: r.randrange(0, 2)])
        if s == "call":
            return r.choice([{"op": "RaisesAny"}] + univ[: r.randrange(0, 2)])
        if s == "path":
            c = [
                {"op": r.choice(("PathExists", "DirExists", "FileExists"))},
                {"op": "FileContains", "ref": {"k": "str", "s": [c for c in self.text() if c != 3]}},
                {"op": "DirContains", "refs": [{"k": "str", "s": [r.choice((1, 2)) for _ in range(r.randrange(1, 3))]} for _ in range(r.randrange(0, 3))]},
            ]
            return r.choice(c + univ[: r.randrange(0, 2)])
        raise AssertionError(s)

    def expr(self, s, depth):
        r = self.r
        if depth <= 1 or r.random() < 0.15:
            return self.leaf(s)
        d = depth - 1
        n = r.randrange(0, 5) if r.random() < 0.15 else r.randrange(1, 5)
        generic = [
            lambda: {"op": "Not", "m": self.expr(s, d)},
            lambda: {"op": "Annotate", "msg": r.choice(("note", "é語'\"\\\n")), "m": self.expr(s, d)},
            lambda: {"op": "MatchesAll", "ms": [self.expr(s, d) for _ in range(n)], "fo": r.random() < 0.5},
            lambda: {"op": "MatchesAny", "ms": [self.expr(s, d) for _ in range(n)]},
        ]
        c = list(generic)
        if s in ELEM:
            el = ELEM[s]
            c += [
                lambda: {"op": r.choice(("AllMatch", "AnyMatch")), "m": self.expr(el, d)},
                lambda: {"op": "MatchesListwise", "ms": [self.expr(el, d) for _ in range(n)], "fo": r.random() < 0.5},
                lambda: {"op": "MatchesSetwise", "ms": [self.expr(el, d) for _ in range(n)]},
                lambda: {"op": "MatchesSetwise", "ms": [self.expr(el, d) for _ in range(n)]},
                lambda: {"op": "AfterPreprocessing", "f": "len", "m": self.expr("int", d)},
                lambda: {"op": "AfterPreprocessing", "f": "rev", "m": self.expr(s, d)},
            ]
            if s == "lint":
                c.append(lambda: {"op": "AfterPreprocessing", "f": "sum", "m": self.expr("int", d)})
        elif s == "str":
            c += [
                lambda: {"op": "AfterPreprocessing", "f": "len", "m": self.expr("int", d)},
                lambda: {"op": "AfterPreprocessing", "f": "rev", "m": self.expr("str", d)},
            ]
        elif s == "dict":
            def dm():
                keys = r.sample(["k1", "k2", "k3", "k4"], r.randrange(0, 4))
                return {"op": r.choice(("MatchesDict", "ContainsDict", "ContainedByDict")), "kms": [[k, self.expr("int", d)] for k in keys]}

            c += [dm, dm, lambda: {"op": "AfterPreprocessing", "f": "len", "m": self.expr("int", d)}]
        elif s == "obj":
            def sm():
                attrs = r.sample(["x", "y"], r.randrange(0, 3))
                return {"op": "MatchesStructure", "attrs": [[a, self.expr("int", d)] for a in attrs]}

            c += [sm, sm]
        elif s == "exc":
            c.append(lambda: {"op": "MatchesException", "form": "type", "tys": r.sample(["VE", "KE", "LE", "EX", "BE", "BX"], r.randrange(1, 3)), "vk": "m", "m": self.expr("int", d)})
        elif s == "call":
            c += [lambda: {"op": "Raises", "m": self.expr("exc", d)}] * 3
        elif s == "path":
            c += [
                lambda: {"op": "FileContainsM", "m": self.expr("str", d)},
                lambda: {"op": "DirContainsM", "m": self.expr("lstr", d)},
            ]
        return r.choice(c)()


def in_domain_hint(e, v):
    """Cheap pre-filter for the random generator: FileContains on a directory is outside the documented domain."""
    if e["op"] in ("FileContains", "FileContainsM") and v["k"] == "path" and v["st"] == "dir":
        return False
    return all(in_domain_hint(ce, cv) for ce, cv in children(e, v))


def ops_of(e, out=None):
    out = set() if out is None else out
    if isinstance(e, dict):
        if "op" in e:
            out.add(e["op"])
        for x in e.values():
            ops_of(x, out)
    elif isinstance(e, list):
        for x in e:
            ops_of(x, out)
    return out


def depth_of(e):
    if isinstance(e, dict):
        sub = [depth_of(x) for x in e.values()]
        return ("op" in e) + max(sub or [0])
    if isinstance(e, list):
        return max([depth_of(x) for x in e] or [0])
    return 0


# ---------------------------------------------------------------------------------------------------------
# replaying rows in worker processes (the replay is pure Python; the budget is wall time on a shared machine)
class Acc:
    """Stands in for common.Report inside a worker: the same case()/sample() accounting, merged afterwards."""

    def __init__(self):
        self.evaluations = 0
        self.nontrivial = set()
        self.samples = []
        self.traces = 0
        self.extra = {}

    def case(self, sample=None, nontrivial_key=None):
        self.evaluations += 1
        if nontrivial_key is not None:
            self.nontrivial.add(nontrivial_key if isinstance(nontrivial_key, str) else jdump(nontrivial_key))
        if sample is not None and len(self.samples) < 4:
            self.samples.append(sample)

    def sample(self, s, force=False):
        if len(self.samples) < 4 or force:
            self.samples.append(s)


def merge_acc(rep, acc):
    rep.evaluations += acc.evaluations
    rep.nontrivial |= acc.nontrivial
    rep.traces += acc.traces
    for smp in acc.samples:
        if len(rep.samples) < 4:
            rep.samples.append(smp)
    for k, v in acc.extra.items():
        rep.extra[k] = rep.extra.get(k, 0) + v


def _worker_init(repo):
    os.environ["VERIF_REPO"] = repo
    from .common import use_repo

    use_repo()


_EXEC = []


def run_parallel(fn, chunks, nproc=3):
    """fn(chunk) for every chunk in `nproc` spawned worker processes (spawn, not fork: the parent has threads)."""
    import atexit
    import multiprocessing
    from concurrent.futures import ProcessPoolExecutor

    from .common import repo_path

    if not _EXEC:
        ex = ProcessPoolExecutor(
            max_workers=nproc, mp_context=multiprocessing.get_context("spawn"), initializer=_worker_init, initargs=(repo_path(),)
        )
        _EXEC.append(ex)
        atexit.register(ex.shutdown, wait=False, cancel_futures=True)
    try:
        return list(_EXEC[0].map(fn, chunks))
    except tlc.MachineryError:
        raise
    except Exception as ex:  # a worker died or raised something that is not a verdict
        raise tlc.MachineryError("replay worker failed: %r" % (ex,)) from ex


def split(rows, n):
    return [rows[i::n] for i in range(n) if rows[i::n]]
