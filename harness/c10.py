"""C10 - stream consumers account for every test exactly once.

Spec: spec/stream/StreamRecord.tla.  TLC checks the table mechanism against the history-fold meaning
(OncePerIncarnation, ReportedFields, TableIsOpenSet, SummarySound, NoIdIgnored) and exports every
behaviour of the bounded instance; each behaviour is replayed into the real StreamToDict,
StreamSummary and StreamToExtendedDecorator, comparing after EVERY call what the consumer has reported.
Random longer behaviours (two runs, all nine statuses) come from `tlc -simulate` on the same spec.
"""

import datetime

from . import tlc
from .common import Report, shrink, use_repo, jdump

UTC = datetime.timezone.utc
PROPS = ("C10",)


def ts_of(s):
    if s == "none":
        return None
    return datetime.datetime(2000, 1, 1, 0, 0, int(s), tzinfo=UTC)


# abstract chunk -> concrete bytes.  Chunks may end up in a file first declared text/plain;charset=utf8, and
# StreamSummary renders such details as text, so every chunk is valid UTF-8 on its own (multi-byte, NUL, newline);
# undecodable payloads are the business of C09/C16.
BYTES = {"x": "x\u00e9\x00".encode(), "y": b"yy\n", "z": "\U0001f600".encode(), "": b""}
MIME = {
    "text/plain": ("text/plain; charset=utf8", ("text", "plain", {"charset": "utf8"})),
    "application/x-b": ("application/x-b", ("application", "x-b", {})),
    "none": (None, ("application", "octet-stream", {})),
}
IDS = {"t1": "pkg.mod.T.test_é", "t2": "t2", "none": None}
ROUTES = {"none": None, "r": "0/ü"}


def kwargs_of(e):
    kw = dict(
        test_id=IDS[e["id"]],
        test_status=None if e["status"] == "none" else e["status"],
        route_code=ROUTES[e["route"]],
        timestamp=ts_of(e["ts"]),
    )
    if e["tags"] != ["~"]:
        kw["test_tags"] = set(e["tags"])
    if e["fname"] != "none":
        kw["file_name"] = e["fname"]
        kw["file_bytes"] = BYTES[e["fbytes"]]
        kw["mime_type"] = MIME[e["mime"]][0]
        if e["fbytes"] == "":
            kw["eof"] = True  # an empty final chunk closes the file
    return kw


def expected_rec(r):
    files = {}
    for f in r["files"]:
        data = b"".join(BYTES[c] for c in f["chunks"])
        if data:
            files[f["name"]] = (MIME[f["mime"]][1], data)
    return {
        "id": IDS[r["id"]],
        "status": r["status"],
        "tags": sorted(r["tags"]),
        "first": ts_of(r["first"]),
        "last": ts_of(r["last"]),
        "files": files,
    }


def proj_details(details):
    files = {}
    for n, c in details.items():
        data = b"".join(c.iter_bytes())
        if data:
            ct = c.content_type
            files[n] = ((ct.type, ct.subtype, dict(ct.parameters)), data)
    return files


def proj_dict(d):
    return {
        "id": d["id"],
        "status": d["status"],
        "tags": sorted(d["tags"]),
        "first": d["timestamps"][0],
        "last": d["timestamps"][1],
        "files": proj_details(d["details"]),
    }


S2E_OUT = {
    "success": {"addSuccess"},
    "skip": {"addSkip"},
    "fail": {"addFailure"},
    "xfail": {"addExpectedFailure"},
    "uxsuccess": {"addUnexpectedSuccess"},
    "inprogress": {"addFailure", "addError"},
    "unknown": {"addFailure", "addError"},
}


def split_s2e(events):
    """Group an ExtendedTestResult double's event log into per-test blocks (projection)."""
    blocks = []
    cur = None
    pending = None  # time() seen since the last stopTest / startTest
    tags = set()
    for ev in events:
        name = ev[0]
        if name == "time":
            pending = ev[1]
        elif name == "tags":
            tags = (tags | set(ev[1])) - set(ev[2])
        elif name == "startTest":
            cur = {"id": ev[1].id(), "first": pending, "tags": sorted(tags), "outcomes": []}
            pending = None
        elif name.startswith("add"):
            if cur is None:
                blocks.append({"orphan": name})
                continue
            cur["outcomes"].append(name)
            cur["last"] = pending
            det = ev[-1] if isinstance(ev[-1], dict) else {}
            cur["files"] = proj_details(det)
        elif name == "stopTest":
            if cur is None:
                blocks.append({"orphan": name})
            else:
                blocks.append(cur)
            cur = None
            pending = None
    if cur is not None:
        blocks.append(dict(cur, unterminated=True))
    return blocks


class Replayer:
    def __init__(self, consumer):
        from testtools.testresult import real, doubles

        self.kind = consumer
        self.got = []
        if consumer == "dict":
            self.obj = real.StreamToDict(self.got.append)
        elif consumer == "summary":
            self.obj = real.StreamSummary()
        else:
            self.target = doubles.ExtendedTestResult()
            self.obj = real.StreamToExtendedDecorator(self.target)
        self.seen = 0

    def step(self, h):
        a = h["a"]
        if a == "startTestRun":
            self.obj.startTestRun()
            self.got.clear()
            self.seen = 0
            if self.kind == "s2e":
                self.mark = len(self.target._events)
        elif a == "stopTestRun":
            self.obj.stopTestRun()
        else:
            self.obj.status(**kwargs_of(h["e"]))

    def check(self, h, cum):
        """Return None or (clause, expected, observed). `cum` = all records reported so far in this run."""
        new = h["new"]
        if self.kind == "dict":
            got_new = [proj_dict(d) for d in self.got[self.seen :]]
            self.seen = len(self.got)
            exp_new = [expected_rec(r) for r in new]
            if new and new[0]["why"] == "flush":
                key = lambda r: jdump(r)
                if sorted(map(key, got_new)) != sorted(map(key, exp_new)):
                    return ("flush-reports", exp_new, got_new)
            elif got_new != exp_new:
                return ("final-report", exp_new, got_new)
            return None
        if self.kind == "summary":
            s = self.obj
            sm = h["sum"]
            obs = {
                "testsRun": s.testsRun,
                "errors": sorted(c.id() for c, _ in s.errors),
                "failures": sorted(c.id() for c, _ in s.failures),
                "skipped": sorted(c.id() for c, _ in s.skipped),
                "xfails": sorted(c.id() for c, _ in s.expectedFailures),
                "uxs": sorted(c.id() for c in s.unexpectedSuccesses),
            }
            exp = {
                "testsRun": sm["testsRun"],
                # the property does not say whether 'fail' lands in errors or failures: compare the union
                "problems": sorted(IDS[i] for i in sm["errors"]),
                "skipped": sorted(IDS[i] for i in sm["skipped"]),
                "xfails": sorted(IDS[i] for i in sm["xfails"]),
                "uxs": sorted(IDS[i] for i in sm["uxs"]),
            }
            obs2 = {
                "testsRun": obs["testsRun"],
                "problems": sorted(obs["errors"] + obs["failures"]),
                "skipped": obs["skipped"],
                "xfails": obs["xfails"],
                "uxs": obs["uxs"],
            }
            if obs2 != exp:
                return ("summary-lists", exp, obs2)
            if not sm["ok"] and s.wasSuccessful():
                return ("summary-wasSuccessful", False, True)
            if sm["ok"] and not s.wasSuccessful() and not sm["uxs"]:
                # nothing failed or incomplete, yet unsuccessful
                return ("summary-wasSuccessful", True, False)
            return None
        # s2e
        blocks = split_s2e(self.target._events[self.mark :])
        exp = [expected_rec(r) for r in cum]
        if len(blocks) != len(exp):
            return ("s2e-count", [e["id"] for e in exp], blocks)
        # finals in order; flushes (at the tail) as a set
        nflush = sum(1 for r in cum if r["why"] == "flush")
        head = len(exp) - nflush

        def same(b, e):
            if b.get("orphan") or b.get("unterminated"):
                return False
            return (
                b["id"] == e["id"]
                and len(b["outcomes"]) == 1
                and b["outcomes"][0] in S2E_OUT[e["status"]]
                and b["tags"] == e["tags"]
                and b["first"] == e["first"]
                and b.get("last") == e["last"]
                and b["files"] == e["files"]
            )

        for b, e in zip(blocks[:head], exp[:head]):
            if not same(b, e):
                return ("s2e-block", e, b)
        rest = list(blocks[head:])
        for e in exp[head:]:
            for i, b in enumerate(rest):
                if same(b, e):
                    del rest[i]
                    break
            else:
                return ("s2e-flush-block", e, rest)
        return None


def replay(hist, consumer):
    rp = Replayer(consumer)
    cum = []
    for i, h in enumerate(hist):
        try:
            rp.step(h)
        except Exception as ex:  # the consumers never raise on well-typed events
            return (i, "raised", None, repr(ex))
        if h["a"] == "startTestRun":
            cum = []
        cum = cum + h["new"]
        bad = rp.check(h, cum)
        if bad:
            return (i,) + bad
    return None


def nontrivial_key(hist):
    """Non-trivial: >=2 keys interleaved, an event after a final of the same key, or a split attachment."""
    evs = [h["e"] for h in hist if h["a"] == "status" and h["e"]["id"] != "none"]
    keys = [(e["id"], e["route"]) for e in evs]
    inter = any(keys[i] != keys[i + 1] for i in range(len(keys) - 1))
    after_final = False
    finals = set()
    for e in evs:
        k = (e["id"], e["route"])
        if k in finals:
            after_final = True
        if e["status"] not in ("none", "inprogress"):
            finals.add(k)
    files = {}
    for e in evs:
        if e["fname"] != "none":
            files[(e["id"], e["route"], e["fname"])] = files.get((e["id"], e["route"], e["fname"]), 0) + 1
    split = any(v > 1 for v in files.values())
    if inter or after_final or split:
        return jdump([(h["a"], h["e"]) for h in hist])
    return None


def signature(hist, consumer, clause, observed):
    """One defect, one signature: consumer, failing clause, shape of the call at which it failed
    (and the exception class when the consumer raised)."""
    last = _abstract(hist[-1:])[0]
    exc = ""
    if clause == "raised":
        exc = ":" + str(observed).split("(", 1)[0]
    return "%s:%s:%s%s" % (consumer, clause, last, exc)


def _abstract(hist):
    out = []
    for h in hist:
        if h["a"] == "status":
            e = h["e"]
            out.append(
                "%s/%s/%s%s%s"
                % (
                    e["id"],
                    e["route"],
                    e["status"],
                    "+file" if e["fname"] != "none" else "",
                    "+tags" if e["tags"] != ["~"] else "",
                )
            )
        else:
            out.append(h["a"])
    return out


def run(tier, pid="C10"):
    use_repo()
    rep = Report(
        "C10",
        tier,
        "model_checking",
        "behaviours = sequences of status() events between startTestRun/stopTestRun, exported by TLC "
        "(exhaustive up to the bound) or by tlc -simulate; each replayed into StreamToDict, StreamSummary and "
        "StreamToExtendedDecorator with per-call comparison. Non-trivial = >=2 keys interleaved, an event after a "
        "final status of the same key, or an attachment split over several events; distinct by event sequence.",
    )
    rep.assume("StreamToExtendedDecorator ignores 'exists' events by design (modelled with DropExists=TRUE)")
    rep.assume("events without a test id (with any file / mime / eof / tags / timestamp / route payload) report nothing in any "
               "of the three consumers, also not at stopTestRun (sr_expA for StreamToDict / StreamSummary, sr_expXN for "
               "StreamToExtendedDecorator)")
    rep.assume("incomplete tests may be replayed by StreamToExtendedDecorator as failure or error")
    rep.assume("'fail' may land in StreamSummary.errors or .failures; uxsuccess is not required to clear wasSuccessful")
    jobs = [
        ("sr_mcB.cfg", {}, None),
        ("sr_expA.cfg", {}, ("dict", "summary")),
        ("sr_expX.cfg", {}, ("s2e",)),
        ("sr_expXN.cfg", {}, ("s2e",)),  # events without a test id, whatever else they carry
    ]
    if tier == "quick":
        jobs.append(("sr_simC.cfg", dict(simulate=dict(num=150, depth=22), seed=rep.seed + 1, workers=4), ("dict", "summary")))
    else:
        jobs.append(("sr_mcC3.cfg", {}, None))
        jobs.append(("sr_simC.cfg", dict(simulate=dict(num=4000, depth=22), seed=rep.seed + 1, workers=8), ("dict", "summary")))
        jobs.append(("sr_simX.cfg", dict(simulate=dict(num=2000, depth=22), seed=rep.seed + 2, workers=8), ("s2e",)))
    actions = ["StartTestRun", "Status", "StopTestRun"]
    for cfg, kw, consumers in jobs:
        r = tlc.run_tlc("stream", "MCStreamRecord", cfg, coverage=True, timeout=3000, **kw)
        tlc.require_ok(r, "C10 " + cfg)
        tlc.require_coverage(r, actions, "C10 " + cfg)
        rep.add_tlc(r, cfg)
        if not consumers:
            continue
        n = 0
        for hist in tlc.exported(r):
            n += 1
            nk = nontrivial_key(hist)
            for c in consumers:
                bad = replay(hist, c)
                rep.case(
                    sample={"consumer": c, "events": _abstract(hist)} if nk and rep.evaluations % 5000 == 7 else None,
                    nontrivial_key=(c + nk) if nk else None,
                )
                rep.traces += 1
                if bad:
                    i, clause, exp, obs = bad
                    cut = hist[: i + 1]
                    rep.violation(
                        clause,
                        signature(cut, c, clause, obs),
                        {"consumer": c, "behaviour": cut, "cfg": cfg},
                        expected=exp,
                        observed=obs,
                    )
        if n == 0:
            raise tlc.MachineryError("C10 %s exported no behaviours" % cfg)
    if not rep.samples:
        rep.sample({"note": "see tlc_runs"})
    rep.exhaustive = False
    rep.extra["explanation"] = "exhaustive for the mc/exp configs (bounds in spec/stream/sr_*.cfg); random for sim configs"
    return rep.finish()


def replay_file(path, pid="C10"):
    import json

    use_repo()
    v = json.load(open(path))
    sc = v["scenario"]
    bad = replay(sc["behaviour"], sc["consumer"])
    if bad:
        print("VIOLATION property=C10 replay=%s" % path)
        print("  step=%s clause=%s expected=%r observed=%r" % bad)
        return 1
    print("replay: behaviour conforms")
    return 0
