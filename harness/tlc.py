"""Thin runner around TLC: model checking, behaviour export, simulation and trace validation.

All scratch goes under /verif/build (git-ignored); nothing is cached across runs.
"""

import json
import os
import re
import shutil
import subprocess
import tempfile
import time

VERIF = os.path.dirname(os.path.dirname(os.path.abspath(__file__)))
SPEC = os.path.join(VERIF, "spec")
BUILD = os.path.join(VERIF, "build")
JAR = "/opt/veriftools/tla/tla2tools.jar"
DEPS = "/opt/veriftools/tla/CommunityModules-deps.jar"


class MachineryError(Exception):
    """The verification machinery itself failed (never reported as a VIOLATION)."""


class TLCResult:
    def __init__(self):
        self.rc = None
        self.out = ""
        self.generated = 0
        self.distinct = 0
        self.depth = 0
        self.printed = []  # parsed PrintT tuples  <<"TAG", ...>>
        self.violated = None  # name of violated invariant / property, if any
        self.error = None  # other error text
        self.coverage = {}  # action name -> (distinct, total)
        self.wall_s = 0.0
        self.cmd = ""
        self.trace_text = ""

    @property
    def ok(self):
        return self.rc == 0 and self.violated is None and self.error is None


_PRINT_RE = re.compile(r'^<<"([A-Z_]+)", (.*)>>$')


def _parse_tla_value(s):
    """Parse the small subset of TLA+ value syntax PrintT emits for our tuples:
    strings, ints, booleans, tuples. Strings holding JSON are decoded by the caller."""
    pos = 0

    def ws():
        nonlocal pos
        while pos < len(s) and s[pos] in " \n\t":
            pos += 1

    def val():
        nonlocal pos
        ws()
        if s.startswith("<<", pos):
            pos += 2
            items = []
            ws()
            if s.startswith(">>", pos):
                pos += 2
                return items
            while True:
                items.append(val())
                ws()
                if s.startswith(">>", pos):
                    pos += 2
                    return items
                if s[pos] != ",":
                    raise ValueError("bad tuple at %d in %r" % (pos, s[:200]))
                pos += 1
        if s[pos] == '"':
            # TLA+ string: backslash escapes for \" and \\ (as printed by TLC)
            j = pos + 1
            buf = []
            while s[j] != '"':
                if s[j] == "\\":
                    nxt = s[j + 1]
                    buf.append({"n": "\n", "t": "\t", "r": "\r", "f": "\f"}.get(nxt, nxt))
                    j += 2
                else:
                    buf.append(s[j])
                    j += 1
            pos = j + 1
            return "".join(buf)
        if s.startswith("TRUE", pos):
            pos += 4
            return True
        if s.startswith("FALSE", pos):
            pos += 5
            return False
        m = re.compile(r"-?\d+").match(s, pos)
        if m:
            pos = m.end()
            return int(m.group())
        raise ValueError("cannot parse TLA value at %d: %r" % (pos, s[pos : pos + 80]))

    v = val()
    return v


def run_tlc(
    area,
    module,
    cfg,
    *,
    workers=16,
    simulate=None,  # dict(num=.., depth=..) => -simulate
    seed=None,
    env=None,
    coverage=False,
    timeout=1800,
    deadlock=False,  # True => pass -deadlock (do NOT check)
    extra=(),
    heap="8g",
    collect=("EXPORT",),
    want_out=False,
):
    """Run TLC on spec/<area>/<module>.tla with config <cfg> (file name inside the area dir)."""
    os.makedirs(BUILD, exist_ok=True)
    meta = tempfile.mkdtemp(prefix="tlc-", dir=BUILD)
    specdir = os.path.join(SPEC, area)
    cmd = [
        "java",
        "-XX:+UseParallelGC",
        "-Xmx" + heap,
        "-Djava.io.tmpdir=" + meta,  # TLC/SANY scratch dirs go away with the metadir
        "-cp",
        JAR + ":" + DEPS,
        "tlc2.TLC",
        "-workers",
        str(workers),
        "-metadir",
        meta,
        "-noGenerateSpecTE",
        "-nowarning",
        "-config",
        cfg,
    ]
    if coverage:
        cmd += ["-coverage", "1"]
    if deadlock:
        cmd += ["-deadlock"]
    if simulate:
        cmd += ["-simulate", "num=%d" % simulate["num"], "-depth", str(simulate["depth"])]
        if seed is not None:
            cmd += ["-seed", str(seed)]
    cmd += list(extra)
    cmd += [module]
    e = dict(os.environ)
    e.pop("JAVA_TOOL_OPTIONS", None)
    if env:
        e.update({k: str(v) for k, v in env.items()})
    r = TLCResult()
    r.cmd = " ".join(cmd)
    t0 = time.time()
    try:
        p = subprocess.run(
            cmd, cwd=specdir, env=e, stdout=subprocess.PIPE, stderr=subprocess.STDOUT, timeout=timeout, text=True
        )
    except subprocess.TimeoutExpired as ex:
        shutil.rmtree(meta, ignore_errors=True)
        raise MachineryError("TLC timed out after %ss: %s" % (timeout, r.cmd)) from ex
    finally:
        shutil.rmtree(meta, ignore_errors=True)
    r.wall_s = time.time() - t0
    r.rc = p.returncode
    out = p.stdout
    if want_out:
        r.out = out
    else:
        r.out = out[-20000:]
    _parse_output(r, out, collect)
    # the counterexample (if any) without coverage statistics / export lines
    i = out.find("Error:")
    if i >= 0:
        j = out.find("The coverage statistics", i)
        txt = out[i : j if j > 0 else len(out)]
        r.trace_text = "\n".join(l for l in txt.split("\n") if not l.startswith('<<"'))[:12000]
    return r


def _parse_output(r, out, collect):
    lines = out.split("\n")
    i = 0
    n = len(lines)
    cur = None
    while i < n:
        ln = lines[i]
        if ln.startswith('<<"'):
            # PrintT output; a value may span several lines when long: accumulate to balanced >>
            buf = ln
            while not _balanced(buf) and i + 1 < n:
                i += 1
                buf += "\n" + lines[i]
            m = re.match(r'^<<"([A-Z_]+)"', buf)
            if m and (collect is None or m.group(1) in collect):
                try:
                    r.printed.append(_parse_tla_value(buf))
                except Exception as ex:  # pragma: no cover
                    raise MachineryError("cannot parse TLC print: %s: %r" % (ex, buf[:300]))
        elif ln.startswith("Error: Invariant ") and " is violated" in ln:
            r.violated = ln.split("Error: Invariant ", 1)[1].split(" is violated")[0]
        elif ln.startswith("Error: Action property ") and " is violated" in ln:
            r.violated = ln.split("Error: Action property ", 1)[1].split(" is violated")[0]
        elif ln.startswith("Error: Temporal properties were violated"):
            r.violated = r.violated or "TemporalProperty"
        elif ln.startswith("Error: Deadlock reached"):
            r.violated = r.violated or "Deadlock"
        elif ln.startswith("Error:") and r.error is None and r.violated is None:
            r.error = "\n".join(lines[i : i + 12])
        else:
            m = re.match(r"^(\d+) states generated, (\d+) distinct states found", ln)
            if m:
                r.generated = int(m.group(1))
                r.distinct = int(m.group(2))
            m = re.match(r"^The depth of the complete state graph search is (\d+)", ln)
            if m:
                r.depth = int(m.group(1))
            m = re.match(r"^<(\w+) line \d+, col \d+ to line \d+, col \d+ of module (\w+)>: (\d+):(\d+)", ln)
            if m:
                r.coverage[m.group(1)] = (int(m.group(3)), int(m.group(4)))
        i += 1
    if r.rc not in (0,) and r.violated is None and r.error is None:
        r.error = "TLC exit code %s\n%s" % (r.rc, out[-3000:])


def _balanced(buf):
    depth = 0
    instr = False
    j = 0
    while j < len(buf):
        c = buf[j]
        if instr:
            if c == "\\":
                j += 1
            elif c == '"':
                instr = False
        else:
            if c == '"':
                instr = True
            elif buf.startswith("<<", j):
                depth += 1
                j += 1
            elif buf.startswith(">>", j):
                depth -= 1
                j += 1
        j += 1
    return depth == 0 and not instr


def exported(r, tag="EXPORT"):
    """Yield decoded JSON payloads of <<"EXPORT", json-string>> prints."""
    for t in r.printed:
        if t[0] == tag:
            yield json.loads(t[1])


def require_ok(r, what):
    if not r.ok:
        raise MachineryError(
            "%s: TLC failed (rc=%s violated=%s error=%s)\n%s" % (what, r.rc, r.violated, r.error, r.out[-4000:])
        )
    return r


def require_coverage(r, actions, what):
    missing = [a for a in actions if r.coverage.get(a, (0, 0))[1] == 0]
    if missing:
        raise MachineryError("%s: actions never taken in the model: %s" % (what, missing))


def sany(area, module):
    specdir = os.path.join(SPEC, area)
    p = subprocess.run(
        ["java", "-cp", JAR + ":" + DEPS, "tla2sany.SANY", module + ".tla"],
        cwd=specdir,
        stdout=subprocess.PIPE,
        stderr=subprocess.STDOUT,
        text=True,
    )
    ok = p.returncode == 0 and "Semantic errors" not in p.stdout and "***Parse Error***" not in p.stdout
    return ok, p.stdout
