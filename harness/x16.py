"""X16 - small pure helpers and tag algebra: testtools.helpers.map_values / filter_values / dict_subtract /
list_subtract, testtools.tags.TagContext, testtools.testresult.real._merge_tags.

Specs: spec/extra/TagAlgebra.tla and spec/extra/DictList.tla.

TagAlgebra: TLC checks the private sets and the folded _merge_tags delta (mechanism) against folds over the ghost history
of deltas per context (TagsMeaning, MergeMeaning, MergeDisjoint, ReturnedIsCurrent, OthersAlone, MutateHarmless,
NewMeaning) and exports every behaviour of the bounded instance; each is replayed into real TagContext objects (a tree of
contexts, change_tags with disjoint new / gone given as sets, lists, tuples, frozensets, get_current_tags, mutation of the
sets the calls returned), comparing after EVERY call the current tags of every context, the value returned, and the
result of the real _merge_tags folded over the same deltas (with the spec's delta, and - independently of the spec - by
applying it to every subset of the tags and comparing with the calls applied one after the other).

DictList: TLC checks the comprehension / loop folds (mechanism) against graph / occurrence-count algebra (MapMeaning,
FilterMeaning, SubMeaning, LSubMeaning, Laws) and exports every behaviour; each is replayed on real dicts / lists with
per-call comparison of all four registers, non-mutation of every argument, and the Laws evaluated on the real functions.
"""

import itertools

from . import tlc
from .common import Report, jdump, use_repo

PROPS = ("X16",)

TAGS3 = ("a", "b", "c")


# ----------------------------------------------------------------------------------------------------------------------
# TagAlgebra


def _container(tags, pick):
    """The same tags as a set / list / tuple / frozenset (the docs say 'a set of tags'; the code only iterates)."""
    tags = sorted(tags)
    kind = pick % 4
    if kind == 0:
        return set(tags)
    if kind == 1:
        return frozenset(tags)
    if kind == 2:
        return list(tags)
    return tuple(tags)


def _apply(delta, s):
    new, gone = delta
    return (set(s) | set(new)) - set(gone)


def replay_tags(hist, pick):
    """Return None or (step index, clause, expected, observed)."""
    from testtools.tags import TagContext
    from testtools.testresult.real import _merge_tags

    ctxs = []
    last_ret = {}
    racc = {}
    deltas = {}
    subsets = [set(c) for k in range(len(TAGS3) + 1) for c in itertools.combinations(TAGS3, k)]
    for i, h in enumerate(hist):
        a, c = h["a"], h["c"]
        try:
            if a == "new":
                p = h["arg"]
                ctx = TagContext(ctxs[p - 1]) if p else TagContext()
                ctxs.append(ctx)
                racc[c] = (set(), set())
                deltas[c] = []
            elif a == "change":
                ctx = ctxs[c - 1]
                new = _container(h["arg"]["new"], pick + i)
                gone = _container(h["arg"]["gone"], pick + i + 1)
                new0, gone0 = sorted(new), sorted(gone)
                out = ctx.change_tags(new, gone)
                if (sorted(new), sorted(gone)) != (new0, gone0):
                    return (i, "arguments-not-mutated", [new0, gone0], [sorted(new), sorted(gone)])
                if out is None or set(out) != set(h["out"]):
                    return (i, "change-returns-current-tags", sorted(h["out"]), None if out is None else sorted(out))
                last_ret[c] = out
                # the delta merge, folded over the same calls
                merged = _merge_tags((set(racc[c][0]), set(racc[c][1])), (new, gone))
                if (sorted(new), sorted(gone)) != (new0, gone0):
                    return (i, "arguments-not-mutated", [new0, gone0], [sorted(new), sorted(gone)])
                racc[c] = merged
                deltas[c].append((set(new), set(gone)))
                for s in subsets:
                    seq = set(s)
                    for d in deltas[c]:
                        seq = _apply(d, seq)
                    if _apply(merged, s) != seq:
                        return (i, "merge-equals-sequence", {"start": sorted(s), "in-sequence": sorted(seq)}, {"merged": [sorted(merged[0]), sorted(merged[1])], "gives": sorted(_apply(merged, s))})
                exp = h["acc"]
                if set(merged[0]) != set(exp["new"]) or set(merged[1]) != set(exp["gone"]):
                    # same effect on every starting set, different representation: not documented -> not a violation
                    return (i, "DRIFT", [sorted(exp["new"]), sorted(exp["gone"])], [sorted(merged[0]), sorted(merged[1])])
            elif a == "get":
                out = ctxs[c - 1].get_current_tags()
                if out is None or set(out) != set(h["out"]):
                    return (i, "get-returns-current-tags", sorted(h["out"]), None if out is None else sorted(out))
                last_ret[c] = out
            elif a == "mutate":
                t = h["arg"]
                held = last_ret[c]
                if t in held:
                    held.discard(t)
                else:
                    held.add(t)
            else:
                raise tlc.MachineryError("X16: unknown action %r" % a)
        except tlc.MachineryError:
            raise
        except Exception as ex:
            return (i, "raised", None, "%s at %s: %s" % (type(ex).__name__, a, str(ex)[:200]))
        obs = [sorted(x.get_current_tags()) for x in ctxs]
        exp = [sorted(s) for s in h["obs"]]
        if obs != exp:
            own = c - 1
            if a == "new":
                clause = "child-starts-from-parent" if obs[:own] == exp[:own] else "construction-leaves-parent-alone"
            elif a == "mutate":
                clause = "returned-set-is-a-copy"
            elif a == "get":
                clause = "get-changes-nothing"
            else:
                clause = "change-tags" if obs[own] != exp[own] else "change-leaves-other-contexts-alone"
            return (i, clause, exp, obs)
    return None


def tags_shape(hist):
    out = []
    for h in hist:
        a = h["a"]
        if a == "new":
            out.append("c%d=TagContext(%s)" % (h["c"], "c%d" % h["arg"] if h["arg"] else ""))
        elif a == "change":
            out.append("c%d.change(+%s,-%s)" % (h["c"], "".join(sorted(h["arg"]["new"])), "".join(sorted(h["arg"]["gone"]))))
        elif a == "get":
            out.append("c%d.get" % h["c"])
        else:
            out.append("c%d.returned^%s" % (h["c"], h["arg"]))
    return out


def tags_nontrivial(hist):
    """Non-trivial: a context with a parent whose parent (or the child itself) changes after the construction, a returned
    set mutated, or two deltas merged on one context."""
    parents = {}
    changed_after = False
    per = {}
    mut = False
    for h in hist:
        if h["a"] == "new":
            parents[h["c"]] = h["arg"]
        elif h["a"] == "change":
            per[h["c"]] = per.get(h["c"], 0) + 1
            if parents.get(h["c"]) or any(p == h["c"] for p in parents.values()):
                changed_after = True
        elif h["a"] == "mutate":
            mut = True
    if changed_after or mut or any(v > 1 for v in per.values()):
        return jdump(tags_shape(hist))
    return None


# ----------------------------------------------------------------------------------------------------------------------
# DictList

FNS = {"id": lambda v: v, "inc": lambda v: (v + 1) % 3, "zero": lambda v: 0, "dbl": lambda v: (2 * v) % 3}
PREDS = {"truthy": lambda v: v != 0, "lt2": lambda v: v < 2, "is1": lambda v: v == 1, "none": lambda v: False, "all": lambda v: True}
# non-bool truth values (filter semantics are those of `if function(v)`)
PREDS_NB = {"truthy": lambda v: v, "lt2": lambda v: [1] if v < 2 else [], "is1": lambda v: "y" if v == 1 else "", "none": lambda v: None, "all": lambda v: 1}
# list elements: the A side and the B side use equal but not identical objects (1 / 1.0, two "yy" strings, two tuples)
ELEM_A = {"x": 1, "y": "yy", "z": (3, "z")}


def elem_b(e):
    return {"x": 1.0, "y": "".join(["y", "y"]), "z": tuple([3, "z"])}[e]


def _dict(j):
    return {} if j == [] else dict(j)


def _is_subseq(r, a):
    it = iter(a)
    return all(any(x == y for y in it) for x in r)


def _lsub_meaning(r, a, b):
    if not isinstance(r, list) or not _is_subseq(r, a):
        return False
    for e in list(a) + list(b):
        if sum(1 for x in r if x == e) != max(0, sum(1 for x in a if x == e) - sum(1 for x in b if x == e)):
            return False
    return True


def dict_laws(helpers, dA, dB):
    """The Laws of DictList.tla on the real functions. -> None or (law, expected, observed)."""
    mv, fv, ds = helpers.map_values, helpers.filter_values, helpers.dict_subtract
    for f, g in itertools.product(FNS, FNS):
        l, r = mv(FNS[f], mv(FNS[g], dA)), mv(lambda v: FNS[f](FNS[g](v)), dA)
        if l != r:
            return ("map-composes:%s.%s" % (f, g), r, l)
    if mv(FNS["id"], dA) != dA:
        return ("map-identity", dA, mv(FNS["id"], dA))
    for p, q in itertools.product(PREDS, PREDS):
        l, r = fv(PREDS[p], fv(PREDS[q], dA)), fv(lambda v: PREDS[p](v) and PREDS[q](v), dA)
        if l != r:
            return ("filters-conjoin:%s.%s" % (p, q), r, l)
    for p in PREDS:
        yes, no = fv(PREDS[p], dA), fv(lambda v: not PREDS[p](v), dA)
        if set(yes) & set(no) or dict(yes, **no) != dA:
            return ("filter-partitions:%s" % p, dA, [yes, no])
        for f in FNS:
            l, r = fv(PREDS[p], mv(FNS[f], dA)), mv(FNS[f], fv(lambda v: PREDS[p](FNS[f](v)), dA))
            if l != r:
                return ("filter-map-commute:%s.%s" % (p, f), r, l)
    sub = ds(dA, dB)
    if ds(sub, dB) != sub:
        return ("subtract-idempotent", sub, ds(sub, dB))
    if ds(dA, dA) != {} or ds(dA, {}) != dA:
        return ("subtract-self-and-empty", [{}, dA], [ds(dA, dA), ds(dA, {})])
    if set(sub) & set(ds(dB, dA)):
        return ("subtract-disjoint", [], sorted(set(sub) & set(ds(dB, dA))))
    if dict(sub, **{k: v for k, v in dA.items() if k in dB}) != dA:
        return ("subtract-partitions", dA, sub)
    return None


def list_laws(helpers, lA, lB):
    ls = helpers.list_subtract
    if ls(lA, []) != lA or ls(lA, lA) != [] or ls([], lB) != []:
        return ("list-subtract-empty-and-self", [lA, [], []], [ls(lA, []), ls(lA, lA), ls([], lB)])
    if ls(ls(lA, lB), lB) != ls(lA, lB + lB):
        return ("list-subtract-twice", ls(lA, lB + lB), ls(ls(lA, lB), lB))
    ab, ba = ls(lA, lB), ls(lB, lA)
    if len(ab) + len(ba) + 2 * (len(lA) - len(ab)) != len(lA) + len(lB):
        return ("list-subtract-counts", len(lA) + len(lB), len(ab) + len(ba) + 2 * (len(lA) - len(ab)))
    return None


def replay_dl(hist, pick, law_cache):
    """Return None or (step index, clause, expected, observed)."""
    import copy

    from testtools import helpers

    init = hist[0]
    regs = {
        "dA": _dict(init["dA"]),
        "dB": _dict(init["dB"]),
        "lA": [ELEM_A[e] for e in init["lA"]],
        "lB": [elem_b(e) for e in init["lB"]],
    }
    key = jdump([init["dA"], init["dB"], init["lA"], init["lB"]])
    if key not in law_cache:
        law_cache.add(key)
        try:
            bad = dict_laws(helpers, dict(regs["dA"]), dict(regs["dB"])) or list_laws(helpers, list(regs["lA"]), list(regs["lB"]))
        except Exception as ex:
            return (0, "raised", None, "%s in the laws: %s" % (type(ex).__name__, str(ex)[:200]))
        if bad:
            return (0, "law:" + bad[0].split(":")[0], bad[1], bad[2])

    def expected(h):
        return {"dA": _dict(h["dA"]), "dB": _dict(h["dB"]), "lA": [ELEM_A[e] for e in h["lA"]], "lB": [ELEM_A[e] for e in h["lB"]]}

    for i, h in enumerate(hist[1:], 1):
        a = h["a"]
        held = dict(regs)  # the argument objects themselves
        snap = copy.deepcopy(regs)
        try:
            if a == "map":
                out = helpers.map_values(FNS[h["arg"]], regs["dA"])
                target, kind = "dA", dict
            elif a == "filter":
                preds = PREDS_NB if (pick + i) % 2 else PREDS
                out = helpers.filter_values(preds[h["arg"]], regs["dA"])
                target, kind = "dA", dict
            elif a == "sub":
                out = helpers.dict_subtract(regs["dA"], regs["dB"])
                target, kind = "dA", dict
            elif a == "subrev":
                out = helpers.dict_subtract(regs["dB"], regs["dA"])
                target, kind = "dB", dict
            elif a == "lsub":
                out = helpers.list_subtract(regs["lA"], regs["lB"])
                target, kind = "lA", list
            elif a == "lsubrev":
                out = helpers.list_subtract(regs["lB"], regs["lA"])
                target, kind = "lB", list
            else:
                raise tlc.MachineryError("X16: unknown action %r" % a)
        except tlc.MachineryError:
            raise
        except Exception as ex:
            return (i, "raised", None, "%s at %s: %s" % (type(ex).__name__, a, str(ex)[:200]))
        for r in ("dA", "dB", "lA", "lB"):
            if held[r] != snap[r] or type(held[r]) is not type(snap[r]):
                return (i, "arguments-not-mutated", snap[r], held[r])
        if not isinstance(out, kind):
            return (i, "returns-a-%s" % kind.__name__, kind.__name__, type(out).__name__)
        exp = expected(h)
        if out != exp[target]:
            if kind is list:
                other = "lB" if target == "lA" else "lA"
                if _lsub_meaning(out, snap[target], snap[other]):
                    return (i, "DRIFT", exp[target], out)
                return (i, "list-subtract", exp[target], out)
            clause = {"map": "map-values", "filter": "filter-values", "sub": "dict-subtract", "subrev": "dict-subtract"}[a]
            return (i, clause, exp[target], out)
        regs[target] = out
    return None


def dl_shape(hist):
    init = hist[0]
    ops = ["%s(%s)" % (h["a"], h["arg"]) if h["arg"] != "none" else h["a"] for h in hist[1:]]
    return {"dA": init["dA"], "dB": init["dB"], "lA": init["lA"], "lB": init["lB"], "ops": ops}


def dl_nontrivial(hist):
    """Non-trivial: a dict call that changes its register with both registers non-empty or after an earlier call, or a
    list subtraction where a value occurs twice in one list and at least once in the other."""
    init = hist[0]
    if init["lA"] or init["lB"]:
        a, b = init["lA"], init["lB"]
        if any((a.count(e) > 1 and e in b) or (b.count(e) > 1 and e in a) for e in set(a + b)):
            return jdump(dl_shape(hist))
        return None
    changed = [k for k in range(1, len(hist)) if (hist[k]["dA"], hist[k]["dB"]) != (hist[k - 1]["dA"], hist[k - 1]["dB"])]
    if changed and (len(changed) > 1 or (init["dA"] != [] and init["dB"] != [])):
        return jdump(dl_shape(hist))
    return None


# ----------------------------------------------------------------------------------------------------------------------


def signature(part, hist, clause, observed):
    """One defect, one signature: part, clause, the call it failed at (+ exception class when it raised)."""
    last = hist[-1]
    extra = ""
    if clause == "raised":
        extra = ":" + str(observed).split(" ", 1)[0]
    return "x16:%s:%s:%s%s" % (part, clause, last["a"], extra)


TA_ACTIONS = ["New", "Change", "Get", "Mutate"]


def run(tier, pid="X16"):
    use_repo()
    rep = Report(
        "X16",
        tier,
        "model_checking",
        "behaviours = (1) TagContext programs: up to 3 (simulation: 4) contexts built as a tree, change_tags with disjoint "
        "new / gone over 2..3 tags, get_current_tags, mutation of a returned set, with _merge_tags folded over the deltas of "
        "each context; (2) helper programs: two dict registers (every pair of dicts over 2 keys x 3 values) under "
        "map_values (4 functions) / filter_values (5 predicates, bool and non-bool truth values) / dict_subtract both ways; "
        "two list registers (every pair of lists of length <= 3 over 3 values, equal-but-not-identical objects on the two "
        "sides) under list_subtract both ways. Exported by TLC (exhaustive within the bounds of spec/extra/ta_*.cfg, "
        "dl_*.cfg) or tlc -simulate; each replayed into the real objects / functions with per-call comparison. "
        "Non-trivial = a parent or child changed after the child's construction, a returned set mutated, two deltas "
        "merged; a dict call that changes a register next to another; a list value occurring twice on one side and on the "
        "other side too; distinct by program.",
    )
    rep.assume("a tags delta has disjoint new and gone sets (what a call adding and removing the same tag means is not documented; change_tags and _merge_tags disagree on it)")
    rep.assume("_merge_tags is judged by its effect: the merged (new, gone) applied to every subset of the tags equals the deltas applied in sequence; a different representation with the same effect is DRIFT")
    rep.assume("dict results are compared as mappings (key order is not documented); list_subtract must return a subsequence of a with count_a - count_b occurrences of every value (which occurrence is dropped is not documented: DRIFT)")
    rep.assume("helpers 'return' their result: mutating an argument is reported although no sentence forbids it explicitly")
    jobs = [
        ("MCTagAlgebra", "ta_mc.cfg", {}, None, TA_ACTIONS),
        ("MCTagAlgebra", "ta_exp.cfg", {}, "tags", TA_ACTIONS),
        ("MCTagAlgebra", "ta_sim.cfg", dict(simulate=dict(num=60 if tier == "quick" else 3000, depth=14), seed=rep.seed + 1), "tags", None),
        ("MCDictList", "dl_mcD.cfg" if tier == "quick" else "dl_mcD3.cfg", {}, None, ["MapValues", "FilterValues", "DictSubtract", "DictSubtractRev"]),
        ("MCDictList", "dl_mcL.cfg" if tier == "quick" else "dl_mcL4.cfg", {}, None, ["ListSubtract", "ListSubtractRev"]),
        ("MCDictList", "dl_expD.cfg", {}, "dl", ["MapValues", "FilterValues", "DictSubtract", "DictSubtractRev"]),
        ("MCDictList", "dl_expL.cfg", {}, "dl", ["ListSubtract", "ListSubtractRev"]),
    ]
    law_cache = set()
    seen_drift = set()
    for module, cfg, kw, part, actions in jobs:
        r = tlc.run_tlc("extra", module, cfg, coverage=True, timeout=600, workers=4, **kw)
        tlc.require_ok(r, "X16 " + cfg)
        if actions:
            tlc.require_coverage(r, actions, "X16 " + cfg)
        rep.add_tlc(r, cfg)
        if not part:
            continue
        nb = 0
        for hist in tlc.exported(r):
            nb += 1
            pick = rep.seed + nb
            if part == "tags":
                nk = tags_nontrivial(hist)
                bad = replay_tags(hist, pick)
                sample = {"program": tags_shape(hist)}
            else:
                nk = dl_nontrivial(hist)
                bad = replay_dl(hist, pick, law_cache)
                sample = dl_shape(hist)
            rep.case(sample=sample if nk and rep.evaluations % 9000 == 13 else None, nontrivial_key=nk)
            rep.traces += 1
            if bad:
                i, clause, exp, obs = bad
                cut = hist[: i + 1]
                if clause == "DRIFT":
                    text = "X16 %s: %s gives %r where the specification's mechanism gives %r (same documented meaning)" % (part, cut[-1]["a"], obs, exp)
                    if cut[-1]["a"] not in seen_drift:
                        seen_drift.add(cut[-1]["a"])
                        rep.note_drift(text)
                    continue
                rep.violation(clause, signature(part, cut, clause, obs), {"part": part, "behaviour": cut, "pick": pick, "cfg": cfg}, expected=exp, observed=obs)
        if nb == 0:
            raise tlc.MachineryError("X16 %s exported no behaviours" % cfg)
    if not rep.samples:
        rep.sample({"note": "see tlc_runs"})
    rep.exhaustive = False
    rep.extra["explanation"] = "exhaustive for the mc/exp configs (bounds in spec/extra/ta_*.cfg, dl_*.cfg); random for ta_sim.cfg"
    return rep.finish()


def replay_file(path, pid="X16"):
    import json

    use_repo()
    v = json.load(open(path))
    sc = v["scenario"]
    if sc["part"] == "tags":
        bad = replay_tags(sc["behaviour"], sc["pick"])
    else:
        bad = replay_dl(sc["behaviour"], sc["pick"], set())
    if bad and bad[1] != "DRIFT":
        print("VIOLATION property=X16 replay=%s" % path)
        print("  step=%s clause=%s expected=%r observed=%r" % bad)
        return 1
    print("replay: behaviour conforms")
    return 0
