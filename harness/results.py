"""C04, C08, C17 - result objects, adapters and tags (spec/results/Results.tla).

TLC model-checks the adapter mechanism (per-class transfer functions over a tree of result objects) against the
history-fold meaning (Verdict / FailFast* / StopReaches, ExactlyOnce / NoUpgrade with the Degrade table,
TagsScoped / TagsObserved) for every stack template and every bounded call history, and exports each behaviour.
The driver builds the same stack from the real classes over testresult.doubles, issues the same calls and after
EVERY call compares, for every node, wasSuccessful(), shouldStop, current_tags, testsRun and the projected logs
of the innermost results with what the spec exported.  Each property reports only its own clauses."""

import json
import random

from . import tlc
from .common import Report, jdump, use_repo

PROPS = ("C04", "C08", "C17")

CLAUSES = {
    "C04": ("c04_verdict", "c04_failfast", "c04_stop_reaches", "c04_testsrun", "c04_text", "c04_exit", "c04_suite", "c04_raised"),
    "C08": ("c08_once", "c08_calls", "c08_degrade_text", "c08_noupgrade", "c08_bytest", "c08_raised"),
    "C17": ("c17_scoped", "c17_observed", "c17_observed_stable", "c17_raised"),
}
ACTIONS = ["StartTestRun", "StopTestRun", "Tags", "Time", "StartTest", "Outcome", "StopTest", "SkipAdd", "SkipStop",
           "Stop", "Done", "Progress", "SetFailfast", "SubTest"]
BAD = ("error", "failure", "uxsuccess")
OWN_LEAVES = ("TT", "Text", "ByTest")


# ---------------------------------------------------------------------------------------------------------
class Stack:
    """static facts about a template (mirrors the Derived record of the spec)"""

    def __init__(self, spec):
        self.name = spec["name"]
        self.nodes = spec["nodes"]
        n = len(self.nodes)
        self.parent = [None] * n
        for i, nd in enumerate(self.nodes):
            for c in nd["ch"]:
                self.parent[c - 1] = i
        self.kinds = [nd["k"] for nd in self.nodes]

    def path(self, i):
        p = []
        while i is not None:
            p.append(i)
            i = self.parent[i]
        return p[::-1]

    def leaves_below(self, i):
        ch = self.nodes[i]["ch"]
        if not ch:
            return [i]
        out = []
        for c in ch:
            out += self.leaves_below(c - 1)
        return out

    def below_stream(self, i):
        return any(self.kinds[a] in ("E2S", "S2E") for a in self.path(i)[:-1])

    def own_tree(self, i):
        return (
            self.kinds[i] not in ("E2S", "S2E")
            and not self.below_stream(i)
            and all(self.kinds[l] in OWN_LEAVES for l in self.leaves_below(i))
        )

    def below_buffer(self, i):
        return any(self.kinds[a] in ("TFR", "E2S", "S2E") for a in self.path(i)[:-1])

    def via(self, i):
        return sorted({self.kinds[a] for a in self.path(i)} & {"Multi", "TFR", "E2S", "S2E"})


CORE_EVENTS = ("startTestRun", "stopTestRun", "startTest", "stopTest", "add", "progress", "status", "ontest")


def core(e, below_stream):
    if e["e"] == "ontest":
        return (e["e"], e["t"], e["k"], e["p"], e["v"], e["w"])
    return (e["e"], e["t"], e["k"], None if below_stream else e["p"])


def has_start(hist_upto, t):
    return any(h["c"]["op"] == "startTest" and h["c"]["t"] == t for h in hist_upto)


def replay(beh, flavour, clauses=None):
    """Run one exported behaviour against the real classes.
    -> list of divergences (dicts with clause, step, node, expected, observed, ...); stops at the first step that diverges."""
    from . import results_rt as rt

    st = Stack(beh["stack"])
    nodes = rt.build(st.nodes, bool(beh["preff"]))
    top = nodes[0].obj
    tests = {}
    hist = beh["hist"]
    out = []
    startless = False
    ret = rt.Retained()
    in_outcome = False  # between a test's outcome and its stopTest
    postout = False  # a tags() made there went into a ThreadsafeForwardingResult's run-level buffer (direct evidence)
    stale = False  # a ThreadsafeForwardingResult still holds buffered run-level tags right after startTestRun
    nulled = False  # some object's tag context has been replaced by None (direct evidence, see signature())
    for step, h in enumerate(hist):
        c = h["c"]
        if c["t"] != "none" and c["t"] not in tests:
            tests[c["t"]] = rt.make_test(flavour, c["t"])
        if c["op"] == "stopTest" and not has_start(hist[:step], c["t"]):
            startless = True
        tfr_before = [(nd, (set(nd.obj._global_tags[0]), set(nd.obj._global_tags[1]))) for nd in nodes if nd.k == "TFR"] if c["op"] == "tags" and in_outcome else []
        try:
            rt.do_call(top, c, tests)
        except Exception as ex:  # the result API never raises on these calls
            import traceback

            tb = traceback.extract_tb(ex.__traceback__)
            where = next((f.name for f in reversed(tb) if f.filename.endswith("real.py") or f.filename.endswith("testcase.py") or f.filename.endswith("tags.py")), "?")
            cls = next((f for f in reversed(tb) if f.filename.endswith("real.py")), None)
            nulled = nulled or any(getattr(nd.obj, "_tags", 0) is None for nd in nodes)
            out.append(dict(clause="raised", step=step, node=0, expected="returns", observed="%s: %s" % (type(ex).__name__, ex),
                            where=where, line=cls.lineno if cls else 0, exc=type(ex).__name__, startless=startless, nulled=nulled))
            return out, nodes
        nulled = nulled or any(getattr(nd.obj, "_tags", 0) is None for nd in nodes)
        if any((set(nd.obj._global_tags[0]), set(nd.obj._global_tags[1])) != before for nd, before in tfr_before):
            postout = True
        if c["op"] == "add" and has_start(hist[:step], c["t"]):
            in_outcome = True
        elif c["op"] == "stopTest":
            in_outcome = False
        if c["op"] == "startTestRun":
            stale = stale or any(nd.k == "TFR" and any(nd.obj._global_tags) for nd in nodes)
        mark = len(out)
        # 0. nothing that was handed out for an earlier call has changed since (the ACTUAL objects: final-status test_tags,
        #    StreamToDict records, on_test tags, current_tags values - not our receive-time copies)
        for source, i, snap, now in ret.changed():
            out.append(dict(clause="c17_observed_stable", step=step, node=i, expected=snap, observed=now, source=source))
        for nd in nodes:
            rt.retain_new(ret, nd, "log")
            rt.retain_new(ret, nd, "attr")
        # 1. per-node observables
        for i, nd in enumerate(nodes):
            exp = h["obs"][i]
            obs = rt.observe(nd)
            if exp["ok"] == "na":
                obs["ok"] = "na"
            if exp["run"] == 99:
                obs["run"] = 99
            if exp["ok"] != "na" and obs["ok"] != exp["ok"]:
                out.append(dict(clause="c04_verdict" if st.own_tree(i) else "drift_ok", step=step, node=i, expected=exp["ok"], observed=obs["ok"]))
            if exp["stop"] != "na" and obs["stop"] != exp["stop"]:
                cl = "c04_stop_reaches" if c["op"] == "stop" or str(obs["stop"]).startswith("raises") else "c04_failfast"
                out.append(dict(clause=cl, step=step, node=i, expected=exp["stop"], observed=obs["stop"]))
            if exp["tags"] != rt.NOTAGS and obs["tags"] != sorted(exp["tags"]):
                out.append(dict(clause="c17_scoped", step=step, node=i, expected=sorted(exp["tags"]), observed=obs["tags"], startless=startless,
                                run=sum(1 for x in hist[: step + 1] if x["c"]["op"] == "startTestRun")))
            if obs["cnt"] != list(exp["cnt"]):
                out.append(dict(clause="c04_verdict", step=step, node=i, expected=list(exp["cnt"]), observed=obs["cnt"]))
            if nd.k == "Text" and c["op"] == "stopTestRun":
                # the written summary agrees with the model's counters: test count, OK/FAILED, total, one section per problem
                got_txt = rt.parse_text_summary(nd.obj.text.getvalue())
                exp_txt = rt.expected_text_summary(exp["run"], exp["cnt"], exp["ok"])
                if got_txt != exp_txt:
                    out.append(dict(clause="c04_text", step=step, node=i, expected=exp_txt, observed=got_txt))
            if exp["run"] != 99 and obs["run"] != exp["run"]:
                out.append(dict(clause="c04_testsrun" if st.own_tree(i) else "drift_run", step=step, node=i, expected=exp["run"], observed=obs["run"]))
        # 2. what the innermost results received during this call
        for i, nd in enumerate(nodes):
            if nd.k == "S2E" or (nd.ch and nd.k != "E2S"):
                continue
            got = rt.project_new(nd)
            exp = h["new"][i]
            bs = st.below_stream(i)
            gc = [core(e, bs) for e in got if e["e"] in CORE_EVENTS]
            ec = [core(e, bs) for e in exp if e["e"] in CORE_EVENTS]
            if nd.k == "ByTest":
                # a test reported without startTest has no start time to speak of
                gc = [x if has_start(hist[: step + 1], x[1]) else x[:4] + ("none", x[5]) for x in gc]
                ec = [x if has_start(hist[: step + 1], x[1]) else x[:4] + ("none", x[5]) for x in ec]
            if gc != ec:
                cl = "c08_bytest" if nd.k == "ByTest" else "c08_once"
                if nd.k != "ByTest" and c["op"] == "add" and c["kind"] in BAD:
                    gk = [x[2] for x in gc if x[0] in ("add", "status")]
                    if gk and all(k not in BAD + ("fail",) for k in gk):
                        cl = "c08_noupgrade"
                out.append(dict(clause=cl, step=step, node=i, expected=ec, observed=gc))
            else:
                # text-contains checks of the documented degradation
                for e in got:
                    if e["p"] == "synexc":
                        # ... the detail text of THIS call (the details current when it was made)
                        need = [] if c.get("form") == "det0" else [rt.DETAIL_TEXT + rt.tok(c.get("x"))] + ([rt.REASON_IN_DETAILS + rt.tok(c.get("x"))] if c.get("form") == "detr" else [])
                        if not all(x in e["text"] for x in need):
                            out.append(dict(clause="c08_degrade_text", step=step, node=i, expected=need, observed=e["text"]))
                    elif e["p"] == "synreason":
                        ok = e["text"] == rt.REASON_IN_DETAILS + rt.tok(c.get("x")) if c.get("form") == "detr" else rt.DETAIL_TEXT + rt.tok(c.get("x")) in e["text"]
                        if not ok:
                            out.append(dict(clause="c08_degrade_text", step=step, node=i, expected=c.get("form"), observed=e["text"]))
                # tags observed for the test at its outcome
                gt = [e["tg"] for e in got if e["e"] in ("add", "ontest") or (e["e"] == "status" and e["k"] != "inprogress")]
                et = [sorted(e["tg"]) for e in exp if e["e"] in ("add", "ontest") or (e["e"] == "status" and e["k"] != "inprogress")]
                if gt != et and nd.k not in ("Py26", "Py27", "Tw"):
                    out.append(dict(clause="c17_observed", step=step, node=i, expected=et, observed=gt, startless=startless,
                                    run=sum(1 for x in hist[: step + 1] if x["c"]["op"] == "startTestRun")))
                    if nd.k == "ByTest":
                        # C08 says it too: the one callback per test carries that test's tags
                        out.append(dict(clause="c08_bytest", step=step, node=i, expected=et, observed=gt, what="tags"))
                # tags()/time() events as such are mechanism, not property: drift only
                gm = [(e["e"], e["n"], e["g"], e["v"]) for e in got if e["e"] in ("tags", "time")]
                em = [(e["e"], sorted(e["n"]), sorted(e["g"]), e["v"]) for e in exp if e["e"] in ("tags", "time")]
                if gm != em:
                    # tags()/time() calls forwarded call by call (E2O, Multi, Decor, Tagger) belong to "each call once, in
                    # order"; what a buffering adapter (TFR, E2S) re-batches is mechanism: drift only
                    out.append(dict(clause="drift_calls" if st.below_buffer(i) else "c08_calls", step=step, node=i, expected=em, observed=gm))
        for d in out[mark:]:
            d["nulled"] = nulled
            d["startless"] = startless
            d["stale"] = stale
            d["postout"] = postout
        # stop at the first step that diverges in a clause of the property being decided (a getter that raises is
        # recorded but does not end the replay: it would mask everything else on that stack)
        if [d for d in out if (clauses is None or d["clause"] in clauses) and not str(d["observed"]).startswith("raises")
            and not d["clause"].startswith("drift")]:
            return out, nodes
    return out, nodes


# ---------------------------------------------------------------------------------------------------------
def call_shape(c):
    if c["op"] == "add":
        return "add/%s/%s%s" % (c["kind"], c["form"], "/same-dict" if c.get("id") == "reuse" else "")
    if c["op"] == "subtest":
        return "addSubTest/%s" % c["kind"]
    if c["op"] == "setff":
        return "setff/%s" % c["b"]
    return c["op"]


IMPL = {"TT": "TestResult", "Text": "TestResult", "ByTest": "TestByTestResult", "Multi": "MultiTestResult", "TFR": "ThreadsafeForwardingResult"}
TAGS_IMPL = {"TT": "TestResult", "Text": "TestResult", "ByTest": "TestResult", "Multi": "TestResult", "TFR": "TestResult"}


def under(st, i):
    """nearest strict ancestor that buffers / multiplexes / converts"""
    for a in reversed(st.path(i)[:-1]):
        if st.kinds[a] in ("Multi", "TFR", "E2S", "S2E"):
            return st.kinds[a]
    return "-"


def signature(beh, flavour, d):
    """One defect, one signature: failing clause + the features that cause it, not the particular stack/history."""
    st = Stack(beh["stack"])
    hist = beh["hist"]
    c = hist[d["step"]]["c"]
    i = d["node"]
    kind = st.kinds[i]
    cl = d["clause"]
    callclass = c["op"] + ("/" + ("bad" if c["kind"] in BAD else "good") if c["op"] == "add" else "")
    obs = d["observed"]
    if d.get("nulled") and d.get("startless") and (cl.startswith("c17") or cl == "raised"):
        return "c17:stopTest-without-startTest-nulls-tag-context"
    if d.get("stale") and cl == "c17_observed" and any(st.kinds[a] == "TFR" for a in st.path(i)):
        return "c17:TFR-keeps-global-tags-across-startTestRun"
    if d.get("postout") and cl == "c17_observed" and any(st.kinds[a] == "TFR" for a in st.path(i)):
        return "c17:TFR-buffers-tags-after-outcome-as-run-level"
    if cl == "raised":
        # the argument form decides (which outcome it was and what kind of test object do not)
        return "raised:%s:%s:in=%s%s" % (c["op"] + ("/" + c["form"] if c["op"] == "add" else ""), d["exc"], d["where"],
                                         ":after-startless-stopTest" if d.get("startless") else "")
    if isinstance(obs, str) and obs.startswith("raises"):
        return "%s:at=%s:%s%s" % (cl, IMPL.get(kind, kind), obs, ":after-startless-stopTest" if d.get("startless") else "")
    how = "preff" if beh["preff"] else "setff" if any(h["c"]["op"] == "setff" for h in hist[: d["step"] + 1]) else "noff"
    if cl in ("c04_failfast", "c04_stop_reaches"):
        u = under(st, i)
        at = "wrapped" if u != "-" and not st.nodes[i]["ch"] else IMPL.get(kind, kind)
        return "%s:%s:at=%s:under=%s:%s:%s->%s" % (cl, callclass, at, u, how, d["expected"], obs)
    if cl == "c17_observed_stable":
        return "c17_observed_stable:src=%s:at=%s:changed-by=%s" % (d.get("source"), TAGS_IMPL.get(kind, kind), c["op"])
    if cl == "c04_text":
        diff = sorted(k for k in d["expected"] if d["expected"][k] != obs.get(k))
        return "%s:at=%s:under=%s:%s" % (cl, IMPL.get(kind, kind), under(st, i), "+".join(diff))
    if cl in ("c04_verdict", "c04_testsrun"):
        run = sum(1 for x in hist[: d["step"] + 1] if x["c"]["op"] == "startTestRun")
        return "%s:%s:at=%s:under=%s:run%d:%s->%s" % (cl, callclass, IMPL.get(kind, kind), under(st, i), min(run, 2), d["expected"], obs)
    feats = []
    if d.get("startless"):
        feats.append("after-startless-stopTest")
    if d.get("run", 1) > 1:
        feats.append("run>1")
    feats = "+".join(feats) or "-"
    if cl == "c17_scoped":
        e, o_ = set(d["expected"]), set(obs)
        o = "lost" if o_ < e else "extra" if o_ > e else "differs"
        return "%s:at=%s:under=%s:%s:%s" % (cl, TAGS_IMPL.get(kind, kind), under(st, i), feats, o)
    if cl == "c17_observed":
        eflat = {x for t in d["expected"] for x in t}
        oflat = {x for t in obs for x in t}
        o = "lost" if oflat < eflat else "extra" if oflat > eflat else "differs"
        return "%s:leaf=%s:under=%s:%s:%s" % (cl, kind, under(st, i), feats, o)
    if d.get("what") == "tags":
        eflat = {x for t in d["expected"] for x in t}
        oflat = {x for t in obs for x in t}
        o = "lost" if oflat < eflat else "extra" if oflat > eflat else "differs"
        return "%s:tags:leaf=%s:under=%s:%s" % (cl, kind, under(st, i), o)
    o = "missing" if len(obs) < len(d["expected"]) else "extra" if len(obs) > len(d["expected"]) else "differs"
    return "%s:%s:leaf=%s:under=%s:%s" % (cl, callclass, kind, under(st, i), o)


def culprits(st, divs):
    """per clause keep the deepest diverging node (the divergence of its ancestors follows from it)"""
    best = {}
    for d in divs:
        if d["clause"].startswith("drift"):
            continue
        depth = len(st.path(d["node"]))
        k = (d["clause"], d.get("source"))
        if k not in best or depth > best[k][0]:
            best[k] = (depth, d)
    return [v[1] for v in best.values()] + [d for d in divs if d["clause"].startswith("drift")]


def in_domain(pid, beh, d):
    """a raise belongs to the property in whose history domain it happened"""
    ops = [h["c"] for h in beh["hist"]]
    startless = d.get("startless") or any(
        c["op"] == "add" and not any(x["op"] == "startTest" and x["t"] == c["t"] for x in ops) for c in ops[: d["step"] + 1]
    )
    if pid == "C08":
        return not startless
    if pid == "C04":
        return not startless
    # C17 states predicates about tags: an exception counts when it comes out of the tag machinery (or the tag context
    # has been lost); anything else (e.g. TestByTestResult.stopTest needing the start time of a test that was never
    # started) is outside what C17 says and is printed as DRIFT
    return bool(d.get("nulled")) or d.get("where") in ("current_tags", "tags", "get_current_tags", "change_tags", "_merge_tags")


def nontrivial(beh):
    st = beh["stack"]
    adapters = sum(1 for n in st["nodes"] if n["k"] in ("E2O", "Multi", "TFR", "Decor", "Tagger", "E2S", "S2E"))
    outcomes = sum(1 for h in beh["hist"] if h["c"]["op"] == "add")
    tagops = sum(1 for h in beh["hist"] if h["c"]["op"] == "tags")
    return outcomes >= 2 or adapters >= 2 or tagops >= 2


def abstract(beh):
    return {"stack": beh["stack"]["name"], "preff": beh["preff"], "calls": [call_shape(h["c"]) + (":" + h["c"]["t"] if h["c"]["t"] != "none" else "") + (("+%s-%s" % (",".join(h["c"]["n"]), ",".join(h["c"]["g"]))) if h["c"]["op"] == "tags" else "") + ((":" + h["c"]["v"]) if h["c"]["op"] == "time" else "") for h in beh["hist"]]}


FLAVOURS = ("tc", "ph", "eh")


_DRIFT_SEEN = set()


def report_divergences(rep, pid, beh, flavour, divs, cfg):
    for d in culprits(Stack(beh["stack"]), divs):
        cl = d["clause"]
        if cl.startswith("drift"):
            key = (cl, beh["stack"]["name"])
            if key in _DRIFT_SEEN:
                continue
            _DRIFT_SEEN.add(key)
            rep.note_drift("%s %s step %d node %d: expected %s observed %s" % (cl, beh["stack"]["name"], d["step"], d["node"], d["expected"], d["observed"]))
            continue
        if cl == "raised":
            if not in_domain(pid, beh, d):
                key = ("raise", d["where"], d["exc"])
                if key in _DRIFT_SEEN:
                    continue
                _DRIFT_SEEN.add(key)
                rep.note_drift("exception outside the domain of %s: %s in %s after %s" % (pid, d["observed"], d["where"], abstract(beh)["calls"][: d["step"] + 1]))
                continue
            cl = pid.lower() + "_raised"
        if cl not in CLAUSES[pid]:
            continue
        cut = dict(beh, hist=beh["hist"][: d["step"] + 1])
        rep.violation(cl, signature(beh, flavour, d), {"behaviour": cut, "tests": flavour, "cfg": cfg, "abstract": abstract(cut)},
                      expected=d["expected"], observed=d["observed"])


def run_cfg(rep, pid, cfg, flavours, keep=None, **kw):
    kw.setdefault("workers", 8)
    r = tlc.run_tlc("results", "MCResults", cfg, coverage=True, timeout=3000, **kw)
    tlc.require_ok(r, "%s %s" % (pid, cfg))
    rep.add_tlc(r, cfg)
    n = 0
    for beh in tlc.exported(r):
        n += 1
        if keep is not None:
            keep(cfg, beh)
        nk = jdump(abstract(beh)) if nontrivial(beh) else None
        for fl in flavours(n):
            divs, _ = replay(beh, fl, CLAUSES[pid])
            rep.case(sample=dict(abstract(beh), tests=fl) if nk and rep.evaluations % 7919 == 11 else None,
                     nontrivial_key=(fl + nk) if nk else None)
            rep.traces += 1
            if divs:
                report_divergences(rep, pid, beh, fl, divs, cfg)
    return r, n


def c04_real_tests(rep, kept, tier):
    """exit status of testtools.run and suites of real TestCases against what the model says (see results_run.py)"""
    from . import results_rt as rt
    from . import results_run as rr

    # 1. testtools.run: TextTestResult created by TestToolsTestRunner, failfast from the command line
    index = {}
    for cfg, beh in kept:
        if beh["stack"]["name"] == "Text" and not any(h["c"]["op"] == "setff" for h in beh["hist"]):
            index[(bool(beh["preff"]), tuple(rr.outcome_kinds(beh)))] = beh
    nprog = nsub = 0
    sub_budget = 4 if tier == "quick" else 24
    for (ff, kinds), beh in sorted(index.items(), key=lambda kv: (kv[0][0], len(kv[0][1]), kv[0][1])):
        n = rr.executed_prefix(beh) if ff else len(kinds)
        model = index.get((ff, kinds[:n]))
        if model is None:
            continue
        fo = rr.final_obs(model)
        exp = dict(rt.expected_text_summary(fo["run"], fo["cnt"], fo["ok"]), exit=fo["ok"] == "F", started=list(range(1, n + 1)))
        code, summ, started = rr.run_program(list(kinds), ff)
        got = dict(summ, exit=bool(code) if code != "no-exit" else "no-exit", started=started)
        nprog += 1
        rep.case(nontrivial_key="prog" + jdump([ff, kinds]) if len(kinds) >= 2 else None,
                 sample={"testtools.run": list(kinds), "failfast": ff, "expected": exp} if nprog == 40 else None)
        rep.traces += 1
        if got != exp:
            diff = sorted(k for k in exp if exp[k] != got.get(k))
            rep.violation("c04_exit", "c04_exit:in-process:ff=%s:%s" % (ff, "+".join(diff)), {"kinds": list(kinds), "failfast": ff, "mode": "in-process"},
                          expected=exp, observed=got)
        # a few as a real child process: the process exit status
        if nsub < sub_budget and len(kinds) == 3 and (hash_of(kinds, ff) + rep.seed) % 7 == 0:
            nsub += 1
            rc, summ2, tail = rr.run_subprocess(list(kinds), ff)
            exp2 = dict(rt.expected_text_summary(fo["run"], fo["cnt"], fo["ok"]), exit=1 if fo["ok"] == "F" else 0)
            got2 = dict(summ2, exit=rc)
            rep.traces += 1
            if got2 != exp2:
                diff = sorted(k for k in exp2 if exp2[k] != got2.get(k))
                rep.violation("c04_exit", "c04_exit:subprocess:ff=%s:%s" % (ff, "+".join(diff)), {"kinds": list(kinds), "failfast": ff, "mode": "subprocess", "output": tail},
                              expected=exp2, observed=got2)
    # 2. a unittest.TestSuite of real tests stops dispatching after the first bad outcome when failfast is on
    seen = set()
    nsuite = 0
    for cfg, beh in kept:
        st = Stack(beh["stack"])
        ops = [h["c"] for h in beh["hist"]]
        first_test = next((j for j, c in enumerate(ops) if c["op"] == "startTest"), len(ops))
        if any(c["op"] == "setff" for c in ops[first_test:]):
            continue
        ffs = tuple(c["b"] for c in ops if c["op"] == "setff")
        if not beh["preff"] and not ffs:
            continue
        if beh["preff"] and "Multi" in st.kinds:
            continue  # failfast preset under MultiTestResult: known finding of the per-call comparison
        kinds = tuple(rr.outcome_kinds(beh))
        key = (st.name, bool(beh["preff"]), ffs, kinds)
        if key in seen or not kinds:
            continue
        seen.add(key)
        n = rr.executed_prefix(beh)
        # shouldStop the model shows once the suite has stopped dispatching
        stops = [h["obs"][0]["stop"] for h in beh["hist"] if h["c"]["op"] == "stopTest"]
        exp = {"started": list(range(1, n + 1)), "stop": stops[n - 1] if n else "F"}
        try:
            started, stop = rr.run_suite(beh)
            got = {"started": started, "stop": rt.b2s(stop) if isinstance(stop, bool) else stop}
        except Exception as ex:  # noqa
            got = {"started": "raised", "stop": "%s: %s" % (type(ex).__name__, ex)}
        if exp["stop"] == "na":
            got["stop"] = "na"
        nsuite += 1
        rep.case(nontrivial_key="suite" + jdump(key) if len(kinds) >= 2 else None,
                 sample={"suite over": st.name, "failfast": "preset" if beh["preff"] else list(ffs), "outcomes": list(kinds), "dispatched": n} if nsuite == 25 else None)
        rep.traces += 1
        if got != exp:
            how = "preff" if beh["preff"] else "setff"
            if got["started"] == "raised" and "has no attribute 'shouldStop'" in got["stop"] and "Multi" in st.kinds and "Tw" in st.kinds:
                # the suite reads result.shouldStop: same defect as the per-call comparison finds on this stack
                rep.violation("c04_stop_reaches", "c04_stop_reaches:at=MultiTestResult:raises:AttributeError",
                              {"behaviour": beh, "tests": "tc", "cfg": cfg, "abstract": abstract(beh)}, expected=exp, observed=got)
                continue
            rel = "raised" if got["started"] == "raised" else "more" if len(got["started"]) > n else "fewer" if len(got["started"]) < n else "stopflag"
            rep.violation("c04_suite", "c04_suite:top=%s:%s:%s" % (st.kinds[0], how, rel), {"behaviour": beh, "tests": "tc", "cfg": cfg, "abstract": abstract(beh)},
                          expected=exp, observed=got)
    # 3. one test, two problems (body fails, tearDown raises): the summary total is the number of problems = sections
    summ, nproblems = rr.run_two_problems_one_test()
    exp = {"ran": 1, "word": "test", "verdict": "FAILED", "failures": 2, "sections_total": 2, "problems": 2}
    got = {"ran": summ["ran"], "word": summ["word"], "verdict": summ["verdict"], "failures": summ["failures"],
           "sections_total": sum(summ["sections"]), "problems": nproblems}
    rep.case(nontrivial_key="two-problems-one-test")
    rep.traces += 1
    if got != exp:
        diff = sorted(k for k in exp if exp[k] != got.get(k))
        rep.violation("c04_text", "c04_text:two-problems-one-test:%s" % "+".join(diff), {"kinds": ["failure+error in one stdlib test"], "failfast": False, "mode": "two-problems"},
                      expected=exp, observed=got)
    # 4. shouldStop read from a second thread while a sibling forwarder is mid-forward (two-thread probe, not TLC-explored)
    for scenario in ("failfast", "stop-elsewhere"):
        seen, early = rr.poll_while_forwarding(scenario)
        rep.case(nontrivial_key="poll-" + scenario)
        rep.traces += 1
        if seen != [True]:
            rep.violation("c04_stop_reaches", "c04_stop_reaches:concurrent-poll:%s:%s" % (scenario, "answered-without-waiting" if early else "wrong-answer"),
                          {"scenario": scenario, "mode": "concurrent-poll"}, expected=[True], observed={"seen": seen, "answered_before_forward_finished": early})
    rep.extra["testtools_run_programs"] = nprog
    rep.extra["testtools_run_subprocesses"] = nsub
    rep.extra["suites_of_real_tests"] = nsuite
    if nprog == 0 or nsuite == 0:
        raise tlc.MachineryError("C04: no testtools.run programs / suites were derived from the exported behaviours")


def hash_of(kinds, ff):
    import zlib

    return zlib.crc32(jdump([list(kinds), ff]).encode())


def run(tier, pid):
    use_repo()
    rep = Report(
        pid,
        tier,
        "model_checking",
        "behaviours = (adapter stack template, failfast preset?, history of TestResult API calls on the top object) exported by "
        "TLC from Results.tla: exhaustive within the bounds of spec/results/rs_*.cfg, random deeper ones via -simulate; each is "
        "replayed into the real classes over testresult.doubles with per-call comparison of every node. Non-trivial = >= 2 "
        "outcomes, >= 2 adapters or >= 2 tag operations; distinct by (stack, history, kind of test object).",
    )
    rep.assume("histories start with startTestRun; outcomes are reported between startTest and stopTest (C17 adds the startTest-less addSkip + stopTest pair)")
    rep.assume("innermost targets are testresult.doubles (plus recording subclasses that only log calls and snapshot current_tags)")
    rep.assume("tags()/time() calls reaching a target are mechanism: compared as DRIFT only; verdicts use current_tags, tags at the outcome, and the (event, test, kind, payload class) log")
    if pid == "C04":
        rep.assume("failfast is assigned after wrapping only on objects that define it, and only when it was not preset on the wrapped results")
        rep.assume("wasSuccessful()/testsRun of ExtendedToStreamDecorator (StreamSummary) belong to C10")
    if pid == "C08":
        rep.assume("progress() is issued only where every decorator on the way has a target with progress(); no startTest-less outcomes")
    if pid == "C17":
        rep.assume("nodes below a buffering adapter (ThreadsafeForwardingResult, ExtendedToStreamDecorator) are judged by the tags they observe at outcomes only")
    plan = PLANS[pid][tier]
    covered = set()
    kept = []

    def keep(cfg, beh):
        from . import results_run as rr

        if pid == "C04" and cfg.startswith("rs_exp") and rr.single_plain_run(beh):
            kept.append((cfg, beh))

    for cfg, flav, kw in plan:
        kw = dict(kw)
        if "simulate" in kw:
            kw["seed"] = rep.seed + 1
        if isinstance(flav, str):
            # non-vacuity: with the known deviation of the code switched on in the mechanism, TLC must find the property violated
            r = tlc.run_tlc("results", "MCResults", cfg, workers=4, timeout=600)
            if r.violated != flav:
                raise tlc.MachineryError("%s %s: the coded variant should violate %s, TLC says %r %r" % (pid, cfg, flav, r.violated, r.error))
            rep.add_tlc(r, cfg + " (deviation switched on: %s violated, as it must be)" % flav)
            rep.extra.setdefault("coded_counterexamples", []).append(flav)
            continue
        r, n = run_cfg(rep, pid, cfg, flav, keep=keep, **kw)
        covered |= {a for a, v in r.coverage.items() if v[1] > 0}
        if flav is not NOREPLAY and n == 0:
            raise tlc.MachineryError("%s %s exported no behaviours" % (pid, cfg))
    if pid == "C04":
        c04_real_tests(rep, kept, tier)
    missing = [a for a in NEEDED[pid] if a not in covered]
    if missing:
        raise tlc.MachineryError("%s: actions never taken in any model run: %s" % (pid, missing))
    if not rep.samples:
        rep.sample({"note": "see tlc_runs"})
    rep.exhaustive = False
    rep.extra["explanation"] = "exhaustive for the mc/exp configs (bounds in spec/results/rs_*.cfg); random for sim configs"
    return rep.finish()


def all3(n):
    return ("eh",) if n % 4 == 0 else ("tc",) if n % 2 else ("ph",)


def tc_only(n):
    return ("tc",)


def every3(n):
    return ("tc", "ph", "eh")


def tc_ph(n):
    return ("tc",) if n % 2 else ("ph",)


def NOREPLAY(n):
    return ()


SIMQ = dict(simulate=dict(num=120, depth=40), workers=4)
SIMT = dict(simulate=dict(num=1500, depth=40), workers=8)
# (config, kinds of test objects per behaviour | NOREPLAY | name of the invariant/property TLC must report violated, TLC options)
PLANS = {
    "C08": {
        "quick": [("rs_mcAq.cfg", NOREPLAY, {}), ("rs_expA.cfg", all3, {}), ("rs_expA0.cfg", tc_ph, {}), ("rs_expA1.cfg", tc_ph, {}), ("rs_expB.cfg", tc_ph, {}), ("rs_expD.cfg", tc_ph, {}), ("rs_sim.cfg", tc_ph, SIMQ)],
        "thorough": [("rs_mcA3.cfg", NOREPLAY, {}), ("rs_mcA3all.cfg", NOREPLAY, {}), ("rs_expA.cfg", every3, {}), ("rs_expA0.cfg", every3, {}), ("rs_expA1.cfg", tc_ph, {}), ("rs_expB3.cfg", tc_ph, {}),
                     ("rs_expB2.cfg", tc_ph, {}), ("rs_expD.cfg", tc_ph, {}), ("rs_expD3.cfg", tc_ph, {}), ("rs_sim.cfg", tc_ph, SIMT)],
    },
    "C04": {
        "quick": [("rs_codedFF.cfg", "FailFastStops", {}), ("rs_expC1.cfg", tc_only, {}), ("rs_expC2.cfg", tc_only, {}),
                  ("rs_expC3.cfg", tc_only, {}), ("rs_expP.cfg", tc_only, {}), ("rs_expP1.cfg", tc_only, {}), ("rs_expS.cfg", tc_only, {}), ("rs_simFF.cfg", tc_only, SIMQ)],
        "thorough": [("rs_codedFF.cfg", "FailFastStops", {}), ("rs_mcC.cfg", NOREPLAY, {}), ("rs_expC1.cfg", tc_only, {}),
                     ("rs_expC2.cfg", tc_only, {}), ("rs_expC3.cfg", tc_only, {}), ("rs_expC4.cfg", tc_only, {}), ("rs_expP.cfg", tc_only, {}), ("rs_expP1.cfg", tc_only, {}), ("rs_expS.cfg", tc_only, {}), ("rs_expS2.cfg", tc_only, {}),
                     ("rs_simFF.cfg", tc_only, SIMT), ("rs_sim13.cfg", tc_only, SIMT)],
    },
    "C17": {
        "quick": [("rs_codedTags.cfg", "TagsScoped", {}), ("rs_codedTFR.cfg", "TagsObserved", {}), ("rs_codedTFR2.cfg", "TagsObserved", {}),
                  ("rs_codedLive.cfg", "DeliveredStable", {}), ("rs_expT1.cfg", tc_ph, {}),
                  ("rs_expT2.cfg", tc_ph, {}), ("rs_expT3.cfg", tc_ph, {}), ("rs_simSkip.cfg", tc_ph, SIMQ)],
        "thorough": [("rs_codedTags.cfg", "TagsScoped", {}), ("rs_codedTFR.cfg", "TagsObserved", {}), ("rs_codedTFR2.cfg", "TagsObserved", {}),
                     ("rs_codedLive.cfg", "DeliveredStable", {}), ("rs_mcT.cfg", NOREPLAY, {}),
                     ("rs_expT1.cfg", tc_ph, {}), ("rs_expT2.cfg", tc_ph, {}), ("rs_expT3.cfg", tc_ph, {}), ("rs_expT4.cfg", tc_ph, {}),
                     ("rs_expT5.cfg", tc_ph, {}), ("rs_simSkip.cfg", tc_ph, SIMT), ("rs_sim.cfg", tc_ph, SIMT)],
    },
}
NEEDED = {
    "C08": ["StartTestRun", "StopTestRun", "StartTest", "Outcome", "StopTest", "Time", "Done", "Progress", "Tags"],
    "C04": ["StartTestRun", "StopTestRun", "StartTest", "Outcome", "StopTest", "Stop", "SetFailfast", "SubTest"],
    "C17": ["StartTestRun", "StopTestRun", "StartTest", "Outcome", "StopTest", "Tags", "SkipAdd", "SkipStop"],
}


def replay_file(path, pid):
    use_repo()
    v = json.load(open(path))
    sc = v["scenario"]
    if "behaviour" not in sc:
        # testtools.run scenario (c04_exit): run it again and show what comes out
        from . import results_run as rr

        if sc["mode"] == "concurrent-poll":
            seen, early = rr.poll_while_forwarding(sc["scenario"])
            print("replay: expected=[True] observed=%r early=%r" % (seen, early))
            if seen != [True]:
                print("VIOLATION property=%s replay=%s" % (pid, path))
                return 1
            return 0
        if sc["mode"] == "two-problems":
            summ, n = rr.run_two_problems_one_test()
            print("replay: summary=%r problems=%r" % (summ, n))
            if summ["failures"] != n or sum(summ["sections"]) != n:
                print("VIOLATION property=%s replay=%s" % (pid, path))
                return 1
            return 0
        if sc["mode"] == "subprocess":
            rc, summ, _ = rr.run_subprocess(sc["kinds"], sc["failfast"])
            got = dict(summ, exit=rc)
        else:
            code, summ, started = rr.run_program(sc["kinds"], sc["failfast"])
            got = dict(summ, exit=bool(code) if code != "no-exit" else code, started=started)
        print("replay: expected=%r observed=%r" % (v["expected"], got))
        if got != v["expected"]:
            print("VIOLATION property=%s replay=%s" % (pid, path))
            return 1
        return 0
    if v["clause"] == "c04_suite":
        from . import results_run as rr
        from . import results_rt as rt

        started, stop = rr.run_suite(sc["behaviour"])
        got = {"started": started, "stop": rt.b2s(stop) if isinstance(stop, bool) else stop}
        print("replay: expected=%r observed=%r" % (v["expected"], got))
        if got != v["expected"]:
            print("VIOLATION property=%s replay=%s" % (pid, path))
            return 1
        return 0
    divs, _ = replay(sc["behaviour"], sc["tests"])
    bad = [d for d in divs if d["clause"] in CLAUSES[pid] or d["clause"] == "raised"]
    if bad:
        print("VIOLATION property=%s replay=%s" % (pid, path))
        for d in bad[:3]:
            print("  step=%s clause=%s node=%s expected=%r observed=%r" % (d["step"], d["clause"], d["node"], d["expected"], d["observed"]))
        return 1
    print("replay: behaviour conforms")
    return 0
