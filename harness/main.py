"""./check <property|selftest|mutants> [--tier quick|thorough] [--replay path]"""

import argparse
import importlib
import os
import sys
import traceback

from . import tlc

MODULES = {
    "C10": "c10",
}


def main(argv=None):
    ap = argparse.ArgumentParser()
    ap.add_argument("prop")
    ap.add_argument("--tier", default=os.environ.get("VERIF_TIER", "quick"))
    ap.add_argument("--replay")
    a = ap.parse_args(argv)
    tier = a.tier if a.tier in ("quick", "thorough") else "quick"
    pid = a.prop.upper()
    if pid not in MODULES:
        print("MACHINERY: unknown property %s" % pid)
        return 2
    try:
        mod = importlib.import_module("harness." + MODULES[pid])
        if a.replay:
            return mod.replay_file(a.replay, pid) if hasattr(mod, "replay_file") else 2
        return mod.run(tier) if MODULES[pid].startswith("c") and not hasattr(mod, "PROPS") else mod.run(tier, pid)
    except tlc.MachineryError as ex:
        print("MACHINERY: %s" % ex)
        return 2
    except Exception:
        traceback.print_exc()
        print("MACHINERY: unexpected exception in the harness")
        return 2


if __name__ == "__main__":
    sys.exit(main())
