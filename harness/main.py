"""./check <Cxx> [--tier quick|thorough] [--replay path]

Driver modules live in harness/ and declare PROPS = ("C10",) (the properties they decide) and
run(tier, pid) -> exit code (0 held, 1 violation).  Exit 2 = machinery failure, never a VIOLATION."""

import argparse
import glob
import importlib
import os
import re
import sys
import traceback

from . import tlc

HERE = os.path.dirname(os.path.abspath(__file__))


def discover():
    table = {}
    for f in sorted(glob.glob(os.path.join(HERE, "*.py"))):
        src = open(f).read()
        m = re.search(r"^PROPS\s*=\s*\(([^)]*)\)", src, re.M)
        if m:
            for pid in re.findall(r'"([CX]\d+)"', m.group(1)):
                table[pid] = os.path.basename(f)[:-3]
    return table


def main(argv=None):
    ap = argparse.ArgumentParser()
    ap.add_argument("prop")
    ap.add_argument("--tier", default=os.environ.get("VERIF_TIER", "quick"))
    ap.add_argument("--replay")
    a = ap.parse_args(argv)
    tier = a.tier if a.tier in ("quick", "thorough") else "quick"
    pid = a.prop.upper()
    table = discover()
    if pid not in table:
        print("MACHINERY: no driver declares property %s" % pid)
        return 2
    try:
        mod = importlib.import_module("harness." + table[pid])
        if a.replay:
            if not hasattr(mod, "replay_file"):
                print("MACHINERY: driver %s has no replay_file()" % table[pid])
                return 2
            return mod.replay_file(a.replay, pid)
        return mod.run(tier, pid)
    except tlc.MachineryError as ex:
        print("MACHINERY: %s" % ex)
        return 2
    except Exception:
        traceback.print_exc()
        print("MACHINERY: unexpected exception in the harness")
        return 2


if __name__ == "__main__":
    sys.exit(main())
