"""C09 - TestResult -> StreamResult -> TestResult conversion preserves every test.

Spec: spec/conv/StreamConv.tla.  TLC checks the two converters' mechanisms (ExtendedToStreamDecorator's tag stack,
sticky clock and look-ahead chunk loop; the stream-to-record table and PlaceHolder.run) against the history-fold
meaning (WireWellFormed, RoundTrip, TableTracksOpenTest, CtxMeaning) and exports every behaviour of the bounded
instances; each behaviour is replayed into the real
    ExtendedToStreamDecorator(CopyStreamResult([doubles.StreamResult(), StreamToExtendedDecorator(doubles.ExtendedTestResult())]))
comparing after EVERY call the wire log and the reproduced extended-result log with what the spec exported.
Random longer behaviours over the full payload space come from `tlc -simulate` on the same spec.
"""

import datetime
import sys

from . import tlc
from .common import Report, use_repo, jdump, sig_hash

UTC = datetime.timezone.utc
PROPS = ("C09",)

# ---- concretisation of the abstract alphabets ---------------------------------------------------------------
IDS = {"t1": "pkg.mod.Tést.test_ä", "t2": "t2"}
NAMES = {"d1": "dét-1", "d2": "log/файл", "traceback": "traceback", "reason": "reason"}
TAGS = {"a": "tag-a", "b": "täg:b"}
REASONS = {"r1": "raison é ☃", "r2": "r2", "": ""}
TIMES = {
    "1": datetime.datetime(2000, 1, 1, 0, 0, 1, tzinfo=UTC),
    "2": datetime.datetime(2001, 2, 3, 4, 5, 6, 789, tzinfo=datetime.timezone(datetime.timedelta(hours=5, minutes=30))),
    "0": datetime.datetime(1999, 12, 31, 23, 59, 59, tzinfo=UTC),  # earlier than "1": supplied times are not ordered
}
# abstract chunk -> bytes, per content-type class: valid UTF-8 (multi-byte) for the utf8 text type, Latin-1 bytes for
# the charset-less text type, undecodable bytes incl. NUL for the binary types
# e1|e2 and s1|s2 cut a 2-byte (U+00E9) and a 4-byte (U+1F600) character in the middle: the detail as a whole is valid
# UTF-8 but no single chunk of the pair is (as_text must not depend on where the chunks are cut)
_SPLIT = {"e1": b"caf\xc3", "e2": b"\xa9 \xe2\x98\x83", "s1": b"\xf0\x9f", "s2": b"\x98\x80 end\n"}
CHUNKS = {
    "text": dict({"": b"", "x": "xé".encode(), "yz": "y\U0001f600z\n".encode()}, **_SPLIT),
    "par": dict({"": b"", "x": b"x\xe9", "yz": b"yz\r\n"}, **_SPLIT),
    "bin": dict({"": b"", "x": b"\xff\x00", "yz": b"\xfe\x80yz\xc3"}, **_SPLIT),
    "binp": dict({"": b"", "x": b"\x00\xff", "yz": b"\xc3yz\x80\xfe"}, **_SPLIT),
}
# abstract content type -> chunk table; the case-variant pairs are a utf8 text type and a binary type
CT_CLASS = {"text": "text", "par": "par", "bin": "bin", "binp": "binp", "tiA": "text", "tiB": "text", "bdA": "bin", "bdB": "binp"}
# class of a content type in violation signatures: the members of a case-variant pair are one class
CT_SIG = {"tiA": "param-value-case", "tiB": "param-value-case", "bdA": "param-value-case", "bdB": "param-value-case"}
OUTCOME_CALL = {
    "success": "addSuccess",
    "failure": "addFailure",
    "error": "addError",
    "skip": "addSkip",
    "xfail": "addExpectedFailure",
    "uxsuccess": "addUnexpectedSuccess",
}

_state = {}


def _lib():
    """Real objects needed for concretisation (imported after use_repo())."""
    if not _state:
        from testtools.content_type import ContentType
        from testtools.content import Content, TracebackContent
        from testtools.testcase import PlaceHolder

        try:
            raise ValueError("bé ☃")
        except ValueError:
            exc = sys.exc_info()
        tb = list(TracebackContent(exc, PlaceHolder("x")).iter_bytes())
        if len(tb) != 3 or not all(tb):
            raise tlc.MachineryError("TracebackContent of the driver's exc_info has %d chunks, the spec says 3" % len(tb))
        _state.update(
            ContentType=ContentType,
            Content=Content,
            PlaceHolder=PlaceHolder,
            exc=exc,
            tb={"T1": tb[0], "T2": tb[1], "T3": tb[2]},
            cts={
                "text": ContentType("text", "plain", {"charset": "utf8"}),
                "bin": ContentType("application", "octet-stream"),
                # parameter value with space, quote, backslash, semicolon, '=', comma and non-ASCII: must survive the wire
                "par": ContentType("text", "x-t", {"a": 'b "c" \\d; e=f, g \u00e9', "k": "v"}),
                "binp": ContentType("application", "x-bin", {"n": "1"}),
                # pairs differing only in the letter case of a parameter value
                "tiA": ContentType("text", "plain", {"charset": "utf8", "title": "build log"}),
                "tiB": ContentType("text", "plain", {"charset": "utf8", "title": "Build Log"}),
                "bdA": ContentType("application", "x-report", {"boundary": "abcdef"}),
                "bdB": ContentType("application", "x-report", {"boundary": "aBcDeF"}),
                "tb": ContentType("text", "x-traceback", {"language": "python", "charset": "utf8"}),
            },
        )
    return _state


def chunk_bytes(ct, name, c):
    if ct == "tb":
        return _lib()["tb"][c]
    if name == "reason" and c in REASONS:
        return REASONS[c].encode("utf8")
    return CHUNKS[CT_CLASS[ct]][c]


def ts_of(v):
    return None if v == "clock" else TIMES[v]


# ---- the real pipeline ----------------------------------------------------------------------------------
class Pipeline:
    def __init__(self):
        from testtools.testresult import real, doubles

        self.wire = doubles.StreamResult()
        self.out = doubles.ExtendedTestResult()
        self.e2s = real.ExtendedToStreamDecorator(
            real.CopyStreamResult([self.wire, real.StreamToExtendedDecorator(self.out)])
        )
        self.test = None
        self.nwire = 0  # status events already compared
        self.wire_clock = None  # last unsupplied timestamp seen on the wire
        self.t_created = self.t_before = self.t_after = datetime.datetime.now(UTC)  # the driver's clock reads

    @staticmethod
    def _details(ds):
        L = _lib()
        details = {}
        for d in ds:
            chunks = [chunk_bytes(d["ct"], d["name"], c) for c in d["chunks"]]
            # a fresh one-shot iterator per iter_bytes() call: the converter may not rely on len() or indexing
            details[NAMES[d["name"]]] = L["Content"](L["cts"][d["ct"]], lambda chunks=chunks: iter(chunks))
        return details

    def wire_events(self):
        return [e for e in self.wire._events if e[0] == "status"]

    def apply(self, h):
        L = _lib()
        a, arg = h["a"], h["arg"]
        r = self.e2s
        if a == "startTestRun":
            r.startTestRun()
        elif a == "stopTestRun":
            r.stopTestRun()
        elif a == "time":
            r.time(TIMES[arg])
        elif a == "tags":
            r.tags({TAGS[t] for t in arg["new"]}, {TAGS[t] for t in arg["gone"]})
        elif a == "startTest":
            self.test = L["PlaceHolder"](IDS[arg])
            r.startTest(self.test)
        elif a == "stopTest":
            r.stopTest(self.test)
        elif a == "outcome":
            meth = getattr(r, OUTCOME_CALL[arg["kind"]])
            form = arg["form"]
            if form == "plain":
                meth(self.test)
            elif form == "exc":
                meth(self.test, L["exc"])
            elif form == "reason":
                meth(self.test, REASONS[arg["reason"]])
            elif form == "both":  # a reason AND a details dict without a 'reason' entry (possibly {})
                meth(self.test, REASONS[arg["reason"]], details=self._details(arg["details"]))
            else:
                meth(self.test, details=self._details(arg["details"]))
        else:
            raise tlc.MachineryError("unknown action %r" % (a,))


# ---- projections of the two observation points ------------------------------------------------------------------
def proj_details(payload):
    """{name: (ContentType, bytes)} of the non-empty details an outcome event of the extended double carries."""
    L = _lib()
    if isinstance(payload, str):  # addSkip(test, reason): the reason is the text detail 'reason'
        payload = {"reason": L["Content"](L["cts"]["text"], lambda: [payload.encode("utf8")])} if payload else {}
    if not isinstance(payload, dict):
        return None
    files = {}
    for n, c in payload.items():
        data = b"".join(c.iter_bytes())
        if data:
            files[n] = (c.content_type, data)
    return files


def brackets(events):
    """Per-test blocks of an ExtendedTestResult double's log: the Python twin of TestsOf(out) in the spec."""
    done, cur, problems = [], None, []
    stack = [set()]
    clock = None
    for ev in events:
        n = ev[0]
        if n == "startTestRun":
            stack, clock = [set()], None
        elif n == "time":
            clock = ev[1]
        elif n == "tags":
            stack[-1] = (stack[-1] | set(ev[1])) - set(ev[2])
        elif n == "startTest":
            if cur is not None:
                problems.append("startTest inside a test")
            cur = {"id": ev[1].id(), "t0": clock, "outcomes": []}
            stack.append(set(stack[-1]))
        elif n.startswith("add"):
            if cur is None:
                problems.append("%s outside a test" % n)
                continue
            if ev[1].id() != cur["id"]:
                problems.append("%s for another test" % n)
            payload = ev[2] if len(ev) > 2 else {}
            cur["outcomes"].append({"call": n, "tags": sorted(stack[-1]), "t1": clock, "files": proj_details(payload)})
        elif n == "stopTest":
            if cur is None:
                problems.append("stopTest outside a test")
                continue
            if ev[1].id() != cur["id"]:
                problems.append("stopTest for another test")
            done.append(cur)
            cur = None
            if len(stack) > 1:
                stack.pop()
    return done, cur, problems


def expected_files(t):
    """Non-empty details the spec says the test carried: {name: (ContentType, bytes, abstract ct)}."""
    L = _lib()
    files = {}
    for d in t["files"]:
        data = b"".join(chunk_bytes(d["ct"], d["name"], c) for c in d["chunks"])
        if data:
            files[NAMES[d["name"]]] = (L["cts"][d["ct"]], data, d["ct"])
    return files


def aware(t):
    return isinstance(t, datetime.datetime) and t.tzinfo is not None and t.utcoffset() is not None


class Bad(Exception):
    def __init__(self, clause, extra, expected, observed):
        self.clause, self.extra, self.expected, self.observed = clause, extra, expected, observed


def chunk_class(chunks):
    n = len(chunks)
    return "n=0" if n == 0 else "n=1" if n == 1 else "n>1"


# ---- the comparisons --------------------------------------------------------------------------------------------
SLACK = datetime.timedelta(seconds=5)


def check_time(clause, extra, exp, got, floor, window):
    """Supplied time: equal.  Unsupplied: tz-aware, not earlier than `floor` (the previous unsupplied reading) and a
    reading of the clock: inside `window`, the driver's own clock reads around the call(s) that took it (+-5 s), so a
    stale value left over from an earlier time() - e.g. one of a previous run on the same chain - is not accepted."""
    if exp is not None:
        if got != exp:
            raise Bad(clause, extra + ":supplied", exp, got)
        return floor
    if not aware(got):
        raise Bad(clause, extra + ":unsupplied-naive", "tz-aware datetime", got)
    if floor is not None and got < floor:
        raise Bad(clause, extra + ":unsupplied-decreasing", ">= %r" % (floor,), got)
    lo, hi = window
    if not (lo - SLACK <= got <= hi + SLACK):
        raise Bad(clause, extra + ":unsupplied-not-the-clock", "between %r and %r" % (lo, hi), got)
    return got


def check_wire(p, h, exp_wire):
    """New status events on the wire after call `h` against the slice the spec exported."""
    evs = p.wire_events()
    new = evs[p.nwire :]
    exp = exp_wire[p.nwire : h["nw"]]
    p.nwire = len(evs)
    a = h["a"]
    if a not in ("startTest", "outcome"):
        stray = [tuple(e) for e in new if e.test_id is not None]
        if stray:  # events about a test outside its inprogress / files / final shape
            raise Bad("wire-spurious", a, [], stray)
        return
    if a == "startTest":
        x = exp[0]
        if len(new) != 1:
            raise Bad("wire-inprogress", "count", 1, [tuple(e) for e in new])
        e = new[0]
        if (e.test_id, e.test_status, e.file_name) != (IDS[x["id"]], "inprogress", None):
            raise Bad("wire-inprogress", "event", (IDS[x["id"]], "inprogress", None), tuple(e))
        # unsupplied readings are only required to be non-decreasing within a test
        p.wire_clock = check_time("wire-time", "inprogress", ts_of(x["ts"]), e.timestamp, None, (p.t_before, p.t_after))
        return
    # outcome: file runs, then exactly one final status
    call = h["arg"]
    form = call["form"]
    xf = exp[-1]
    tid = IDS[xf["id"]]
    finals = [e for e in new if e.test_status is not None]
    if len(finals) != 1 or not new or new[-1].test_status is None:
        raise Bad("wire-final", form + ":count-or-position", "exactly one final status, last", [tuple(e) for e in new])
    f = new[-1]
    if (f.test_id, f.test_status, f.file_name) != (tid, xf["status"], None):
        raise Bad("wire-final", form + ":" + call["kind"], (tid, xf["status"], None), tuple(f))
    want_tags = {TAGS[t] for t in xf["tags"]}
    if f.test_tags is None or set(f.test_tags) != want_tags:
        raise Bad("wire-tags", "final", sorted(want_tags), f.test_tags)
    p.wire_clock = check_time("wire-time", "final", ts_of(xf["ts"]), f.timestamp, p.wire_clock, (p.t_before, p.t_after))
    # group both sides into runs of one file name
    def runs(seq, name, data, eof):
        out = []
        for e in seq:
            if out and out[-1][0] == name(e):
                out[-1][1].append((data(e), eof(e)))
            else:
                out.append((name(e), [(data(e), eof(e))]))
        return out

    body = new[:-1]
    for e in body:
        if e.file_name is None or e.test_id != tid:
            raise Bad("wire-files", form + ":not-a-file-event-of-the-test", "file events of " + tid, tuple(e))
    got = runs(body, lambda e: e.file_name, lambda e: e.file_bytes, lambda e: bool(e.eof))
    want = runs(
        exp[:-1],
        lambda x: NAMES[x["fname"]],
        lambda x: chunk_bytes(x["mime"], x["fname"], x["fbytes"]),
        lambda x: x["eof"],
    )
    # class of each detail for the signature: number of chunks its iterator yields
    cls_of = {NAMES[d["name"]]: chunk_class(d["chunks"]) for d in call["details"]}
    cls_of.setdefault("traceback", "traceback")
    if form in ("reason", "both"):
        cls_of["reason"] = "reason"
    gd, wd = dict(got), dict(want)
    if len(gd) != len(got):
        raise Bad("wire-files", form + ":interleaved", [n for n, _ in want], [n for n, _ in got])
    if set(gd) != set(wd):
        missing = sorted(set(wd) - set(gd))
        cls = cls_of.get(missing[0], "?") if missing else "extra"
        raise Bad("wire-files", "%s:names:%s" % (form, cls), sorted(wd), sorted(gd))
    for n, wr in want:
        gr = gd[n]
        if [c for c, _ in gr] != [c for c, _ in wr]:
            raise Bad("wire-chunks", "%s:%s" % (form, cls_of.get(n, "?")), wr, gr)
        if [e for _, e in gr] != [e for _, e in wr]:
            raise Bad("wire-eof", "%s:%s" % (form, cls_of.get(n, "?")), wr, gr)


def check_out(p, h, tests):
    """The reproduced extended-result log after call `h`: one complete bracket per outcome given so far."""
    done, cur, problems = brackets(p.out._events)
    nt = h["nt"]
    if problems or cur is not None or len(done) != nt:
        raise Bad(
            "rt-bracket",
            h["a"],
            "%d complete startTest/outcome/stopTest brackets" % nt,
            {"complete": len(done), "open": cur is not None, "problems": problems},
        )
    if h["a"] != "outcome":
        return
    b, t = done[-1], tests[nt - 1]
    kind = t["kind"]
    if b["id"] != IDS[t["id"]]:
        raise Bad("rt-id", "", IDS[t["id"]], b["id"])
    calls = [o["call"] for o in b["outcomes"]]
    if calls != [OUTCOME_CALL[kind]]:
        raise Bad("rt-outcome", h["arg"]["kind"], [OUTCOME_CALL[kind]], calls)
    o = b["outcomes"][0]
    want_tags = sorted(TAGS[x] for x in t["tags"])
    if o["tags"] != want_tags:
        raise Bad("rt-tags", "", want_tags, o["tags"])
    floor = check_time("rt-time", "start", ts_of(t["t0"]), b["t0"], None, (p.t_created, p.t_after))
    check_time("rt-time", "outcome", ts_of(t["t1"]), o["t1"], floor, (p.t_created, p.t_after))
    want = expected_files(t)
    got = o["files"]
    if got is None:
        raise Bad("rt-detail-form", h["arg"]["form"], "details dict", "outcome not reported with details")
    for n, (ct, data, act) in want.items():
        cls = "reason" if n == "reason" else h["arg"]["form"]
        if n not in got:
            raise Bad("rt-reason-lost" if n == "reason" else "rt-detail-missing", cls, n, sorted(got))
        if got[n][1] != data:
            raise Bad("rt-detail-bytes", cls, data, got[n][1])
        # the real ContentType.__eq__, both ways round
        if not (got[n][0] == ct and ct == got[n][0]):
            raise Bad("rt-detail-ctype", CT_SIG.get(act, act), repr(ct), repr(got[n][0]))
    extra = sorted(set(got) - set(want))
    if extra:
        raise Bad("rt-detail-extra", h["arg"]["form"], sorted(want), sorted(got))


def replay(beh, upto=None):
    """Replay one exported behaviour; None or (step, clause, extra, expected, observed)."""
    p = Pipeline()
    hist = beh["hist"] if upto is None else beh["hist"][:upto]
    for i, h in enumerate(hist):
        raised = None
        p.t_before = datetime.datetime.now(UTC)
        try:
            p.apply(h)
        except tlc.MachineryError:
            raise
        except Exception as ex:  # the converters never raise on well-formed histories ...
            raised = ex
        p.t_after = datetime.datetime.now(UTC)
        try:
            check_wire(p, h, beh["wire"])
            check_out(p, h, beh["tests"])
        except Bad as b:
            # ... and when one does, name what the property loses by it (e.g. the final status never reached the wire)
            extra = b.extra + (":raised-" + type(raised).__name__ if raised is not None else "")
            obs = b.observed if raised is None else {"observed": b.observed, "raised": repr(raised)}
            return (i, b.clause, extra, b.expected, obs)
        if raised is not None:
            return (i, "raised", type(raised).__name__ + ":" + h["a"], None, repr(raised))
    return None


def abstract(hist):
    out = []
    for h in hist:
        a, arg = h["a"], h["arg"]
        if a == "outcome":
            ds = ",".join("%s[%s:%s]" % (d["name"], d["ct"], "|".join(d["chunks"])) for d in arg["details"])
            out.append("%s/%s%s%s" % (arg["kind"], arg["form"], "(" + ds + ")" if ds else "", "=" + arg["reason"] if arg["form"] in ("reason", "both") else ""))
        elif a == "tags":
            out.append("tags(+%s,-%s)" % ("".join(arg["new"]), "".join(arg["gone"])))
        elif a in ("time", "startTest"):
            out.append("%s(%s)" % (a, arg))
        else:
            out.append(a)
    return out


def nontrivial_key(hist):
    """Non-trivial: some outcome carries a detail with 0 or >=2 chunks or an empty chunk, or >=2 details, or the run has
    >=2 tests, or a tags()/time() call precedes an outcome.  Distinct by the call sequence."""
    ntests = sum(1 for h in hist if h["a"] == "startTest")
    shaped = False
    for h in hist:
        if h["a"] == "outcome":
            ds = h["arg"]["details"]
            if len(ds) >= 2 or any(len(d["chunks"]) != 1 or "" in d["chunks"] for d in ds):
                shaped = True
    ctl = any(h["a"] in ("tags", "time") for h in hist) and ntests >= 1
    if shaped or ntests >= 2 or ctl:
        return sig_hash([(h["a"], h["arg"]) for h in hist])
    return None


def signature(clause, extra):
    """One defect, one signature: the failing clause and the class of call / detail / timestamp it failed on."""
    return "%s:%s" % (clause, extra)


ACTIONS = ["StartTestRun", "Time", "Tags", "StartTest", "Outcome", "StopTest", "Deliver", "StopTestRun"]


def run(tier, pid="C09"):
    use_repo()
    _lib()
    rep = Report(
        "C09",
        tier,
        "model_checking",
        "behaviours = well-formed TestResult histories startTestRun (time|tags)* (startTest (time|tags)* outcome stopTest)* "
        "stopTestRun over 0..3 tests, six outcome kinds in plain/exc_info/details/reason form, 0..2 details of 0..3 chunks "
        "over {'', x, yz} plus chunk pairs cut inside a 2-byte / 4-byte UTF-8 character, with eight content types (two pairs "
        "differing only in the case of a parameter value, both orders in one history), exported by TLC (exhaustive per bounded instance) or by tlc -simulate; "
        "each replayed into the real ExtendedToStreamDecorator -> (StreamResult double, StreamToExtendedDecorator -> "
        "ExtendedTestResult double) with per-call comparison of the wire and of the reproduced brackets. Non-trivial = a "
        "detail with 0 or >=2 chunks or an empty chunk, >=2 details, >=2 tests, or tags()/time() in force; distinct by "
        "call sequence.",
    )
    rep.assume("histories start with an explicit startTestRun; time() before the implicit startTestRun is outside the domain (DESIGN 5.2, suspect in 7)")
    rep.assume("tags() and time() are issued outside tests or between startTest and the outcome, never between the outcome and stopTest")
    rep.assume("a skip reason given as reason= is the text/plain;charset=utf8 detail 'reason'; an empty reason counts as an empty detail (not required to survive)")
    rep.assume("timestamps when no time() was supplied in the run: tz-aware, non-decreasing within a test, and a reading of the clock (inside the driver's own clock reads around the call, +-5 s) - not a value left over from a time() of an earlier run")
    rep.assume("addSkip given both reason= and details= (no 'reason' entry, {} included) carries the details plus the reason as the 'reason' detail; the sender accepts this form")
    rep.assume("sc_exp2r: the same decorator chain is used for two consecutive startTestRun..stopTestRun runs; time() and tags() of one run do not apply to the next")
    rep.assume("file-event timestamps and the wire's mime_type spelling are not compared (content types are compared on the reproduced details with ContentType.__eq__)")
    rep.assume("order of different details' runs on the wire is not compared (each run must be contiguous and in chunk order)")
    rep.assume("ContentType repr/parse is identity on the eight explored (lower-case type/subtype/parameter-name) content types in the model; upper-case type or parameter names and pathological values are C16's excluded domain")
    rep.assume("all histories of a run are replayed in one process, so module-level state in the converters (e.g. a parse cache) carries over between them; case-variant content types are also paired inside single histories in both orders")
    rep.assume("the exc_info form uses one ValueError whose TracebackContent yields 3 chunks (checked at start-up)")
    sim_mod = "MCStreamConvSim"
    if tier == "quick":
        jobs = [
            ("MCStreamConv", "sc_exp1.cfg", {}, True),
            ("MCStreamConv", "sc_exp2.cfg", {}, True),
            ("MCStreamConv", "sc_exp2c.cfg", {}, True),
            ("MCStreamConv", "sc_exp2r.cfg", {}, True),
            ("MCStreamConv", "sc_exp3.cfg", {}, True),
            (sim_mod, "sc_simR.cfg", dict(simulate=dict(num=150, depth=80), seed=rep.seed + 1), True),
        ]
    else:
        jobs = [
            ("MCStreamConv", "sc_exp1.cfg", {}, True),
            ("MCStreamConv", "sc_exp2T.cfg", {}, True),
            ("MCStreamConv", "sc_exp2c.cfg", {}, True),
            ("MCStreamConv", "sc_exp2r.cfg", {}, True),
            ("MCStreamConv", "sc_exp3T.cfg", {}, True),
            ("MCStreamConv", "sc_expT1.cfg", {}, True),
            ("MCStreamConv", "sc_mcT1.cfg", {}, False),
            ("MCStreamConv", "sc_mc2.cfg", {}, False),
            ("MCStreamConv", "sc_mc3.cfg", {}, False),
            (sim_mod, "sc_simR.cfg", dict(simulate=dict(num=1500, depth=80), seed=rep.seed + 1), True),
            (sim_mod, "sc_simR.cfg", dict(simulate=dict(num=1500, depth=80), seed=rep.seed + 2), True),
        ]
    for module, cfg, kw, exports in jobs:
        r = tlc.run_tlc("conv", module, cfg, coverage=True, timeout=1500, workers=8, **kw)
        what = "C09 %s/%s" % (module, cfg)
        tlc.require_ok(r, what)
        need = [a for a in ACTIONS if not (a == "Time" and "MaxTime = 0" in _cfg_text(cfg)) and not (a == "Tags" and "MaxTags = 0" in _cfg_text(cfg))]
        tlc.require_coverage(r, need, what)
        rep.add_tlc(r, cfg + (" (simulate seed %s)" % kw["seed"] if kw else ""))
        if not exports:
            continue
        n = 0
        for beh in tlc.exported(r):
            n += 1
            hist = beh["hist"]
            nk = nontrivial_key(hist)
            bad = replay(beh)
            rep.case(
                sample={"calls": abstract(hist), "wire_events": len(beh["wire"]), "tests": len(beh["tests"])}
                if nk and rep.evaluations % 3001 == 17
                else None,
                nontrivial_key=nk,
            )
            rep.traces += 1
            if bad:
                i, clause, extra, exp, obs = bad
                rep.violation(
                    clause,
                    signature(clause, extra),
                    {"behaviour": dict(beh, hist=hist[: i + 1]), "cfg": cfg, "step": i, "calls": abstract(hist[: i + 1])},
                    expected=exp,
                    observed=obs,
                )
        if n == 0:
            raise tlc.MachineryError("%s exported no behaviours" % what)
    if not rep.samples:
        rep.sample({"note": "see tlc_runs"})
    rep.exhaustive = False
    rep.extra["explanation"] = (
        "exhaustive for the exp/mc configs (bounds in spec/conv/sc_*.cfg, alphabets in MCStreamConv.tla); "
        "random for sc_simR (payloads drawn per seed from the full 0..2 details x 0..3 chunks x 4 content types space)"
    )
    return rep.finish()


def _cfg_text(cfg, _cache={}):
    import os

    if cfg not in _cache:
        _cache[cfg] = open(os.path.join(tlc.SPEC, "conv", cfg)).read()
    return _cache[cfg]


def replay_file(path, pid="C09"):
    import json

    use_repo()
    _lib()
    v = json.load(open(path))
    bad = replay(v["scenario"]["behaviour"])
    if bad:
        print("VIOLATION property=C09 replay=%s" % path)
        print("  step=%s clause=%s class=%s expected=%r observed=%r" % bad)
        return 1
    print("replay: behaviour conforms")
    return 0
