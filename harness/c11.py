"""C11 - stream decorators forward each event once, change only their field, never alias.

Spec: spec/stream/StreamDecor.tla.  A configuration is a tree of CopyStreamResult / StreamTagger /
TimestampingStreamResult nodes over leaves (recording sink, StreamFailFast + callback, StreamToQueue + queue).
TLC checks the tree walk with Python-like object identity for tag sets (mechanism) against the pure
path-fold `Received` (meaning): ForwardOnce, OnlyOwnField, Independent, CallerUntouched, for every tree x
event sequence of the bounded instance, and exports each behaviour.  The driver builds the same tree from the
real classes and replays the calls: the caller's arguments are deep-copied before each call and compared
after it, every leaf snapshots what it receives at receive time and the snapshots are re-taken when the
behaviour ends.  The spec run with Variant="asCoded" (StreamTagger updating the incoming set in place, as
real.py does) must violate the invariants (non-vacuity, and it is the model of the recorded finding).
"""

import copy
import datetime
import queue

from . import tlc
from .common import Report, use_repo, jdump

UTC = datetime.timezone.utc
PROPS = ("C11",)

IDS = {"t1": "pkg.mod.T.test_é", "t2": "t2", "none": None}
SEG = {"r": "0", "s": "ü", "c": "c", "d": "d", "e": ""}
REST = {
    "plain": {},
    "none": {},
    "file": dict(runnable=False, file_name="fé", file_bytes=b"x\x00\xff", mime_type="text/plain; charset=utf8"),
    "eof": dict(file_name="g", file_bytes=b"", eof=True),
}
DEFAULTS = dict(
    test_id=None,
    test_status=None,
    test_tags=None,
    runnable=True,
    file_name=None,
    file_bytes=None,
    eof=False,
    mime_type=None,
    route_code=None,
    timestamp=None,
)
FIELDS = tuple(DEFAULTS)


def ts_of(s):
    """Supplied timestamps, all to be forwarded unchanged and never remembered: "1" aware UTC behind the clock
    (year 2000), "9" aware UTC ahead of it (year 2100: skewed worker clock, replayed stream), "2" timezone-NAIVE,
    "3" aware at a non-UTC offset (+05:30)."""
    if s == "none":
        return None
    if s == "2":
        return datetime.datetime(2000, 1, 1, 0, 0, 2)
    if s == "3":
        return datetime.datetime(2000, 1, 1, 0, 0, 3, tzinfo=datetime.timezone(datetime.timedelta(hours=5, minutes=30)))
    return datetime.datetime(2100 if s == "9" else 2000, 1, 1, 0, 0, int(s), tzinfo=UTC)


def same_value(g, w):
    """Equality for 'forwarded unchanged': None-ness, value, and for datetimes also naive/aware and the offset."""
    if (g is None) != (w is None) or g != w:
        return False
    if isinstance(w, datetime.datetime):
        return isinstance(g, datetime.datetime) and (g.tzinfo is None) == (w.tzinfo is None) and g.utcoffset() == w.utcoffset()
    return True


def route_of(segs):
    return "/".join(SEG[s] for s in segs) if segs else None


def kwargs_of(e):
    """The caller's call, built from the abstract event: only what the caller supplies is passed."""
    kw = {}
    if e["id"] != "none":
        kw["test_id"] = IDS[e["id"]]
    if e["status"] != "none":
        kw["test_status"] = e["status"]
    if e["tk"] == "set":
        kw["test_tags"] = set(e["tv"])
    elif e["tk"] == "fset":
        kw["test_tags"] = frozenset(e["tv"])
    elif e["rest"] != "plain":
        kw["test_tags"] = None
    if e["route"]:
        kw["route_code"] = route_of(e["route"])
    if e["ts"] != "none":
        kw["timestamp"] = ts_of(e["ts"])
    elif e["rest"] != "plain" or e["route"]:
        # a missing timestamp is also supplied as an explicit None (e.g. status(**event) for an event dict
        # taken from a queue), not only by omitting the keyword
        kw["timestamp"] = None
    kw.update(REST[e["rest"]])
    return kw


def expected_fields(v):
    """Abstract received value -> concrete field dict (timestamp 'NOW' left symbolic)."""
    d = dict(DEFAULTS)
    d["test_id"] = IDS[v["id"]]
    d["test_status"] = None if v["status"] == "none" else v["status"]
    d["test_tags"] = None if v["tags"] == ["~"] else frozenset(v["tags"])
    d["route_code"] = route_of(v["route"])
    d["timestamp"] = "NOW" if v["ts"] == "NOW" else ts_of(v["ts"])
    d.update(REST[v["rest"]])
    return d


def snap_tags(t):
    return None if t is None else frozenset(t)


class Leaf:
    """What one leaf of the tree has been given: entries [action, fields (references), tags snapshot on receipt,
    index of the root call, index within that call]."""

    def __init__(self, kind, path, tree):
        self.kind = kind
        self.path = path
        self.tree = tree
        self.entries = []
        self.seen = 0

    def got(self, action, fields=None):
        snap = snap_tags(fields.get("test_tags")) if fields else None
        self.entries.append([action, fields, snap, self.tree.cur, len(self.entries) - self.seen])


def make_sink(leaf):
    from testtools.testresult import real

    class RecordingSink(real.StreamResult):
        def startTestRun(self):
            leaf.got("startTestRun")

        def stopTestRun(self):
            leaf.got("stopTestRun")

        def status(
            self,
            test_id=None,
            test_status=None,
            test_tags=None,
            runnable=True,
            file_name=None,
            file_bytes=None,
            eof=False,
            mime_type=None,
            route_code=None,
            timestamp=None,
        ):
            leaf.got(
                "status",
                dict(
                    test_id=test_id,
                    test_status=test_status,
                    test_tags=test_tags,
                    runnable=runnable,
                    file_name=file_name,
                    file_bytes=file_bytes,
                    eof=eof,
                    mime_type=mime_type,
                    route_code=route_code,
                    timestamp=timestamp,
                ),
            )

    return RecordingSink()


class SnapQueue(queue.Queue):
    """A queue.Queue that notes every item at put() time (receive-time snapshot)."""

    def __init__(self, leaf):
        super().__init__()
        self.leaf = leaf

    def put(self, item, *a, **k):
        ev = item.get("event")
        if ev == "status":
            fields = {f: item[f] for f in FIELDS if f in item}
            extra = sorted(set(item) - set(FIELDS) - {"event"})
            missing = sorted(set(FIELDS) - set(item))
            if extra or missing:
                fields["__shape__"] = (extra, missing)
            self.leaf.got("status", fields)
        else:
            self.leaf.got(ev)
        super().put(item, *a, **k)


class Tree:
    def __init__(self, spec):
        self.leaves = []
        self.queues = []
        self.has_tagger = False
        self.keep = []  # the caller's argument objects, kept alive
        self.cur = -1
        self.root = self.build(spec, [])

    def build(self, n, path):
        from testtools.testresult import real

        k = n["k"]
        if k in ("sink", "ff", "queue"):
            leaf = Leaf(k, list(path), self)
            self.leaves.append(leaf)
            if k == "sink":
                return make_sink(leaf)
            if k == "ff":
                return real.StreamFailFast(lambda: leaf.got("cb"))
            q = SnapQueue(leaf)
            self.queues.append(q)
            return real.StreamToQueue(q, SEG[n["code"]])
        kids = [self.build(c, path + [i + 1]) for i, c in enumerate(n["kids"])]
        if k == "copy":
            return real.CopyStreamResult(kids)
        if k == "stamp":
            return real.TimestampingStreamResult(kids[0])
        if k == "tagger":
            self.has_tagger = True
            return real.StreamTagger(kids, add=sorted(n["add"]) or None, discard=sorted(n["disc"]) or None)
        raise tlc.MachineryError("unknown node kind %r" % k)

    def drain(self):
        """The driver is the consumer of the queues."""
        for q in self.queues:
            while not q.empty():
                q.get_nowait()


def is_utc_now(ts, t0, t1):
    return (
        isinstance(ts, datetime.datetime)
        and ts.tzinfo is not None
        and ts.utcoffset() == datetime.timedelta(0)
        and t0 <= ts <= t1
    )


IN_PLACE = "as-in-place-update-variant"


def replay(spec_tree, hist):
    """Replay one behaviour; return a list of (step, clause, signature, expected, observed).

    A deviation that coincides with what the spec's "asCoded" walk (StreamTagger updating the incoming set in
    place) produces for the same call gets the class IN_PLACE in its signature; anything else is classified by
    field and leaf kind."""
    tree = Tree(spec_tree)
    bad = []
    for i, h in enumerate(hist):
        a = h["a"]
        alt = h["alt"]
        kw = before = None
        tree.cur = i
        t0 = datetime.datetime.now(UTC)
        exc = None
        try:
            if a == "startTestRun":
                tree.root.startTestRun()
            elif a == "stopTestRun":
                tree.root.stopTestRun()
            else:
                kw = kwargs_of(h["e"])
                before = copy.deepcopy(kw)
                tree.keep.append(kw)
                tree.root.status(**kw)
        except Exception as ex:
            exc = ex
        t1 = datetime.datetime.now(UTC)
        tree.drain()
        if exc is not None:
            cls = str(exc)[:80]
            if alt["raised"] and isinstance(exc, AttributeError) and isinstance(kw.get("test_tags"), frozenset):
                cls = IN_PLACE
            bad.append((i, "ForwardOnce", "ForwardOnce:raised:%s:%s" % (type(exc).__name__, cls), "no exception", repr(exc)))
            for leaf in tree.leaves:
                leaf.seen = len(leaf.entries)
            continue
        # -- CallerUntouched
        if kw is not None:
            changed = sorted(k for k in before if kw[k] != before[k])
            if changed:
                cls = ",".join("%s:%s" % (k, type(before[k]).__name__) for k in changed)
                if changed == ["test_tags"] and _tags_eq(snap_tags(kw["test_tags"]), alt["caller"]):
                    cls = "test_tags:" + IN_PLACE
                bad.append(
                    (
                        i,
                        "CallerUntouched",
                        "CallerUntouched:%s" % cls,
                        {k: before[k] for k in changed},
                        {k: kw[k] for k in changed},
                    )
                )
        # -- per leaf: ForwardOnce (count, order), OnlyOwnField (values as received)
        for j, (leaf, ob) in enumerate(zip(tree.leaves, h["obs"])):
            if leaf.path != ob["p"] or leaf.kind != ob["k"]:
                raise tlc.MachineryError("leaf order mismatch: %r vs %r" % (leaf.path, ob))
            new = leaf.entries[leaf.seen :]
            leaf.seen = len(leaf.entries)
            exp = ob["new"]
            if [n[0] for n in new] != [x["a"] for x in exp]:
                bad.append(
                    (
                        i,
                        "ForwardOnce",
                        "ForwardOnce:%s:%s:got=%s:want=%s"
                        % (a, leaf.kind, "+".join(n[0] for n in new) or "-", "+".join(x["a"] for x in exp) or "-"),
                        [x["a"] for x in exp],
                        [n[0] for n in new],
                    )
                )
                continue
            path_has_tagger = _path_has(spec_tree, leaf.path, "tagger")
            for x, (n, want_abs) in enumerate(zip(new, exp)):
                if n[0] != "status":
                    continue
                want = expected_fields(want_abs["v"])
                got = dict(n[1])
                got["test_tags"] = n[2]
                for f in FIELDS:
                    g, w = got.get(f, "<missing>"), want[f]
                    if f == "timestamp" and w == "NOW":
                        ok = is_utc_now(g, t0, t1)
                    elif f == "test_tags" and path_has_tagger:
                        ok = (g or None) == (w or None)  # a tagger may say "no tags" as None or as an empty set
                    else:
                        ok = same_value(g, w)
                    if not ok:
                        cls = leaf.kind
                        if f == "timestamp" and w == "NOW" and any(
                            g is not None and g == k.get("timestamp") for k in tree.keep[:-1]
                        ):
                            cls += ":taken-from-an-earlier-event"  # the decorator is not stateless
                        if f == "test_tags":
                            al = alt["leaves"][j]
                            if x < len(al) and _tags_eq(g, al[x]["v"]["tags"]):
                                cls = IN_PLACE
                        bad.append(
                            (i, "OnlyOwnField", "OnlyOwnField:%s:%s" % (f, cls), {f: w, "leaf": leaf.path}, {f: g})
                        )
                if "__shape__" in got:
                    bad.append((i, "OnlyOwnField", "OnlyOwnField:queue-item-keys", list(FIELDS), got["__shape__"]))
    # -- Independent: what was received has not changed since (aliasing with a sibling / the caller)
    for j, leaf in enumerate(tree.leaves):
        for n in leaf.entries:
            if n[0] == "status" and snap_tags(n[1].get("test_tags")) != n[2]:
                now = snap_tags(n[1].get("test_tags"))
                cls = leaf.kind
                al = hist[n[3]]["alt"]["leaves"][j]
                if n[4] < len(al) and _tags_eq(now, al[n[4]]["endtags"]) and _tags_eq(n[2], al[n[4]]["v"]["tags"]):
                    cls = IN_PLACE
                bad.append(
                    (
                        len(hist) - 1,
                        "Independent",
                        "Independent:test_tags:%s" % cls,
                        {"as_received": n[2], "leaf": leaf.path, "call": n[3]},
                        {"now": now},
                    )
                )
    return bad


def _tags_eq(concrete, abstract):
    """concrete: None or frozenset; abstract: ["~"] (None) or list of tags. None and empty are told apart."""
    if abstract == ["~"]:
        return concrete is None
    return concrete is not None and set(concrete) == set(abstract)


def _path_has(n, path, kind):
    for i in path:
        if n["k"] == kind:
            return True
        n = n["kids"][i - 1]
    return n["k"] == kind


def _abstract_tree(n):
    k = n["k"]
    if k == "sink":
        return "S"
    if k == "ff":
        return "FF"
    if k == "queue":
        return "Q(%s)" % n["code"]
    inner = ",".join(_abstract_tree(c) for c in n["kids"])
    if k == "copy":
        return "Copy[%s]" % inner
    if k == "stamp":
        return "Stamp[%s]" % inner
    return "Tag(+%s-%s)[%s]" % ("".join(sorted(n["add"])), "".join(sorted(n["disc"])), inner)


def _abstract_calls(hist):
    out = []
    for h in hist:
        if h["a"] == "status":
            e = h["e"]
            tags = "None" if e["tk"] == "none" else "%s{%s}" % (e["tk"], ",".join(e["tv"]))
            out.append("status(%s,%s,tags=%s,route=%s,ts=%s,%s)" % (e["id"], e["status"], tags, "/".join(e["route"]) or "None", e["ts"], e["rest"]))
        else:
            out.append(h["a"])
    return out


def _nleaves(n):
    return 1 if not n["kids"] else sum(_nleaves(c) for c in n["kids"])


INVARIANTS = ("ForwardOnce", "OnlyOwnField", "Independent", "CallerUntouched")
ACTIONS = ["StartTestRun", "Status", "StopTestRun"]


def run(tier, pid="C11"):
    # "a missing timestamp filled with the current UTC time": run in a non-UTC local timezone, so that local
    # wall-clock time mislabelled as UTC is nine hours off (POSIX TZ string, needs no tzdata)
    import os
    import time as _time

    os.environ["TZ"] = "XST-9"
    _time.tzset()
    use_repo()
    rep = Report(
        "C11",
        tier,
        "model_checking",
        "configurations = decorator trees (Copy / Tagger(add,discard) / Timestamping over sink, StreamFailFast, "
        "StreamToQueue leaves) enumerated by TLC from the tree sets in spec/stream/MCStreamDecor.tla (exhaustive depth<=2, "
        "fan-out<=2; selected and TLC-random depth-3 / fan-out-3); histories = startTestRun, status events, stopTestRun over "
        "the event alphabets (tags None/set/frozenset, timestamp given/missing, route None/1/2 segments, file/eof payloads). "
        "Every exported behaviour is replayed into the same tree of real objects. Non-trivial = the tree has >= 2 leaves "
        "sharing at least one status event; distinct by (tree, call sequence).",
    )
    rep.assume("a StreamTagger whose result is empty may pass test_tags as None or as an empty set (compared as equal)")
    rep.assume("'current UTC time' = tz-aware datetime with zero offset between the driver's clock reads around the call")
    rep.assume("StreamFailFast has no target: only its callback is observed; startTestRun/stopTestRun end there")
    rep.assume("StreamToQueue items are observed at queue.put() time by a queue.Queue subclass and consumed by the driver")
    q = tier == "quick"
    jobs = [
        # cfg, kwargs, replay?
        ("sd_mcM.cfg" if q else "sd_mcF.cfg", {}, False),
        ("sd_expQ.cfg", {}, True),
        ("sd_expB.cfg", {}, True),
        ("sd_expT.cfg", {}, True),  # histories on one TimestampingStreamResult: past / future stamps, then none
    ]
    if q:
        jobs.append(("sd_simR.cfg", dict(simulate=dict(num=60, depth=14), seed=rep.seed + 11), True))
    else:
        jobs.append(("sd_mcB.cfg", {}, False))
        jobs.append(("sd_expD3.cfg", {}, True))
        jobs.append(("sd_expF3.cfg", {}, True))
        jobs.append(("sd_simR.cfg", dict(simulate=dict(num=1500, depth=14), seed=rep.seed + 11), True))
        jobs.append(("sd_simR.cfg", dict(simulate=dict(num=1500, depth=14), seed=rep.seed + 12), True))
    for cfg, kw, do_replay in jobs:
        r = tlc.run_tlc("stream", "MCStreamDecor", cfg, coverage=True, timeout=1500, workers=8, **kw)
        tlc.require_ok(r, "C11 " + cfg)
        tlc.require_coverage(r, ACTIONS, "C11 " + cfg)
        rep.add_tlc(r, cfg)
        if not do_replay:
            continue
        n = 0
        for b in tlc.exported(r):
            n += 1
            tree, hist = b["tree"], b["hist"]
            nstatus = sum(1 for h in hist if h["a"] == "status")
            nk = None
            if _nleaves(tree) >= 2 and nstatus:
                nk = jdump([tree, [(h["a"], h["e"]) for h in hist]])
            bad = replay(tree, hist)
            rep.case(
                sample={"tree": _abstract_tree(tree), "calls": _abstract_calls(hist)}
                if nk and rep.evaluations % 3001 == 17
                else None,
                nontrivial_key=nk,
            )
            rep.traces += 1
            for i, clause, sig, exp, obs in bad:
                rep.violation(
                    clause,
                    sig,
                    {"tree": tree, "tree_text": _abstract_tree(tree), "behaviour": hist[: i + 1], "cfg": cfg, "step": i},
                    expected=exp,
                    observed=obs,
                )
        if n == 0:
            raise tlc.MachineryError("C11 %s exported no behaviours" % cfg)
    # non-vacuity + model of the recorded finding: the in-place variant must break the invariants
    coded = ["sd_mcCoded.cfg"] if q else ["sd_mcCoded.cfg"] + ["sd_mcCoded_%s.cfg" % i for i in INVARIANTS]
    seen = []
    for cfg in coded:
        r = tlc.run_tlc("stream", "MCStreamDecor", cfg, timeout=600, workers=8)
        want = INVARIANTS if cfg == "sd_mcCoded.cfg" else (cfg[len("sd_mcCoded_") : -4],)
        if r.violated not in want:
            raise tlc.MachineryError(
                "C11 %s: the asCoded variant should violate %s, TLC says violated=%s error=%s" % (cfg, want, r.violated, r.error)
            )
        seen.append("%s: %s violated" % (cfg, r.violated))
    rep.extra["asCoded_variant"] = seen
    if not rep.samples:
        rep.sample({"note": "see tlc_runs"})
    rep.exhaustive = False
    rep.extra["explanation"] = (
        "exhaustive over the tree sets and alphabets of the mc/exp configs (spec/stream/sd_*.cfg); random trees "
        "(TLC RandomElement, 400 per run) and random histories for sd_simR"
    )
    return rep.finish()


def replay_file(path, pid="C11"):
    import json

    use_repo()
    v = json.load(open(path))
    sc = v["scenario"]
    bad = replay(sc["tree"], sc["behaviour"])
    if bad:
        print("VIOLATION property=C11 replay=%s" % path)
        for b in bad:
            print("  step=%s clause=%s signature=%s expected=%r observed=%r" % b)
        return 1
    print("replay: behaviour conforms")
    return 0
