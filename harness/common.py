"""Shared plumbing: repo import path, report/evidence writing, known findings, shrinking."""

import hashlib
import json
import os
import sys
import time

VERIF = os.path.dirname(os.path.dirname(os.path.abspath(__file__)))
EVIDENCE = os.environ.get("VERIF_EVIDENCE_DIR") or os.path.join(VERIF, "evidence")
REPLAYS = os.path.join(EVIDENCE, "replays")
BUILD = os.path.join(VERIF, "build")
FINDINGS_FILE = os.path.join(VERIF, "known_findings.json")
GUARD = "TESTTOOLS_VERIF"

LEVELS = ("exploration", "fault_enumeration", "model_checking", "proof", "translation_validation", "other")


def repo_path():
    return os.environ.get("VERIF_REPO", "/repo")


def use_repo():
    """Make `import testtools` resolve to the working tree under test (fresh interpreter per check)."""
    p = repo_path()
    if sys.path[0] != p:
        sys.path.insert(0, p)
    os.environ.setdefault(GUARD, "1")
    import testtools  # noqa

    got = os.path.dirname(os.path.dirname(os.path.abspath(testtools.__file__)))
    if os.path.realpath(got) != os.path.realpath(p):
        from .tlc import MachineryError

        raise MachineryError("testtools imported from %s, expected %s" % (got, p))
    return testtools


def seed():
    try:
        return int(os.environ.get("VERIF_SEED", "0"))
    except ValueError:
        return 0


def load_findings():
    out = []
    if os.path.exists(FINDINGS_FILE):
        with open(FINDINGS_FILE) as f:
            out += json.load(f)["findings"]
    import glob

    for p in sorted(glob.glob(os.path.join(VERIF, "findings.d", "*.json"))):
        with open(p) as f:
            out += json.load(f)["findings"]
    return out


def jdump(o):
    return json.dumps(o, sort_keys=True, default=repr)


def sig_hash(o):
    return hashlib.sha1(jdump(o).encode()).hexdigest()[:12]


class Report:
    """Collects what one check run covered and what it found; writes evidence; decides exit code."""

    def __init__(self, pid, tier, level, rule):
        self.pid = pid
        self.tier = tier
        self.level = level
        self.rule = rule
        self.seed = seed()
        self.t0 = time.time()
        self.evaluations = 0
        self.nontrivial = set()
        self.samples = []
        self.states = 0
        self.transitions = 0
        self.traces = 0
        self.assumptions = []
        self.extra = {}
        self.violations = []  # dicts
        self.known = []  # (finding, violation)
        self.drift = []
        self._findings = [f for f in load_findings() if f["property"] == pid]
        self.tlc_runs = []
        self.exhaustive = None

    # -- coverage accounting ------------------------------------------------
    def add_tlc(self, r, what):
        self.states += r.distinct
        self.transitions += r.generated
        self.tlc_runs.append(
            {
                "what": what,
                "generated": r.generated,
                "distinct": r.distinct,
                "depth": r.depth,
                "wall_s": round(r.wall_s, 2),
                "coverage": {k: v[1] for k, v in sorted(r.coverage.items())} if r.coverage else None,
            }
        )

    def case(self, sample=None, nontrivial_key=None):
        self.evaluations += 1
        if nontrivial_key is not None:
            self.nontrivial.add(nontrivial_key if isinstance(nontrivial_key, str) else jdump(nontrivial_key))
        if sample is not None and len(self.samples) < 4:
            self.samples.append(sample)

    def sample(self, s, force=False):
        if len(self.samples) < 4 or force:
            self.samples.append(s)

    def assume(self, text):
        if text not in self.assumptions:
            self.assumptions.append(text)

    # -- verdicts -----------------------------------------------------------
    def violation(self, clause, signature, scenario, expected=None, observed=None, note=None):
        """Record a violation of self.pid. `signature` identifies the (minimised) failing input;
        open known findings with the same signature turn it into a KNOWN-FINDING line."""
        v = {
            "property": self.pid,
            "clause": clause,
            "signature": signature,
            "scenario": scenario,
            "expected": expected,
            "observed": observed,
            "note": note,
        }
        for f in self._findings:
            if f.get("status") == "open" and f["signature"] == signature:
                if not any(k[0] is f for k in self.known):
                    self.known.append((f, v))
                return "known"
        if not any(x["signature"] == signature and x["clause"] == clause for x in self.violations):
            self.violations.append(v)
        return "violation"

    def note_drift(self, text):
        if len(self.drift) < 20:
            self.drift.append(text)

    # -- output ---------------------------------------------------------------
    def finish(self):
        os.makedirs(EVIDENCE, exist_ok=True)
        os.makedirs(REPLAYS, exist_ok=True)
        wall = time.time() - self.t0
        for f, v in self.known:
            print("KNOWN-FINDING: property=%s %s [%s]" % (self.pid, f["what"], f["signature"]))
        for d in self.drift:
            print("DRIFT: %s" % d)
        vio_paths = []
        for i, v in enumerate(self.violations[:20]):
            path = os.path.join(REPLAYS, "%s-%s-%s.json" % (self.pid, v["clause"], sig_hash(v["signature"])))
            with open(path, "w") as fh:
                json.dump(v, fh, indent=1, sort_keys=True, default=repr)
            vio_paths.append(path)
            print("VIOLATION property=%s replay=%s" % (self.pid, path))
            print("  clause=%s signature=%s" % (v["clause"], v["signature"]))
        cov = {
            "evaluations": self.evaluations,
            "distinct_nontrivial": len(self.nontrivial),
            "rule": self.rule,
            "samples": self.samples[:6] or ["<none>"],
            "states": self.states,
            "transitions": self.transitions,
            "traces_validated_against_impl": self.traces,
            "tlc_runs": self.tlc_runs,
            "known_findings_seen": [f["signature"] for f, _ in self.known],
        }
        if self.exhaustive is not None:
            cov["exhaustive"] = self.exhaustive
        cov.update(self.extra)
        ev = {
            "property_id": self.pid,
            "tier": self.tier,
            "seed": self.seed,
            "level": self.level,
            "coverage": cov,
            "assumptions": self.assumptions,
            "wall_s": round(wall, 2),
            "violations": len(self.violations),
        }
        check_evidence(ev)
        with open(os.path.join(EVIDENCE, "%s.json" % self.pid), "w") as fh:
            json.dump(ev, fh, indent=1, sort_keys=True, default=repr)
        print(
            "%s %s: %d evaluations, %d distinct non-trivial, %d TLC states, %d traces validated, %d violation(s), %d known finding(s), %.1fs"
            % (
                self.pid,
                self.tier,
                self.evaluations,
                len(self.nontrivial),
                self.states,
                self.traces,
                len(self.violations),
                len(self.known),
                wall,
            )
        )
        return 1 if self.violations else 0


def check_evidence(ev):
    """Minimal structural validation mirroring EVIDENCE.schema.json (jsonschema is not in /venv)."""
    from .tlc import MachineryError

    for k in ("property_id", "tier", "seed", "level", "coverage", "wall_s"):
        if k not in ev:
            raise MachineryError("evidence lacks %s" % k)
    if ev["level"] not in LEVELS or ev["tier"] not in ("quick", "thorough"):
        raise MachineryError("bad evidence level/tier")
    c = ev["coverage"]
    if ev["level"] == "model_checking":
        if c.get("states", 0) < 1 or c.get("transitions", 0) < 1 or not c.get("samples"):
            raise MachineryError("model_checking evidence needs states/transitions/samples: %r" % (c,))
    if ev["level"] in ("exploration", "fault_enumeration"):
        if c.get("evaluations", 0) < 1 or c.get("distinct_nontrivial", 0) < 2 or not c.get("samples"):
            raise MachineryError("exploration evidence needs evaluations>=1, distinct_nontrivial>=2, samples")


def shrink(items, fails):
    """Greedy one-at-a-time deletion: smallest sub-list of `items` (order kept) for which fails() holds.
    `fails(sublist)` must be deterministic. Used to give one defect one signature."""
    cur = list(items)
    changed = True
    while changed:
        changed = False
        for i in range(len(cur)):
            cand = cur[:i] + cur[i + 1 :]
            try:
                if fails(cand):
                    cur = cand
                    changed = True
                    break
            except Exception:
                continue
    return cur


def run_subcheck(rep, module_name, sub_pid, tier, label):
    """Run another driver (an extension module such as X12) as part of this property's check: its TLC runs and
    evaluations are added to `rep`, its violations become violations of rep.pid (clause prefixed with `label`)."""
    import contextlib
    import importlib
    import io
    import json as _json

    mod = importlib.import_module("harness." + module_name)
    buf = io.StringIO()
    with contextlib.redirect_stdout(buf):
        rc = mod.run(tier, sub_pid)
    out = buf.getvalue()
    if rc not in (0, 1):
        from .tlc import MachineryError

        raise MachineryError("sub-check %s failed: %s" % (sub_pid, out[-1500:]))
    lines = out.split("\n")
    for i, ln in enumerate(lines):
        if ln.startswith("VIOLATION property=%s " % sub_pid):
            path = ln.split("replay=", 1)[1].strip()
            clause, sig = "violation", path
            if i + 1 < len(lines) and lines[i + 1].strip().startswith("clause="):
                parts = lines[i + 1].strip().split(" signature=", 1)
                clause = parts[0][len("clause="):]
                sig = parts[1] if len(parts) > 1 else path
            rep.violation("%s:%s" % (label, clause), "%s:%s" % (label, sig), {"sub_check": sub_pid, "replay": path})
    try:
        ev = _json.load(open(os.path.join(EVIDENCE, "%s.json" % sub_pid)))
        cov = ev["coverage"]
        rep.evaluations += cov.get("evaluations", 0)
        rep.states += cov.get("states", 0)
        rep.transitions += cov.get("transitions", 0)
        rep.traces += cov.get("traces_validated_against_impl", 0)
        rep.tlc_runs.append({"what": "sub-check %s (%s)" % (sub_pid, label), "distinct": cov.get("states", 0),
                             "generated": cov.get("transitions", 0), "depth": 0, "wall_s": ev.get("wall_s", 0), "coverage": None})
    except (OSError, ValueError, KeyError):
        pass
    return rc
