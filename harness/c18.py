"""C18 - routing picks exactly one destination; route prefixes push and pop inversely.

Spec: spec/stream/Router.tla.  The mechanism is StreamResultRouter's two dictionaries, fallback, start/stop sink
list and _in_run flag; the meaning (OneDestination, PushPopInverse, StartStopExact) is written over the history of
calls only.  TLC checks them for every behaviour of the bounded instances and exports each behaviour; the driver
replays it into a real StreamResultRouter over recording sinks - status events that the spec sends through a
chain of StreamToQueue(code) stages go through real StreamToQueue objects whose queues the driver drains into the
next stage and finally into the router - and compares after EVERY call what each sink (and the fallback) has newly
received.  Run with Variant="asCoded" (add_rule in a run starts the new sink whatever do_start_stop_run says, as
real.py:604-605 does) the spec must violate StartStopExact.

rt_expRe.cfg (MaxReent > 0): startTestRun / stopTestRun at the grain of the code (a loop over the live _sinks list,
then the _in_run assignment) with re-entrant add_rule from the sink that has just been started / stopped; invariant
StartStopBalanced; replayed by replay_loop over ReSink doubles.  Variant="snapshot" must violate StartStopBalanced.
"""

import datetime
import queue

from . import tlc
from .common import Report, use_repo, jdump

UTC = datetime.timezone.utc
PROPS = ("C18",)

IDS = {"t1": "pkg.mod.T.test_é", "t2": "t2", "t3": "other.test", "none": None}
SEG = {"a": "0", "b": "bé", "x": "0x"}  # "0x" starts with "0": first SEGMENT decides, not a string prefix
SINKS = ("s1", "s2", "s3", "fb")
NOW = datetime.datetime(2001, 2, 3, 4, 5, 6, tzinfo=UTC)
REST = {
    "plain": {},
    "file": dict(
        test_status="fail",
        test_tags=frozenset({"t"}),
        runnable=False,
        file_name="fé",
        file_bytes=b"x\x00\xff",
        eof=True,
        mime_type="text/plain; charset=utf8",
        timestamp=NOW,
    ),
}
DEFAULTS = dict(
    test_id=None,
    test_status=None,
    test_tags=None,
    runnable=True,
    file_name=None,
    file_bytes=None,
    eof=False,
    mime_type=None,
    route_code=None,
    timestamp=None,
)
FIELDS = tuple(DEFAULTS)


def route_of(segs):
    return "/".join(SEG[s] for s in segs) if segs else None


class Sink:
    """Recording StreamResult: entries ("startTestRun",) / ("stopTestRun",) / ("status", fields)."""

    def __init__(self):
        self.entries = []
        self.seen = 0

    def startTestRun(self):
        self.entries.append(("startTestRun", None))

    def stopTestRun(self):
        self.entries.append(("stopTestRun", None))

    def status(
        self,
        test_id=None,
        test_status=None,
        test_tags=None,
        runnable=True,
        file_name=None,
        file_bytes=None,
        eof=False,
        mime_type=None,
        route_code=None,
        timestamp=None,
    ):
        self.entries.append(
            (
                "status",
                dict(
                    test_id=test_id,
                    test_status=test_status,
                    test_tags=test_tags,
                    runnable=runnable,
                    file_name=file_name,
                    file_bytes=file_bytes,
                    eof=eof,
                    mime_type=mime_type,
                    route_code=route_code,
                    timestamp=timestamp,
                ),
            )
        )


def status_kwargs(e):
    kw = {}
    if e["id"] != "none" or e["rest"] == "file":
        kw["test_id"] = IDS[e["id"]]
    if e["route"]:
        kw["route_code"] = route_of(e["route"])
    kw.update(REST[e["rest"]])
    return kw


def send(router, e):
    """Send the event through the StreamToQueue stages e['via'] (first = innermost) and into the router,
    dequeuing the way ConcurrentStreamTestSuite does (pop 'event', call status(**dict))."""
    from testtools.testresult import real

    kw = status_kwargs(e)
    for code in e["via"]:
        q = queue.Queue()
        real.StreamToQueue(q, SEG[code]).status(**kw)
        if q.qsize() != 1:
            raise tlc.MachineryError("StreamToQueue put %d items for one status call" % q.qsize())
        kw = q.get_nowait()
        if kw.pop("event") != "status":
            raise tlc.MachineryError("StreamToQueue status produced a non-status item")
    router.status(**kw)


def expected_fields(e, entry):
    d = dict(DEFAULTS)
    d.update(REST[e["rest"]])
    d["test_id"] = IDS[entry["id"]]
    d["route_code"] = route_of(entry["route"])
    return d


def add_rule(router, sinks, r):
    sink = sinks[r["sink"]]
    kw = {}
    if r["dss"] or r["sink"] != "s2":
        kw["do_start_stop_run"] = r["dss"]  # else: left to its default (False)
    if r["kind"] == "prefix":
        if r["consume"] or r["key"] != "b":
            kw["consume_route"] = r["consume"]  # else: left to its default (False)
        router.add_rule(sink, "route_code_prefix", route_prefix=SEG[r["key"]], **kw)
    else:
        router.add_rule(sink, "test_id", test_id=IDS[r["key"]], **kw)


REJECTED = {
    # why -> (documented exception class, the call)
    "slash": (TypeError, lambda router, sink, kw: router.add_rule(sink, "route_code_prefix", route_prefix=SEG["a"] + "/1", **kw)),
    "unknown-policy": (ValueError, lambda router, sink, kw: router.add_rule(sink, "route_code_prefixa", route_prefix=SEG["a"], **kw)),
    "bad-keyword": (
        TypeError,
        lambda router, sink, kw: router.add_rule(sink, "route_code_prefix", route_prefix=SEG["a"], consume_routes=True, **kw),
    ),
}


def add_rule_rejected(router, sinks, r):
    """An add_rule call the router must reject (add_rule docstring: ValueError / TypeError)."""
    kw = {"do_start_stop_run": True} if r["dss"] else {}
    REJECTED[r["kind"]][1](router, sinks[r["sink"]], kw)


def names(entries):
    return "+".join(n for n, _ in entries) or "-"


def replay(conf, hist, drift=None):
    """Replay one behaviour; return a list of (step, clause, signature, expected, observed).
    Deviations the property does not speak about (a rejected add_rule raising another exception class, or not
    raising) are appended to `drift`; after a non-raising one the rest of the behaviour is not compared."""
    from testtools.testresult import real

    sinks = {s: Sink() for s in SINKS}
    if conf["fallback"] == "none":
        router = real.StreamResultRouter()
    else:
        router = real.StreamResultRouter(sinks["fb"], do_start_stop_run=conf["fbss"])
    bad = []
    for i, h in enumerate(hist):
        a = h["a"]
        exc = None
        try:
            if a == "startTestRun":
                router.startTestRun()
            elif a == "stopTestRun":
                router.stopTestRun()
            elif a == "addRule":
                add_rule(router, sinks, h["r"])
            elif a == "addRuleRejected":
                add_rule_rejected(router, sinks, h["r"])
            else:
                send(router, h["e"])
        except tlc.MachineryError:
            raise
        except Exception as ex:
            exc = ex
        new = {}
        for s in SINKS:
            new[s] = sinks[s].entries[sinks[s].seen :]
            sinks[s].seen = len(sinks[s].entries)
        exp = h["new"]
        if a == "status":
            info = h["info"]
            ctx = "by=%s:consume=%s:via=%d" % (info["by"], info["consume"], len(h["e"]["via"]))
            if h["raised"]:
                # no rule and no fallback: the call must raise and deliver nothing
                if exc is None:
                    bad.append((i, "OneDestination", "OneDestination:no-destination:did-not-raise", "an exception", None))
            elif exc is not None:
                bad.append(
                    (i, "OneDestination", "OneDestination:raised:%s:%s" % (type(exc).__name__, ctx), "delivery", repr(exc))
                )
                continue
            got_where = sorted(s for s in SINKS if new[s])
            exp_where = sorted(s for s in SINKS if exp[s])
            total = sum(len(new[s]) for s in SINKS)
            if got_where != exp_where or total != sum(len(exp[s]) for s in SINKS):
                kind = "none" if total == 0 else "several" if total > 1 else "wrong-sink"
                bad.append(
                    (
                        i,
                        "OneDestination",
                        "OneDestination:destination:%s:%s" % (kind, ctx),
                        {s: [x["a"] for x in exp[s]] for s in exp_where},
                        {s: names(new[s]) for s in got_where},
                    )
                )
                continue
            for s in exp_where:
                (name, got), want_abs = new[s][0], exp[s][0]
                if name != "status":
                    bad.append((i, "OneDestination", "OneDestination:not-a-status:%s:%s" % (name, ctx), "status", name))
                    continue
                want = expected_fields(h["e"], want_abs)
                for f in FIELDS:
                    if got[f] != want[f] or (got[f] is None) != (want[f] is None):
                        clause = "PushPopInverse" if (f == "route_code" and info["pp"]) else "OneDestination"
                        bad.append((i, clause, "%s:field:%s:%s" % (clause, f, ctx), {f: want[f]}, {f: got[f]}))
        else:
            if a == "addRule":
                r = h["r"]
                ctx = "addRule:%s:dss=%s" % ("in-run" if h["inrun"] else "out-of-run", r["dss"])
            elif a == "addRuleRejected":
                r = h["r"]
                ctx = "addRuleRejected:%s:%s:dss=%s" % (r["kind"], "in-run" if h["inrun"] else "out-of-run", r["dss"])
                want_exc = REJECTED[r["kind"]][0]
                if exc is None:
                    if drift is not None:
                        drift.append("C18 add_rule(%s) was accepted; rest of the behaviour not compared" % r["kind"])
                    break
                if not isinstance(exc, want_exc) and drift is not None:
                    drift.append("C18 add_rule(%s) raised %s, documented: %s" % (r["kind"], type(exc).__name__, want_exc.__name__))
                exc = None  # the rejection itself is expected; what follows checks that NOTHING else happened
            else:
                ctx = a
            if exc is not None:
                bad.append((i, "StartStopExact", "StartStopExact:raised:%s:%s" % (type(exc).__name__, ctx), None, repr(exc)))
                continue
            for s in SINKS:
                g, w = names(new[s]), "+".join(x["a"] for x in exp[s]) or "-"
                if g != w:
                    role = "fallback" if s == "fb" else "rule-sink"
                    bad.append(
                        (
                            i,
                            "StartStopExact",
                            "StartStopExact:%s:%s:got=%s:want=%s" % (ctx, role, g, w),
                            {"sink": s, "new": w},
                            {"sink": s, "new": g},
                        )
                    )
    return bad


class ReSink(Sink):
    """Recording sink whose startTestRun / stopTestRun perform the re-entrant add_rule calls the behaviour
    schedules for that invocation (plan: (sink name, method) -> one list of rules per invocation, in order)."""

    def __init__(self, name, env):
        Sink.__init__(self)
        self.name = name
        self.env = env

    def _reenter(self, method):
        lst = self.env["plan"].get((self.name, method))
        rules = lst.pop(0) if lst else []
        for r in rules:
            self.env["done"] += 1
            add_rule(self.env["router"], self.env["sinks"], r)

    def startTestRun(self):
        Sink.startTestRun(self)
        self._reenter("startTestRun")

    def stopTestRun(self):
        Sink.stopTestRun(self)
        self._reenter("stopTestRun")


LOOP = {"beginStart": ("startTestRun", "startSink", "endStart"), "beginStop": ("stopTestRun", "stopSink", "endStop")}


def replay_loop(conf, hist):
    """Replay one behaviour of the loop-grain instance (rt_expRe.cfg): beginX .. endX is ONE real
    router.startTestRun() / stopTestRun(); the reAdd entries between two loop steps are performed by the sink that
    the preceding step started / stopped, from inside that very method.  After each top-level call every sink's
    newly received startTestRun / stopTestRun entries are compared with the spec's."""
    from testtools.testresult import real

    env = {"plan": {}, "done": 0}
    sinks = {s: ReSink(s, env) for s in SINKS}
    env["sinks"] = sinks
    if conf["fallback"] == "none":
        router = real.StreamResultRouter()
    else:
        router = real.StreamResultRouter(sinks["fb"], do_start_stop_run=conf["fbss"])
    env["router"] = router
    bad = []
    i = 0
    while i < len(hist):
        h = hist[i]
        a = h["a"]
        exp = {s: [x["a"] for x in h["new"][s]] for s in SINKS}
        j = i
        if a in LOOP:
            method, step, end = LOOP[a]
            plan, cur, nre, where = {}, None, 0, []
            while hist[j]["a"] != end:
                j += 1
                g = hist[j]
                if g["a"] == step:
                    cur = (g["r"]["sink"], method)
                    plan.setdefault(cur, []).append([])
                elif g["a"] == "reAdd":
                    if cur is None:
                        raise tlc.MachineryError("C18 loop behaviour: reAdd before the first loop step")
                    plan[cur][-1].append(g["r"])
                    nre += 1
                    where.append("dss=%s" % g["r"]["dss"])
                elif g["a"] != end:
                    raise tlc.MachineryError("C18 loop behaviour: %s inside %s" % (g["a"], a))
                for s in SINKS:
                    exp[s] += [x["a"] for x in g["new"][s]]
            ctx = "%s:reentrant-adds=%s" % (method, ",".join(where) or "0")
            env["plan"], env["done"] = plan, 0
            call = getattr(router, method)
        elif a == "addRule":
            ctx = "addRule:%s:dss=%s" % ("in-run" if h["inrun"] else "out-of-run", h["r"]["dss"])
            nre = 0
            env["plan"], env["done"] = {}, 0
            call = lambda: add_rule(router, sinks, h["r"])
        else:
            raise tlc.MachineryError("C18 loop behaviour: unexpected top-level action %s" % a)
        exc = None
        try:
            call()
        except tlc.MachineryError:
            raise
        except Exception as ex:
            exc = ex
        if exc is not None:
            bad.append((j, "StartStopBalanced", "StartStopBalanced:raised:%s:%s" % (type(exc).__name__, ctx), None, repr(exc)))
            break
        for s in SINKS:
            new = sinks[s].entries[sinks[s].seen :]
            sinks[s].seen = len(sinks[s].entries)
            g, w = names(new), "+".join(exp[s]) or "-"
            if g != w:
                role = "fallback" if s == "fb" else "rule-sink"
                bad.append(
                    (
                        j,
                        "StartStopBalanced",
                        "StartStopBalanced:%s:%s:got=%s:want=%s" % (ctx, role, g, w),
                        {"sink": s, "new": w, "whole-log": None},
                        {"sink": s, "new": g, "whole-log": names(sinks[s].entries)},
                    )
                )
        if env["done"] != nre and not bad:
            raise tlc.MachineryError("C18 loop behaviour: %d of %d scheduled re-entrant add_rule calls ran, logs equal" % (env["done"], nre))
        if bad:
            break  # after a deviation the scheduled re-entrant calls no longer line up
        i = j + 1
    return bad


def nontrivial_key_loop(conf, hist):
    """Non-trivial: at least one re-entrant add_rule."""
    if not any(h["a"] == "reAdd" for h in hist):
        return None
    return jdump([conf, [(h["a"], h["r"]) for h in hist]])


def nontrivial_key(conf, hist):
    """Non-trivial: a status event with >= 2 candidate destinations (several rules, or a rule and a fallback),
    an event that went through StreamToQueue, a rule added while a run was in progress, or a rejected add_rule."""
    nrules = 0
    hit = False
    for h in hist:
        if h["a"] == "addRule":
            nrules += 1
            if h["inrun"]:
                hit = True
        elif h["a"] == "addRuleRejected":
            hit = True
        elif h["a"] == "status":
            if nrules + (conf["fallback"] != "none") >= 2 or h["e"]["via"]:
                hit = True
    if not hit:
        return None
    return jdump([conf, [(h["a"], h["r"], h["e"]) for h in hist]])


def _abstract(conf, hist):
    out = ["router(fallback=%s, do_start_stop_run=%s)" % (conf["fallback"], conf["fbss"])]
    for h in hist:
        if h["a"] in ("addRule", "reAdd"):
            r = h["r"]
            out.append(
                "%sadd_rule(%s, %s=%s%s%s)"
                % ("  re-entrant " if h["a"] == "reAdd" else "", r["sink"], r["kind"], r["key"], ", consume" if r["consume"] else "", ", start_stop" if r["dss"] else "")
            )
        elif h["a"] == "addRuleRejected":
            r = h["r"]
            out.append("add_rule(%s, <%s>%s) -> rejected" % (r["sink"], r["kind"], ", start_stop" if r["dss"] else ""))
        elif h["a"] in ("startSink", "stopSink"):
            out.append("  %s -> %s" % (h["a"], h["r"]["sink"]))
        elif h["a"] == "status":
            e = h["e"]
            out.append(
                "status(route=%s, id=%s%s)"
                % ("/".join(e["route"]) or "None", e["id"], (", via " + ">".join(e["via"])) if e["via"] else "")
            )
        else:
            out.append(h["a"])
    return out


INVARIANTS = ("OneDestination", "PushPopInverse", "StartStopExact", "StartStopBalanced")
LOOP_ACTS = ["BeginStart", "StartSink", "EndStart", "BeginStop", "StopSink", "EndStop", "ReAdd", "AddRule"]


def run(tier, pid="C18"):
    use_repo()
    rep = Report(
        "C18",
        tier,
        "model_checking",
        "behaviours = sequences of add_rule(kind, key, sink, consume, do_start_stop_run) / startTestRun / stopTestRun / "
        "status(route code of 0..4 segments, test id, optionally sent through 1-2 StreamToQueue stages) on a router "
        "with / without fallback and with do_start_stop_run on / off, exported by TLC (exhaustive up to the bounds of "
        "spec/stream/rt_*.cfg) or by tlc -simulate; each replayed into a real StreamResultRouter with per-call "
        "comparison of every sink. Non-trivial = a status event with >= 2 candidate destinations, an event that went "
        "through StreamToQueue, a rule added during a run, or an add_rule call the router must reject (\"/\" in the "
        "prefix, unknown policy, misspelt policy keyword; with and without do_start_stop_run, in and out of a run, "
        "followed by later runs and valid rules for the same sink); distinct by (configuration, call sequence). "
        "rt_expRe.cfg: startTestRun / stopTestRun as loops over the live sink list with <= 2 add_rule calls made "
        "re-entrantly by the sink just started / stopped (replayed as one real call over sink doubles that make those "
        "calls); non-trivial there = at least one re-entrant add_rule.",
    )
    rep.assume("two rules for the same key, and registering one sink twice for start/stop, are outside the property (ambiguous / 'once per run')")
    rep.assume("status() is called between startTestRun and stopTestRun")
    rep.assume("re-entrant add_rule is modelled only from inside the router's own start / stop loop, not from a sink that add_rule itself starts")
    rep.assume("with no destination the call must raise (any exception) and deliver nothing")
    rep.assume("a rejected add_rule must raise and change nothing observable; the exception class (docstring: ValueError for an unknown policy, TypeError for bad policy arguments) is reported as DRIFT only")
    rep.assume("queue items are handed on the way ConcurrentStreamTestSuite does: pop 'event', status(**item)")
    q = tier == "quick"
    acts = ["StartTestRun", "StopTestRun", "AddRule", "Status"]
    jobs = [
        ("rt_expRoute.cfg", {}, True, acts),
        ("rt_expSS.cfg", {}, True, acts[:3]),
        ("rt_expMix.cfg", {}, True, acts),
        ("rt_expRej.cfg", {}, True, acts + ["AddRuleRejected"]),
        ("rt_expRe.cfg", {}, True, LOOP_ACTS),
    ]
    if q:
        jobs.append(("rt_simA.cfg", dict(simulate=dict(num=100, depth=30), seed=rep.seed + 21), True, acts + ["AddRuleRejected"]))
    else:
        jobs.append(("rt_mcA.cfg", {}, False, acts))
        jobs.append(("rt_mcB.cfg", {}, False, acts))
        jobs.append(("rt_expRoute3.cfg", {}, True, acts))
        jobs.append(("rt_simA.cfg", dict(simulate=dict(num=4000, depth=30), seed=rep.seed + 21), True, acts + ["AddRuleRejected"]))
    for cfg, kw, do_replay, need in jobs:
        r = tlc.run_tlc("stream", "MCRouter", cfg, coverage=True, timeout=1500, workers=8, **kw)
        tlc.require_ok(r, "C18 " + cfg)
        tlc.require_coverage(r, need, "C18 " + cfg)
        rep.add_tlc(r, cfg)
        if not do_replay:
            continue
        n = 0
        for b in tlc.exported(r):
            n += 1
            conf = {"fallback": b["fallback"], "fbss": b["fbss"]}
            hist = b["hist"]
            loop = cfg == "rt_expRe.cfg"
            nk = nontrivial_key_loop(conf, hist) if loop else nontrivial_key(conf, hist)
            drift = []
            bad = replay_loop(conf, hist) if loop else replay(conf, hist, drift)
            for d in drift:
                rep.note_drift(d)
            rep.case(
                sample={"calls": _abstract(conf, hist)} if nk and rep.evaluations % 9001 == 23 else None,
                nontrivial_key=nk,
            )
            rep.traces += 1
            for i, clause, sig, exp, obs in bad:
                rep.violation(
                    clause,
                    sig,
                    {"conf": conf, "behaviour": hist[: i + 1], "calls": _abstract(conf, hist[: i + 1]), "cfg": cfg, "step": i},
                    expected=exp,
                    observed=obs,
                )
        if n == 0:
            raise tlc.MachineryError("C18 %s exported no behaviours" % cfg)
    # non-vacuity + model of the recorded finding
    r = tlc.run_tlc("stream", "MCRouter", "rt_mcCoded.cfg", timeout=600, workers=8)
    if r.violated != "StartStopExact":
        raise tlc.MachineryError(
            "C18 rt_mcCoded.cfg: the asCoded variant should violate StartStopExact, TLC says violated=%s error=%s"
            % (r.violated, r.error)
        )
    r = tlc.run_tlc("stream", "MCRouter", "rt_mcRegFirst.cfg", timeout=600, workers=8)
    if r.violated != "StartStopExact":
        raise tlc.MachineryError(
            "C18 rt_mcRegFirst.cfg: the registerFirst variant (sink registered before the rule is validated) should "
            "violate StartStopExact, TLC says violated=%s error=%s" % (r.violated, r.error)
        )
    r = tlc.run_tlc("stream", "MCRouter", "rt_mcSnap.cfg", timeout=600, workers=8)
    if r.violated != "StartStopBalanced":
        raise tlc.MachineryError(
            "C18 rt_mcSnap.cfg: the snapshot variant (start / stop loops over a copy of _sinks) should violate "
            "StartStopBalanced, TLC says violated=%s error=%s" % (r.violated, r.error)
        )
    rep.extra["snapshot_variant"] = ["rt_mcSnap.cfg: StartStopBalanced violated"]
    rep.extra["asCoded_variant"] = ["rt_mcCoded.cfg: StartStopExact violated", "rt_mcRegFirst.cfg: StartStopExact violated"]
    if not rep.samples:
        rep.sample({"note": "see tlc_runs"})
    rep.exhaustive = False
    rep.extra["explanation"] = "exhaustive for the mc/exp configs (bounds in spec/stream/rt_*.cfg); random for rt_simA"
    return rep.finish()


def replay_file(path, pid="C18"):
    import json

    use_repo()
    v = json.load(open(path))
    sc = v["scenario"]
    if sc.get("cfg") == "rt_expRe.cfg":
        bad = replay_loop(sc["conf"], sc["behaviour"])
    else:
        bad = replay(sc["conf"], sc["behaviour"])
    if bad:
        print("VIOLATION property=C18 replay=%s" % path)
        for b in bad:
            print("  step=%s clause=%s signature=%s expected=%r observed=%r" % b)
        return 1
    print("replay: behaviour conforms")
    return 0
