"""X11 - details rendering (_details_to_str & co) and file-backed details (content_from_file / attach_file).

Specs: spec/extra/DetailsText.tla and spec/extra/DetailsFile.tla.

DetailsText: TLC checks the loop of _details_to_str (binary / empty / special / text lists, one iteration per action)
and the tail of the function (pad entry, special appended, "\\n".join) against a description written over whole lines
(classification of the details, sections sorted by name, a decision table for the empty lines): TypeOK,
RaisesOnlyUndecodable, WellFormed, EveryDetailOnce, SectionOrder, Headings, SortedSections, SpecialLast, SpecialBare,
RenderMeaning.  Every state is the function applied to the dict of the items seen so far; every exported behaviour is
replayed: after EVERY iteration the real _details_to_str (or TestResult._err_details_to_string, and at the end
addError / addFailure / addExpectedFailure of a real TestResult) is called on a real dict of real Content objects
holding exactly those items (inserted in a seeded random order, bytes cut into chunks at a seeded position) and the
returned string is compared character by character with the rendering of the spec's atoms.  Inputs the documentation
does not speak about (white space around a text, white-space-only text, undecodable text) are executed and compared
too, but a difference there is reported as DRIFT, never as a violation.

DetailsFile: TLC checks the buffered-chunks / signature-defaults / basename mechanism of content_from_file and
attach_file against folds over the call history (CreationMeaning, EagerMeaning, LazyMeaning, NameMeaning, TypeMeaning,
ChunkMeaning, TypeOK); every behaviour (write / delete the file, make a content either way with every buffer_now /
name / chunk_size / content_type choice, list(content.iter_bytes())) is replayed on a real file under /verif/build
with a real TestCase as the object attached to; after EVERY call: raised or not, the content type, the detail names and
the identity of the Content filed under each, the bytes and the chunk sizes read, and whether the file was opened
(the name `open` in the namespace of testtools.content is shadowed by a counting wrapper for the duration).

Documented examples: the calls `<x>.addCleanup(attach_file, ...)` shown in the docstring of attach_file and in
doc/for-test-authors.rst of the tree under test are run as written inside a real test, which must succeed and carry
the file as a detail.
"""

import os
import random
import shutil
import tempfile

from . import tlc
from .common import Report, use_repo, jdump, BUILD

PROPS = ("X11",)

DT_ACTIONS = ["Step", "Return"]
DF_ACTIONS = ["WriteFile", "DeleteFile", "Cff", "Attach", "Read"]

# ---------------------------------------------------------------------------------------------- DetailsText

WORDS = {"w1": "foo", "w2": "bär", "nl": "\n", "sp": " "}
BAD = b"\xff\xfe"  # not UTF-8; ISO-8859-1 reads it as two letters
MIME = {"jpeg": "image/jpeg", "json": "application/json"}


def _ctype(ct):
    from testtools.content_type import ContentType, UTF8_TEXT

    if ct == "jpeg":
        return ContentType("image", "jpeg")
    if ct == "json":
        return ContentType("application", "json")
    if ct == "utf8":
        return UTF8_TEXT
    if ct == "latin1":
        return ContentType("text", "plain")
    if ct == "tb":
        return ContentType("text", "x-traceback", {"language": "python", "charset": "utf8"})
    raise tlc.MachineryError("X11: unknown content type %r" % ct)


def _bytes_of(kind):
    enc = "iso-8859-1" if kind["ct"] == "latin1" else "utf-8"
    return b"".join(BAD if t == "bad" else WORDS[t].encode(enc) for t in kind["raw"])


def _text_of(tokens, ct):
    return "".join(BAD.decode("iso-8859-1") if t == "bad" else WORDS[t] for t in tokens)


def make_content(kind, rng):
    from testtools.content import Content, text_content

    data = _bytes_of(kind)
    if kind["ct"] == "utf8" and "bad" not in kind["raw"] and rng.random() < 0.5:
        return text_content(data.decode("utf-8"))
    cut = rng.randint(0, len(data))
    chunks = [data[:cut], data[cut:]]
    return Content(_ctype(kind["ct"]), lambda: list(chunks))


def render(atoms, details):
    out = []
    for k, name, ct, txt in atoms:
        if k == "nl":
            out.append("\n")
        elif k == "binhead":
            out.append("Binary content:\n")
        elif k == "binitem":
            out.append("  %s (%s)\n" % (name, MIME[ct]))
        elif k == "emptyhead":
            out.append("Empty attachments:\n")
        elif k == "emptyitem":
            out.append("  %s\n" % name)
        else:
            text = _text_of(txt, details[name]["ct"])
            if k == "inline":
                out.append("%s: {{{%s}}}" % (name, text))
            elif k == "block":
                out.append("%s: {{{\n%s\n}}}" % (name, text))
            elif k == "plain":
                out.append(text)
            else:
                raise tlc.MachineryError("X11: unknown atom %r" % k)
    return "".join(out)


class _Test:
    failureException = AssertionError

    def id(self):
        return "x11.test"


UNDOCUMENTED_LAYOUT = ("empty-lines", "ends-with-newline")


def dt_classify(exp, obs, special):
    """Name the documented sentence a wrong rendering breaks (coarse)."""
    if obs and not obs.endswith("\n"):
        return "ends-with-newline"
    el = [l for l in exp.split("\n") if l]
    ol = [l for l in obs.split("\n") if l]
    if el == ol:
        return "empty-lines"
    if sorted(el) == sorted(ol):
        def rank(l):
            if l in ("Binary content:", "Empty attachments:"):
                return 1 if l.startswith("B") else 2
            if l.startswith("  ") and l.endswith(")"):
                return 1
            if l.startswith("  "):
                return 2
            return 3

        if [rank(l) for l in ol] != sorted(rank(l) for l in ol):
            return "section-order"
        if special is not None and el and ol[-1] != el[-1]:
            return "special-last"
        return "order-by-name"
    eh = [l for l in el if l.startswith("  ") or l.endswith(":")]
    oh = [l for l in ol if l.startswith("  ") or l.endswith(":")]
    if eh != oh and sorted(set(el) - set(eh)) == sorted(set(ol) - set(oh)):
        return "binary-and-empty-listing"
    if special is not None and any(l.startswith(special + ": {{{") for l in ol):
        return "special-bare"
    return "text-attachment-format"


def dt_replay(hist, seed):
    """Return (bad, drifts): bad = None or (step index, clause, expected, observed)."""
    from testtools.testresult import real

    init = hist[0]
    details = init["details"] if isinstance(init["details"], dict) else {}
    names = init["names"]
    if sorted(names) != names or set(names) != set(details):
        raise tlc.MachineryError("X11: NameOrder of the spec is not Python's sorted() order: %r" % (names,))
    special = None if init["special"] == "none" else init["special"]
    api = init["api"]
    rng = random.Random(jdump([seed, details, special]))
    drifts = []
    for i, h in enumerate(hist[1:], 1):
        present = names[: h["n"]]
        order = list(present)
        rng.shuffle(order)
        d = {n: make_content(details[n], rng) for n in order}
        calls = []
        if api == "fn":
            if special is None and rng.random() < 0.5:
                calls.append(("_details_to_str(details)", lambda d=d: real._details_to_str(d)))
            else:
                calls.append(("_details_to_str(details, special=%r)" % special, lambda d=d: real._details_to_str(d, special=special)))
        else:
            calls.append(("TestResult._err_details_to_string(test, None, details)", lambda d=d: real.TestResult()._err_details_to_string(_Test(), None, d)))
            if h["a"] == "return":
                for meth, attr in (("addError", "errors"), ("addFailure", "failures"), ("addExpectedFailure", "expectedFailures")):
                    def via(d=d, meth=meth, attr=attr):
                        r = real.TestResult()
                        getattr(r, meth)(_Test(), details=d)
                        return getattr(r, attr)[-1][1]

                    calls.append(("TestResult.%s(test, details=details) -> %s[-1][1]" % (meth, attr), via))
        exp = "<raises>" if h["pc"] == "raised" else render(h["out"], details)
        for label, call in calls:
            try:
                obs = call()
            except tlc.MachineryError:
                raise
            except Exception as ex:
                obs = "<raises>"
                exname = type(ex).__name__
            if obs == exp:
                continue
            if not h["judged"]:
                drifts.append("X11 details text (input the documentation does not cover: %s): %s gave %r, the model %r"
                              % (dt_shape(hist, h["n"])["details"], label, obs, exp))
                return None, drifts
            if obs == "<raises>":
                return (i, "raised", exp, "%s from %s" % (exname, label)), drifts
            if not isinstance(obs, str):
                return (i, "returns-a-string", exp, repr(obs)), drifts
            clause = dt_classify(exp, obs, special)
            if clause in UNDOCUMENTED_LAYOUT:
                # where exactly empty lines stand is shown by the repository's tests and one 'something like this' example
                # only - no docstring, comment or manual sentence: not judged
                drifts.append("X11 details text (%s differ from the model, everything else agrees; layout the documentation does not state): %s gave %r, the model %r"
                              % (clause.replace("-", " "), label, obs, exp))
                return None, drifts
            return (i, clause, exp, obs), drifts
    return None, drifts


def _kind_name(kind):
    if kind["ct"] in MIME:
        return MIME[kind["ct"]]
    return "%s:%r" % (kind["ct"], "".join({"bad": "\\xff\\xfe"}.get(t, WORDS.get(t, t)) for t in kind["raw"]))


def dt_shape(hist, upto=None):
    init = hist[0]
    details = init["details"] if isinstance(init["details"], dict) else {}
    names = init["names"] if upto is None else init["names"][:upto]
    return {"details": {n: _kind_name(details[n]) for n in names}, "special": init["special"], "api": init["api"]}


def dt_nontrivial(hist):
    """Non-trivial: two or more details, or one detail that is the special one."""
    init = hist[0]
    if len(init["names"]) >= 2 or init["special"] in init["names"]:
        return jdump(dt_shape(hist))
    return None


# ---------------------------------------------------------------------------------------------- DetailsFile

DATA = {"e": b"", "s": b"some data", "big": bytes((i * 7 + 3) % 251 for i in range(4100))}


class FileWorld:
    def __init__(self, root, parts):
        self.dir = os.path.join(root, *parts[:-1])
        os.makedirs(self.dir, exist_ok=True)
        self.path = os.path.join(root, *parts)
        self.opens = 0
        if os.path.exists(self.path):
            os.remove(self.path)

    def set(self, ver):
        if ver == "absent":
            if os.path.exists(self.path):
                os.remove(self.path)
        else:
            with open(self.path, "wb") as f:
                f.write(DATA[ver])

    def counting_open(self, file, *a, **kw):
        if isinstance(file, (str, bytes, os.PathLike)) and os.path.abspath(os.fsdecode(file)) == os.path.abspath(self.path):
            self.opens += 1
        return open(file, *a, **kw)


def df_replay(hist, root):
    """Return (bad, drifts)."""
    import testtools
    from testtools import content as cmod
    from testtools.content_type import ContentType, UTF8_TEXT

    class Case(testtools.TestCase):
        def test_it(self):
            pass

    init = hist[0]
    w = FileWorld(root, init["path"])
    w.set(init["to"])
    detailed = Case("test_it")
    objs = {}
    types = {"utf8": UTF8_TEXT, "jpeg": ContentType("image", "jpeg")}
    drifts = []
    had = "open" in vars(cmod)
    saved = vars(cmod).get("open")
    cmod.open = w.counting_open
    try:
        for i, h in enumerate(hist[1:], 1):
            a = h["a"]
            w.opens = 0
            if a in ("write", "delete"):
                w.set(h["to"])
                continue
            if a in ("cff", "attach"):
                kw = {}
                if h["bn"] != "default":
                    kw["buffer_now"] = h["bn"] == "yes"
                before = dict(detailed.getDetails())
                try:
                    if a == "cff":
                        if h["ct"] != "default":
                            kw["content_type"] = types[h["ct"]]
                        if h["cs"]:
                            kw["chunk_size"] = h["cs"]
                        made = cmod.content_from_file(w.path, **kw)
                    else:
                        if h["named"]:
                            kw["name"] = h["name"]
                        made = cmod.attach_file(detailed, w.path, **kw)
                    raised = None
                except Exception as ex:
                    raised = ex
                call = "%s(%s)" % ("content_from_file" if a == "cff" else "attach_file", ", ".join("%s=%r" % kv for kv in sorted(kw.items())))
                eager = (h["bn"] == "yes") if a == "cff" else (h["bn"] != "no")
                if h["res"] == "raises":
                    if raised is None:
                        return (i, "eager-reads-at-creation", "%s raises: the file does not exist" % call, "returned"), drifts
                    if not isinstance(raised, OSError):
                        drifts.append("X11 file details: %s on a missing file raised %s (model: an OSError)" % (call, type(raised).__name__))
                    if dict(detailed.getDetails()) != before:
                        return (i, "failed-attach-files-nothing", sorted(before), sorted(detailed.getDetails())), drifts
                    continue
                if raised is not None:
                    clause = "lazy-creation-does-not-read" if not eager else "raised"
                    return (i, clause, "%s returns" % call, "%s: %s" % (type(raised).__name__, raised)), drifts
                if not eager and w.opens:
                    return (i, "lazy-creation-does-not-read", "%s does not open the file" % call, "opened it %d time(s)" % w.opens), drifts
                if eager and w.opens != h["opens"]:
                    drifts.append("X11 file details: %s opened the file %d time(s) (model: %d)" % (call, w.opens, h["opens"]))
                if a == "attach":
                    got = detailed.getDetails()
                    if made is not None:
                        drifts.append("X11 file details: attach_file returned %r (model: None)" % (made,))
                    if set(got) != set(h["dets"]):
                        return (i, "detail-name", sorted(h["dets"]), sorted(got)), drifts
                    made = got[h["name"]]
                    if any(made is o for o in objs.values()):
                        return (i, "detail-name", "a new Content filed under %r" % h["name"], "an earlier one"), drifts
                    objs[h["idx"]] = made
                    wrong = [n for n, c in h["dets"].items() if got[n] is not objs[c]]
                    if wrong:
                        return (i, "detail-name", "details %r" % h["dets"], "other Content objects under %r" % wrong), drifts
                else:
                    objs[h["idx"]] = made
                if made.content_type != types[h["ctype"]]:
                    return (i, "content-type", repr(types[h["ctype"]]), repr(made.content_type)), drifts
                continue
            if a != "read":
                raise tlc.MachineryError("X11: unknown action %r" % a)
            c = objs[h["c"]]
            try:
                chunks = list(c.iter_bytes())
                obs = b"".join(chunks)
            except Exception as ex:
                chunks, obs = None, ex
            eager = h["opens"] == 0
            allowed = list(h["allowed"])
            if eager:
                if isinstance(obs, Exception):
                    return (i, "eager-content", "the %d bytes the file held at creation" % len(DATA[h["ver"]]), "%s: %s" % (type(obs).__name__, obs)), drifts
                if obs != DATA[h["ver"]]:
                    return (i, "eager-content", "the bytes the file held at creation (%r...)" % DATA[h["ver"]][:12], "%r... (%d bytes)" % (obs[:12], len(obs))), drifts
                if w.opens:
                    drifts.append("X11 file details: reading a buffered content opened the file %d time(s)" % w.opens)
                ver = h["ver"]
            else:
                if isinstance(obs, Exception):
                    if "absent" not in allowed:
                        return (i, "lazy-content", "the bytes of the file at a serialisation", "%s: %s" % (type(obs).__name__, obs)), drifts
                    if not isinstance(obs, OSError):
                        drifts.append("X11 file details: reading a content whose file is missing raised %s (documented by the tests: IOError)" % type(obs).__name__)
                    ver = "absent"
                else:
                    match = [v for v in allowed if v != "absent" and DATA[v] == obs]
                    if not match:
                        return (i, "lazy-content", "what the file held at one of the serialisations: %s" % allowed, "%r... (%d bytes)" % (obs[:12], len(obs))), drifts
                    ver = h["ver"] if h["ver"] in match else match[0]
                if ver != h["ver"]:
                    drifts.append("X11 file details: a lazily read content gave the file as of an EARLIER serialisation (%s), the model reads it anew (%s)" % (ver, h["ver"]))
                    continue
            if ver != "absent":
                sizes = [len(x) for x in chunks]
                if sizes != h["chunks"]:
                    return (i, "chunk-size", h["chunks"], sizes), drifts
        return None, drifts
    finally:
        if had:
            cmod.open = saved
        else:
            del cmod.open


def df_shape(hist):
    out = []
    for h in hist:
        a = h["a"]
        if a == "init":
            out.append("file=%s" % h["to"])
        elif a == "write":
            out.append("write(%s)" % h["to"])
        elif a == "delete":
            out.append("delete")
        elif a == "cff":
            out.append("content_from_file(buffer_now=%s%s%s)" % (h["bn"], ", chunk_size=%d" % h["cs"] if h["cs"] else "", ", image/jpeg" if h["ct"] != "default" else ""))
        elif a == "attach":
            out.append("attach_file(buffer_now=%s%s)" % (h["bn"], ", name" if h["named"] else ""))
        else:
            out.append("read#%d" % h["c"])
    return out


def df_nontrivial(hist):
    """Non-trivial: a content is read after the file changed or vanished since the content was made, or a creation fails."""
    made = {}
    changed = set()
    for h in hist[1:]:
        if h["a"] in ("cff", "attach"):
            if h["res"] == "raises":
                return jdump(df_shape(hist))
            made[h["idx"]] = True
        elif h["a"] in ("write", "delete"):
            changed |= set(made)
        elif h["a"] == "read" and h["c"] in changed:
            return jdump(df_shape(hist))
    return None


_EXAMPLE_RE = r"(\w+)\.addCleanup\(\s*attach_file\s*,\s*([^,()]+?)\s*,\s*([^,()]+?)\s*\)"


def doc_examples():
    """The documented ways of using attach_file as a cleanup, as written in the tree under test:
    [(source, text of the call, position of the object attached to among attach_file's arguments)]."""
    import re

    from testtools import content as cmod
    from .common import repo_path

    out = []
    sources = [("docstring of testtools.content.attach_file", cmod.attach_file.__doc__ or "")]
    rst = os.path.join(repo_path(), "doc", "for-test-authors.rst")
    if os.path.exists(rst):
        with open(rst, encoding="utf-8") as f:
            sources.append(("doc/for-test-authors.rst", f.read()))
    for src, text in sources:
        for m in re.finditer(_EXAMPLE_RE, text):
            owner, a1, a2 = m.group(1), m.group(2), m.group(3)
            if (a1 == owner) == (a2 == owner):
                continue  # cannot tell which argument is the object attached to: not judged
            out.append((src, m.group(0), 0 if a1 == owner else 1))
    return out


def doc_example_replay(example, root):
    """Run the documented call inside a real test: the test must succeed and carry the file as a detail."""
    import testtools
    from testtools import content as cmod

    src, text, pos = example
    w = FileWorld(root, ["doc", "foo.txt"])
    w.set("s")

    class Case(testtools.TestCase):
        def test_it(self):
            args = [w.path, w.path]
            args[pos] = self
            self.addCleanup(cmod.attach_file, *args)

    case = Case("test_it")
    result = testtools.TestResult()
    case.run(result)
    problems = [str(x[1]).strip().splitlines()[-1] for x in result.errors + result.failures]
    if problems:
        return ("documented-example", "%s: the test using `%s` succeeds and gets the file attached" % (src, text), "the test errors: %s" % problems[0])
    if "foo.txt" not in case.getDetails():
        return ("documented-example", "%s: `%s` attaches the file as detail 'foo.txt'" % (src, text), "details: %r" % sorted(case.getDetails()))
    return None


# ---------------------------------------------------------------------------------------------- driver


def _signature(part, clause, observed):
    extra = ""
    if clause == "raised":
        extra = ":" + str(observed).split(" ", 1)[0].rstrip(":")
    return "x11:%s:%s%s" % (part, clause, extra)


def run(tier, pid="X11"):
    use_repo()
    rep = Report(
        "X11",
        tier,
        "model_checking",
        "DetailsText: every details dict over 3 names x 11 content kinds (image/jpeg, application/json, text/plain utf8: empty, "
        "one line, several lines, one line + newline, white space only, white space around, not UTF-8; text/plain without charset "
        "(ISO-8859-1); text/x-traceback several lines + newline) with special None / 'traceback', and over 4 names (upper case, "
        "'log-9', 'traceback', 'tz') x 5 kinds with special 'log-9' or through TestResult._err_details_to_string / addError / "
        "addFailure / addExpectedFailure; the rendering is compared after every item of the sorted loop (on the dict of the items "
        "seen so far). DetailsFile: every history of up to 4 (exhaustive) / 9 (random) calls of write / delete the file, "
        "content_from_file / attach_file with each buffer_now (default, True, False), name, chunk_size, content_type choice, "
        "list(iter_bytes()). Non-trivial = a dict with two or more details or a special detail; a history where a content is "
        "read after the file changed or a creation fails; distinct by (dict, special, api) / call sequence.",
    )
    rep.assume("only inputs the documentation covers are judged: text without surrounding white space, and one trailing newline on the special detail (tracebacks end with one; for-test-authors.rst shows no empty line after it); white-space-only text, other surrounding white space and undecodable text are executed and compared, a difference is DRIFT")
    rep.assume("the exact placing of empty lines (after a several-line attachment, before the special one, after the listings) and the final newline generalise the expectations of TestDetailsToStr and the example of for-test-authors.rst; no docstring, comment or manual sentence states them, so a rendering that differs from the model in empty lines only is DRIFT, not a violation")
    rep.assume("'sorted is for testing' (comment in _details_to_str) is taken as: the items of each section come in the order of their names")
    rep.assume("for buffer_now=False the documentation promises that the file is not read before iter_bytes is called; a read is accepted when it equals the file as of ANY serialisation of that content so far (the code: the current one)")
    rep.assume("opening of the file is observed by shadowing the name `open` in the namespace of testtools.content; the file lives under /verif/build")
    root = tempfile.mkdtemp(prefix="x11-", dir=BUILD if os.path.isdir(BUILD) else None)
    quick = tier == "quick"
    jobs = [
        ("MCDetailsText", "dt_mc.cfg", {}, DT_ACTIONS, None),
        ("MCDetailsText", "dt_expA.cfg", {}, DT_ACTIONS, "text"),
        ("MCDetailsText", "dt_expB.cfg", {}, DT_ACTIONS, "text"),
        ("MCDetailsFile", "dt_file_exp.cfg", {}, DF_ACTIONS, "file"),
        ("MCDetailsFile", "dt_file_sim.cfg", dict(simulate=dict(num=100 if quick else 5000, depth=12), seed=rep.seed + 1), None, "file"),
    ]
    sampled = {}
    try:
        for mod, cfg, kw, actions, kind in jobs:
            r = tlc.run_tlc("extra", mod, cfg, coverage=True, timeout=600, workers=4, **kw)
            tlc.require_ok(r, "X11 " + cfg)
            if actions:
                tlc.require_coverage(r, actions, "X11 " + cfg)
            rep.add_tlc(r, cfg)
            if kind is None:
                continue
            nb = 0
            for hist in tlc.exported(r):
                nb += 1
                if kind == "text":
                    nk = dt_nontrivial(hist)
                    bad, drifts = dt_replay(hist, rep.seed)
                    shape = dt_shape
                else:
                    nk = df_nontrivial(hist)
                    bad, drifts = df_replay(hist, root)
                    shape = df_shape
                if nk and sampled.get(kind, 0) < (3 if kind == "text" else 2) and nb >= 777 * (sampled.get(kind, 0) + 1):
                    sampled[kind] = sampled.get(kind, 0) + 1
                    rep.sample({kind: shape(hist)}, force=True)
                rep.case(nontrivial_key=nk)
                rep.traces += 1
                for d in drifts:
                    if len(rep.drift) < 6 and not any(x.startswith(d[:70]) for x in rep.drift):
                        rep.note_drift(d)
                    rep.extra["drift_count"] = rep.extra.get("drift_count", 0) + 1
                if bad:
                    i, clause, exp, obs = bad
                    cut = hist[: i + 1]
                    rep.violation(clause, _signature(kind, clause, obs), {"kind": kind, "behaviour": cut, "cfg": cfg, "seed": rep.seed}, expected=exp, observed=obs)
            if nb == 0:
                raise tlc.MachineryError("X11 %s exported no behaviours" % cfg)
        for ex in doc_examples():
            rep.case(sample=None, nontrivial_key="doc-example:" + ex[0])
            bad = doc_example_replay(ex, root)
            if bad:
                clause, exp, obs = bad
                rep.violation(clause, "x11:doc:attach_file-example-argument-order" if "TypeError" in obs or "AttributeError" in obs else "x11:doc:" + clause,
                              {"kind": "doc", "example": list(ex)}, expected=exp, observed=obs)
    finally:
        shutil.rmtree(root, ignore_errors=True)
    if not rep.samples:
        rep.sample({"note": "see tlc_runs"})
    rep.exhaustive = False
    rep.extra["explanation"] = "exhaustive for dt_mc / dt_expA / dt_expB / dt_file_exp (bounds in spec/extra/dt_*.cfg, MCDetailsText.tla, MCDetailsFile.tla); random for dt_file_sim.cfg"
    return rep.finish()


def replay_file(path, pid="X11"):
    import json

    use_repo()
    v = json.load(open(path))
    sc = v["scenario"]
    if sc["kind"] == "text":
        bad, _ = dt_replay(sc["behaviour"], sc.get("seed", 0))
    elif sc["kind"] == "doc":
        root = tempfile.mkdtemp(prefix="x11-", dir=BUILD if os.path.isdir(BUILD) else None)
        try:
            bad = doc_example_replay(tuple(sc["example"]), root)
            bad = bad and (0,) + bad
        finally:
            shutil.rmtree(root, ignore_errors=True)
    else:
        root = tempfile.mkdtemp(prefix="x11-", dir=BUILD if os.path.isdir(BUILD) else None)
        try:
            bad, _ = df_replay(sc["behaviour"], root)
        finally:
            shutil.rmtree(root, ignore_errors=True)
    if bad:
        print("VIOLATION property=X11 replay=%s" % path)
        print("  step=%s clause=%s expected=%r observed=%r" % bad)
        return 1
    print("replay: behaviour conforms")
    return 0
