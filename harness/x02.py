"""X02 - getUniqueInteger / getUniqueString / _reset (via run()) and unique_text_generator.

Specs: spec/extra/UniqueVals.tla (one counter consumed by both calls and replaced by _reset, checked against
IntsDistinctIncreasing, StringsDistinct, StringShape, ResetStartsOver, EpochPerRun) and spec/extra/UniqueText.tla
(the divmod digit loop, checked against NoRepeat, Decodes, Canonical).  Every exported behaviour - calls outside
and inside run(), spread over setUp / test method / cleanup, with re-runs of the same instance - is replayed into
a real testtools.TestCase; every value handed out is compared with the documented predicates and with what a
never-run instance hands out at the same position.  unique_text_generator is replayed draw by draw.
"""

from . import tlc
from .common import Report, use_repo, jdump

PROPS = ("X02",)

_probe_cls = None


def probe_class():
    global _probe_cls
    if _probe_cls is None:
        import testtools

        class Probe(testtools.TestCase):
            script = ()  # list of (stage, kind, prefix-or-None, sink index)
            sink = None

            def _do(self, stage):
                for st, kind, prefix, k in self.script:
                    if st == stage:
                        self.sink[k] = call(self, kind, prefix)

            def setUp(self):
                super().setUp()
                self.addCleanup(self._do, 3)
                self._do(1)

            def test_body(self):
                self._do(2)

        _probe_cls = Probe
    return _probe_cls


def call(case, kind, prefix):
    try:
        if kind == "int":
            return ("ok", case.getUniqueInteger())
        if prefix == "none":
            return ("ok", case.getUniqueString())
        return ("ok", case.getUniqueString(prefix))
    except Exception as ex:
        return ("raised", "%s: %s" % (type(ex).__name__, ex))


def fresh_reference(n):
    """What a never-run instance hands out at positions 1..n."""
    c = probe_class()("test_body")
    return [c.getUniqueInteger() for _ in range(n)]


def replay_vals(hist):
    """Return None or (index, clause, expected, observed); second value: drift text or None."""
    import testtools

    case = probe_class()("test_body")
    tid = case.id()
    ncalls = sum(1 for h in hist if h["a"] in ("int", "str"))
    ref = fresh_reference(ncalls + 1)
    got = {}
    pending = []

    def flush():
        if not pending:
            return None
        case.script = [(hist[k]["stage"], hist[k]["a"], hist[k]["arg"], k) for k in pending if hist[k]["a"] in ("int", "str")]
        case.sink = got
        res = testtools.TestResult()
        case.run(res)
        missing = [k for _, _, _, k in case.script if k not in got]
        del pending[:]
        if missing:
            return (missing[0], "run-executes-stage", "call executed", "not executed; errors=%r" % [e[1][-300:] for e in res.errors])
        return None

    inrun = False
    for i, h in enumerate(hist):
        a = h["a"]
        if a == "begin_run":
            inrun = True
            pending.append(i)
        elif a == "end_run":
            bad = flush()
            if bad:
                return bad, None
            inrun = False
        elif a == "next_stage":
            pass
        elif inrun:
            pending.append(i)
        else:
            got[i] = call(case, a, h["arg"])
    bad = flush()
    if bad:
        return bad, None
    # verdicts, call by call
    drift = None
    epoch_ints = []
    epoch_strs = set()
    for i, h in enumerate(hist):
        a = h["a"]
        if a == "begin_run":
            epoch_ints, epoch_strs = [], set()
            continue
        if a not in ("int", "str"):
            continue
        status, v = got[i]
        if status != "ok":
            return (i, "raised", None, v), None
        if a == "int":
            if type(v) is not int:
                return (i, "integer-type", "int", repr(v)), None
            k = v
            spec_n = h["out"]
        else:
            shown = tid if h["arg"] == "none" else h["arg"]
            if not isinstance(v, str):
                return (i, "string-type", "str", repr(v)), None
            head, sep, tail = v.rpartition("-")
            if sep != "-" or head != shown or not tail.isdigit():
                return (i, "string-shape", "%s-<int>" % shown, v), None
            k = int(tail)
            if v in epoch_strs:
                return (i, "strings-distinct", "a new string", v), None
            epoch_strs.add(v)
            spec_n = h["out"][1]
        if epoch_ints and k <= epoch_ints[-1]:
            return (i, "integers-increase", "> %d" % epoch_ints[-1], k), None
        epoch_ints.append(k)
        pos = h["pos"]
        if k != ref[pos - 1]:
            clause = "reset-starts-over" if h["ep"] > 0 else "new-instances-alike"
            return (i, clause, ref[pos - 1], k), None
        if k != spec_n and drift is None:
            drift = "X02: integer at position %d is %d, the specification says %d (not a documented value)" % (pos, k, spec_n)
    return None, drift


BASE = 0x1E00


def text_of(prefix, digits):
    return prefix + "-" + "".join(chr(BASE + d) for d in digits)


def replay_text(hist, radix):
    """Radix 256: the real generators, one per prefix, drawn in the exported interleaving.
    Other radix: the private helper _unique_text (DRIFT only when it is missing or differs)."""
    from testtools import testcase

    drift = None
    if radix != 256:
        f = getattr(testcase, "_unique_text", None)
        if f is None:
            return None, "X02: testcase._unique_text is gone; radix-%d digits not replayed" % radix
        for i, h in enumerate(hist):
            try:
                v = f(BASE, radix, h["i"])
            except Exception as ex:
                return None, "X02: _unique_text raised %r" % (ex,)
            if v != text_of("", h["t"])[1:]:
                return None, "X02: _unique_text(radix %d, %d) = %r, specification digits %r" % (radix, h["i"], v, h["t"])
        return None, None
    gens = {}
    seen = {}
    for i, h in enumerate(hist):
        g = h["g"]
        if g not in gens:
            gens[g] = testcase.unique_text_generator(g)
            seen[g] = set()
        try:
            v = next(gens[g])
        except Exception as ex:
            return (i, "raised", None, "%s: %s" % (type(ex).__name__, ex)), None
        if not isinstance(v, str) or not v.startswith(g + "-") or len(v) <= len(g) + 1:
            return (i, "text-shape", g + "-<text>", repr(v)), None
        if not any(ord(c) > 127 for c in v[len(g) + 1 :]):
            return (i, "text-with-unicode", "non-ASCII text after the prefix", repr(v)), None
        if v in seen[g]:
            return (i, "text-unique", "a text not generated before", repr(v)), None
        seen[g].add(v)
        if v != text_of(g, h["t"]) and drift is None:
            drift = "X02: unique_text_generator(%r) value %d is %r, the specification says %r" % (g, h["i"], v, text_of(g, h["t"]))
    return None, drift


def deep_text(n):
    """n draws from one real generator: shape and distinctness (mirrors ut_mcBig.cfg)."""
    from testtools import testcase

    g = testcase.unique_text_generator("deep")
    seen = set()
    for i in range(n):
        v = next(g)
        if not v.startswith("deep-") or len(v) < 6:
            return (i, "text-shape", "deep-<text>", repr(v))
        if v in seen:
            return (i, "text-unique", "a text not generated before", repr(v))
        seen.add(v)
    return None


def shape(hist):
    out = []
    for h in hist:
        if h["a"] == "str":
            out.append("str(%s)" % ("" if h["arg"] == "none" else repr(h["arg"])))
        else:
            out.append(h["a"])
    return out


def nontrivial_key(hist):
    """Non-trivial: calls on both sides of a run() boundary, two runs, calls in two stages of one run, or two
    strings with the same prefix in one epoch."""
    acts = [h["a"] for h in hist]
    calls_before = False
    across = False
    n = 0
    for a in acts:
        if a in ("int", "str"):
            n += 1
            if calls_before:
                across = True
        if a == "begin_run" and n:
            calls_before = True
    two_runs = acts.count("begin_run") >= 2
    staged = "next_stage" in acts and n >= 2
    same = False
    cur = []
    for h in hist:
        if h["a"] == "begin_run":
            cur = []
        if h["a"] == "str":
            if h["arg"] in cur:
                same = True
            cur.append(h["arg"])
    if across or two_runs or staged or same:
        return jdump(shape(hist))
    return None


def signature(hist, clause, observed):
    last = hist[-1]
    where = "ep%s" % ("0" if last.get("ep", 0) == 0 else "N")
    arg = ""
    if last.get("a") == "str":
        arg = ":prefix=%s" % {"none": "omitted", "": "empty"}.get(last["arg"], "given")
    extra = ""
    if clause == "raised":
        extra = ":" + str(observed).split(":", 1)[0]
    return "x02:%s:%s%s:%s%s" % (clause, last.get("a", "draw"), arg, where, extra)


def run(tier, pid="X02"):
    use_repo()
    rep = Report(
        "X02",
        tier,
        "model_checking",
        "behaviours = sequences of getUniqueInteger / getUniqueString(prefix omitted | '' | given) calls on one "
        "TestCase instance, outside run() and inside it (setUp / test method / cleanup), with up to 3 (sim: 5) run() "
        "calls of the same instance; and draws from one or two unique_text_generator objects; exported by TLC "
        "(exhaustive up to the bounds of spec/extra/uv_exp*.cfg, ut_*.cfg) or tlc -simulate and replayed call by call. "
        "Non-trivial = calls on both sides of a run() boundary, two runs, two stages, or a repeated prefix; distinct by call sequence.",
    )
    rep.assume("'as if it had never been run' is checked by comparing the value at each position of a run's epoch with what a second, never-run instance of the same class hands out at that position")
    rep.assume("the exact integers and glyphs are not documented: a difference from the specification's numbers is reported as DRIFT as long as the documented predicates hold")
    rep.assume("copies of a TestCase (clone_test_with_new_id shares the counter object) are not explored")
    jobs = [
        ("MCUniqueVals", "uv_mcA.cfg", {}, None),
        ("MCUniqueVals", "uv_expA.cfg", {}, "vals"),
        ("MCUniqueVals", "uv_expB.cfg", {}, "vals"),
        ("MCUniqueVals", "uv_sim.cfg", dict(simulate=dict(num=100 if tier == "quick" else 3000, depth=20), seed=rep.seed + 1), "vals"),
        ("MCUniqueText", "ut_mc3.cfg", {}, None),
        ("MCUniqueText", "ut_mcBig.cfg", {}, None),
        ("MCUniqueText", "ut_mc256.cfg", {}, 256),
        ("MCUniqueText", "ut_exp256.cfg", {}, 256),
        ("MCUniqueText", "ut_exp3.cfg", {}, 3),
    ]
    acts = {
        "MCUniqueVals": ["GetInt", "GetStr", "BeginRun", "EndRun"],
        "MCUniqueText": ["Draw"],
    }
    for mod, cfg, kw, how in jobs:
        r = tlc.run_tlc("extra", mod, cfg, coverage=True, timeout=600, workers=4, **kw)
        tlc.require_ok(r, "X02 " + cfg)
        if "simulate" not in kw:
            tlc.require_coverage(r, acts[mod], "X02 " + cfg)
        rep.add_tlc(r, cfg)
        if how is None:
            continue
        nb = 0
        for hist in tlc.exported(r):
            nb += 1
            if how == "vals":
                bad, drift = replay_vals(hist)
                nk = nontrivial_key(hist)
                sample = {"calls": shape(hist)} if nk and rep.evaluations % 5000 == 13 else None
            else:
                bad, drift = replay_text(hist, how)
                nk = jdump([cfg, [h["g"] for h in hist]]) if len(hist) > 1 else None
                sample = {"draws": ["%s#%d" % (h["g"], h["i"]) for h in hist[:12]], "radix": how} if rep.evaluations % 100 == 7 else None
            rep.case(sample=sample, nontrivial_key=nk)
            rep.traces += 1
            if drift:
                rep.note_drift(drift)
            if bad:
                i, clause, exp, obs = bad
                cut = hist[: i + 1]
                rep.violation(clause, signature(cut, clause, obs), {"behaviour": hist, "at": i, "cfg": cfg, "how": how}, expected=exp, observed=obs)
        if nb == 0:
            raise tlc.MachineryError("X02 %s exported no behaviours" % cfg)
    bad = deep_text(70000)
    rep.case(sample={"deep": "70000 draws from one real generator, pairwise different"}, nontrivial_key="deep-70000")
    if bad:
        i, clause, exp, obs = bad
        rep.violation(clause, "x02:%s:draw:deep" % clause, {"deep": i, "how": "deep"}, expected=exp, observed=obs)
    rep.exhaustive = False
    rep.extra["explanation"] = "exhaustive for the mc/exp configs (bounds in spec/extra/uv_*.cfg, ut_*.cfg); random for uv_sim.cfg"
    return rep.finish()


def replay_file(path, pid="X02"):
    import json

    use_repo()
    v = json.load(open(path))
    sc = v["scenario"]
    if sc.get("how") == "deep":
        bad = deep_text(70000)
    elif sc["how"] == "vals":
        bad, _ = replay_vals(sc["behaviour"])
    else:
        bad, _ = replay_text(sc["behaviour"], sc["how"])
    if bad:
        print("VIOLATION property=X02 replay=%s" % path)
        print("  step=%s clause=%s expected=%r observed=%r" % bad)
        return 1
    print("replay: behaviour conforms")
    return 0
