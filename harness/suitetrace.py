"""Trace validation of the repository's OWN test suite (hooks: TESTTOOLS_VERIF=1, commit "verification hooks").

Runs a selection of the repository's test modules under pytest with the hooks on, groups the emitted events
into one trace per RunTest._run_prepared_result call, and has TLC validate every trace against
spec/lifecycle/RunTestObs.tla (control skeleton of RunTest.tla + the C01/C03 predicates)."""

import json
import os
import subprocess
import tempfile

from . import tlc
from .common import BUILD, repo_path

# modules whose tests run real TestCases through RunTest
MODULES = [
    "testtools/tests/test_testcase.py",
    "testtools/tests/test_runtest.py",
    "testtools/tests/test_fixturesupport.py",
    "testtools/tests/test_with_with.py",
    "testtools/tests/test_assert_that.py",
    "testtools/tests/test_testsuite.py",
    "testtools/tests/matchers",
    "testtools/tests/twistedsupport",
]


def collect(modules=MODULES):
    os.makedirs(BUILD, exist_ok=True)
    fd, path = tempfile.mkstemp(prefix="suite-", suffix=".trace", dir=BUILD)
    os.close(fd)
    os.unlink(path)
    env = dict(os.environ)
    env["TESTTOOLS_VERIF"] = "1"
    env["TESTTOOLS_VERIF_TRACE"] = path
    env["PYTHONPATH"] = repo_path()
    p = subprocess.run(
        ["/venv/bin/python", "-m", "pytest", "-q", "-p", "no:cacheprovider", "--timeout=900", "-x", "--co", "-q"] + modules,
        cwd=repo_path(), env=env, stdout=subprocess.PIPE, stderr=subprocess.STDOUT, text=True,
    )
    if os.path.exists(path):
        os.unlink(path)  # collection may already run code
    p = subprocess.run(
        ["/venv/bin/python", "-m", "pytest", "-q", "-p", "no:cacheprovider", "--timeout=900"] + modules,
        cwd=repo_path(), env=env, stdout=subprocess.PIPE, stderr=subprocess.STDOUT, text=True,
    )
    summary = p.stdout.strip().split("\n")[-1]
    events = []
    if os.path.exists(path):
        with open(path) as f:
            for line in f:
                try:
                    events.append(json.loads(line))
                except ValueError:
                    pass
        os.unlink(path)
    return events, summary


def group(events):
    """-> (traces, skipped) ; one trace per run id (per process)."""
    by_pid = {}
    for e in events:
        by_pid.setdefault(e["pid"], []).append(e)
    traces, skipped = [], 0
    for pid, evs in by_pid.items():
        evs.sort(key=lambda e: e["seq"])
        runs = {}
        for e in evs:
            if e["ev"] == "run":
                runs[e["run"]] = {"res": e["res"], "runner": e["runner"], "start": e["seq"], "end": None, "events": []}
            elif e["ev"] == "end" and e.get("run") in runs:
                runs[e["run"]]["end"] = e["seq"]
        for rid, r in runs.items():
            if r["end"] is None:
                skipped += 1  # the process died or run() was abandoned mid-way (not a RunTest exit)
                continue
            out = []
            for e in evs:
                if e["seq"] <= r["start"] or e["seq"] > r["end"]:
                    continue
                if e["ev"] == "result":
                    if e["res"] == r["res"]:
                        out.append({"ev": "result", "name": e["name"], "kind": "none"})
                elif e.get("run") == rid:
                    out.append({"ev": e["ev"], "name": e.get("name", "none"), "kind": e.get("kind", "none")})
            if not any(x["ev"] == "result" for x in out):
                skipped += 1  # result is not an ExtendedToOriginalDecorator: nothing observable
                continue
            if not any(x["ev"] in ("unit", "caught", "select") or (x["ev"] == "result" and x["name"].startswith("add")) for x in out):
                skipped += 1  # _run_core stubbed out by a test of the machinery itself: no user code, no outcome
                continue
            traces.append(
                {
                    "events": out,
                    "plain": r["runner"] == "RunTest",
                    "sawUnits": any(x["ev"] == "unit" for x in out),
                    "runner": r["runner"],
                }
            )
    return traces, skipped


def validate(rep, traces, workers=8):
    fd, path = tempfile.mkstemp(prefix="obs-", suffix=".json", dir=BUILD)
    try:
        with os.fdopen(fd, "w") as f:
            json.dump(traces, f)
        r = tlc.run_tlc("lifecycle", "RunTestObs", "rt_obs.cfg", env={"TRACE_FILE": path}, workers=workers,
                        timeout=1800, collect=("VERDICT",))
    finally:
        os.unlink(path)
    tlc.require_ok(r, "suite trace validation")
    rep.add_tlc(r, "rt_obs.cfg (%d suite traces)" % len(traces))
    out = {}
    for t in r.printed:
        out[t[1]] = json.loads(t[2])
    return out


CLAUSE_PROP = {"order": "C02", "c01_bracket": "C01", "c01_base": "C01", "c03_sound": "C03"}


def run(rep, pid):
    """Add the suite-trace evidence (and violations of `pid`) to an existing Report."""
    events, summary = collect()
    traces, skipped = group(events)
    if len(traces) < 200:
        raise tlc.MachineryError("suite tracing produced only %d traces (%s)" % (len(traces), summary))
    # binding self-test: a corrupted copy of a recorded trace (outcome event removed / stages swapped) must be rejected
    probe = next(t for t in traces if t["plain"] and any(e["ev"] == "unit" and e["name"] == "_run_teardown" for e in t["events"]))
    no_outcome = dict(probe, events=[e for e in probe["events"] if not (e["ev"] == "result" and e["name"].startswith("add"))])
    swapped = dict(probe, events=list(probe["events"]))
    iu = [i for i, e in enumerate(swapped["events"]) if e["ev"] == "unit" and e["name"] in ("_run_test_method", "_run_teardown")]
    swapped["events"][iu[0]], swapped["events"][iu[1]] = swapped["events"][iu[1]], swapped["events"][iu[0]]
    traces = traces + [no_outcome, swapped]
    verdicts = validate(rep, traces)
    if verdicts[len(traces) - 1]["c01_bracket"] or verdicts[len(traces)]["order"]:
        raise tlc.MachineryError("corrupted suite traces were accepted: the trace spec does not bind")
    traces = traces[:-2]
    rep.extra["suite_trace_selftest"] = "outcome-removed trace rejected (c01_bracket), stage-swapped trace rejected (order)"
    n_bad = 0
    for i, tr in enumerate(traces):
        v = verdicts.get(i + 1)
        if v is None:
            raise tlc.MachineryError("suite trace %d got no verdict" % i)
        rep.traces += 1
        for clause, prop in CLAUSE_PROP.items():
            if prop != pid or v[clause]:
                continue
            n_bad += 1
            shape = [e["ev"] + ":" + (e["name"] if e["ev"] in ("result", "unit") else e["kind"]) for e in tr["events"]]
            rep.violation(
                "suite-" + clause,
                "suite-%s:%s:%s" % (clause, tr["runner"], "+".join(sorted(set(s for s in shape if s.startswith("caught"))))),
                {"events": shape, "runner": tr["runner"]},
                expected=None,
                observed=v,
            )
    rep.extra["suite_traces"] = {"validated": len(traces), "skipped": skipped, "pytest": summary}
    return n_bad
