"""C13 - concurrent suites run every sub-suite once, deliver every event, and terminate.

Specs: spec/conc/ConcSuite.tla (ConcurrentTestSuite) and spec/conc/ConcStreamSuite.tla
(ConcurrentStreamTestSuite + StreamToQueue/TimestampingStreamResult).  TLC model-checks EachOnce,
ReturnsAfterAll, EventsOnceInOrder, OneAtATime / StreamFields, BrokenReported, AbortTellsAll, deadlock freedom and
termination under weak fairness.  Binding as for C12:

  B2  the real suites run under harness/sched.py: the scheduler's Thread/Queue/Semaphore are installed in
      `threading`, `queue` and `testtools.testsuite` around the call; make_tests is a scripted generator (may raise
      after k sub-suites), sub-suites are scripted objects reporting PlaceHolder tests / raw stream events or
      raising from run(); the caller's stream result can raise at its n-th event; KeyboardInterrupt can be delivered
      in the main thread's queue.get.  Schedules: depth-first over the implementation's enabled threads with a
      preemption bound, then random walks.  Every execution is validated by TLC (ConcSuiteTrace /
      ConcStreamSuiteTrace) with every invariant; after run() returns no worker may be alive.
  B1  behaviours exported by TLC (exhaustive for tiny instances, `-simulate` beyond) are replayed step by step:
      the named thread must be enabled and the projected state must equal the exported one.
"""

import json
import random

from . import sched as S
from . import tlc
from .common import Report, use_repo, jdump, sig_hash
from .tracecheck import Validator

PROPS = ("C13",)

NOFAULT = 99
FREE = 99
BROKEN = 9
NOMSG = {"kind": "none", "w": 0, "id": 0, "st": "none", "sub": False, "code": "none"}
NOCE = {"w": 0, "id": 0, "st": "none", "code": "none", "sub": False, "ts": False}
NOENTRY = {"thr": 0, "call": "none", "v": 0, "h": 0}


OUTCOME = {"ok": "addSuccess", "er": "addError"}


import datetime

RAW_TIME = datetime.datetime(2002, 2, 2, tzinfo=datetime.timezone.utc)
T0 = datetime.datetime(2001, 1, 1, tzinfo=datetime.timezone.utc)


class MakeFault(Exception):
    pass


class CallerFault(Exception):
    pass


class ScriptedRunError(Exception):
    pass


class WorkerExit(BaseException):
    """run() of a sub-suite raising something that is not an Exception (raises = 'base')."""


def tid_of(w, i, pfx="w"):
    return "%s%d_t%d" % (pfx, w, i)


class SubSuite:
    """A scripted sub-suite (distinct, hashable)."""

    def __init__(self, ex, w, tests, raises, pfx="w"):
        self.ex = ex
        self.w = w
        self.tests = tests
        self.raises = raises
        self.pfx = pfx  # "x": a sub-suite of an EARLIER run() on the same suite object

    def __repr__(self):
        return "<sub-suite %d>" % self.w

    def countTestCases(self):
        return len(self.tests)

    def run(self, result):
        from testtools import PlaceHolder

        self.ex.sch.note(ran=self.w)
        for i, t in enumerate(self.tests, 1):
            if t == "raw":
                result.status(test_id=tid_of(self.w, i, self.pfx), test_status="success", route_code="sub")
            elif t == "rawn":
                # every keyword spelled out, the timestamp explicitly None (e.g. a relayed recorded stream)
                result.status(test_id=tid_of(self.w, i, self.pfx), test_status="success", test_tags=None, runnable=True,
                              file_name=None, file_bytes=None, eof=False, mime_type=None, route_code=None,
                              timestamp=None)
            elif t == "rawt":
                result.status(test_id=tid_of(self.w, i, self.pfx), test_status="success", timestamp=RAW_TIME)
            elif t == "timed":
                # explicit times, the worker's own tag, and a pause between startTest and the outcome so that tests
                # of different workers overlap
                test = PlaceHolder(tid_of(self.w, i, self.pfx))
                d = 100 * self.w + 10 * i
                result.time(T0 + datetime.timedelta(seconds=d + 1))
                result.startTest(test)
                result.tags({"w%d" % self.w}, set())
                self.ex.sch.yield_point("local")
                result.time(T0 + datetime.timedelta(seconds=d + 2))
                result.addSuccess(test)
                result.stopTest(test)
            else:
                out = OUTCOME.get(t, t)
                PlaceHolder(tid_of(self.w, i, self.pfx), outcome=out).run(result)
        if self.raises == "exc":
            raise ScriptedRunError("run() of sub-suite %d raises" % self.w)
        if self.raises == "base":
            raise WorkerExit("run() of sub-suite %d raises a BaseException" % self.w)


class CallerResult:
    """The caller's TestResult (ConcurrentTestSuite): a recording double; every call is a yield point."""

    failfast = False

    def __init__(self, ex):
        self.ex = ex
        self.log = []

    def _v(self, test, thr):
        i = test.id()
        if i.startswith("broken-runner"):
            return 100 * thr + 10 * BROKEN if isinstance(thr, int) else -1
        try:
            w, t = i[1:].split("_t")
            return 100 * int(w) + 10 * int(t)
        except Exception:
            return -1

    def _call(self, name, test=None, v=None):
        sch = self.ex.sch
        ct = sch.yield_point("call", call=name)
        thr = ct.id if ct is not None else -1
        sems = sch.semaphores
        h = sems[0].holder() if sems else None
        if v is None:
            v = self._v(test, thr) if test is not None else 0
        e = {"thr": thr, "call": name, "v": v, "h": FREE if h is None else h}
        self.log.append(e)
        sch.note(entry=e)

    def time(self, a):
        # explicit times given by the scripted tests are T0 + (id+1 | id+2) seconds; anything else (the real clock) is 0
        v = 0
        if isinstance(a, datetime.datetime) and a.tzinfo is not None:
            d = (a - T0).total_seconds()
            if 0 < d < 1000 and d == int(d):
                v = int(d)
        self._call("time", v=v)

    def tags(self, new_tags, gone_tags):
        # a worker's own tag is "w<k>": v = k; anything else (tags of several workers merged, gone tags) is -1
        v = -1
        if len(new_tags) == 1 and not gone_tags:
            (t,) = tuple(new_tags)
            if isinstance(t, str) and t[:1] == "w" and t[1:].isdigit():
                v = int(t[1:])
        self._call("tags", v=v)

    def startTest(self, test):
        self._call("startTest", test)
        if test.id() in self.ex.tfault_ids:
            raise CallerFault("the caller's result raises at startTest(%s)" % test.id())

    def stopTest(self, test):
        self._call("stopTest", test)

    def addSuccess(self, test, details=None):
        self._call("addSuccess", test)

    def addError(self, test, err=None, details=None):
        self._call("addError", test)

    def addFailure(self, test, err=None, details=None):
        self._call("addFailure", test)

    def addSkip(self, test, reason=None, details=None):
        self._call("addSkip", test)

    def addExpectedFailure(self, test, err=None, details=None):
        self._call("addExpectedFailure", test)

    def addUnexpectedSuccess(self, test, details=None):
        self._call("addUnexpectedSuccess", test)

    def startTestRun(self):
        self._call("startTestRun")

    def stopTestRun(self):
        self._call("stopTestRun")

    def stop(self):
        self._call("stop")

    def done(self):
        self._call("done")

    shouldStop = False

    def wasSuccessful(self):
        return True


class CallerStream:
    """The caller's StreamResult (ConcurrentStreamTestSuite); called by the main thread only; raises at its
    cfault-th status() call."""

    def __init__(self, ex, cfault=None):
        self.ex = ex
        self.n = 0
        self.log = []
        self.cfault = ex.cfault if cfault is None else cfault

    def startTestRun(self):
        pass

    def stopTestRun(self):
        pass

    def status(self, test_id=None, test_status=None, test_tags=None, runnable=True, file_name=None, file_bytes=None,
               eof=False, mime_type=None, route_code=None, timestamp=None):
        n = self.n
        self.n += 1
        if n == self.cfault:
            self.ex.sch.note(abort="cfault")
            raise CallerFault("caller's result raises at event %d" % n)
        # the message being dispatched was put by ... (only used for ids that do not name their worker: the
        # ErrorHolder 'broken-runner-<route>' of workers that share a route code)
        cur = (self.ex.sch._step or {}).get("item")
        e = self.ex.project_event(test_id, test_status, file_name, route_code, timestamp,
                                  hint=self.ex.putter.get(id(cur), 0))
        self.log.append(e)
        self.ex.sch.note(fwd=e)


class Execution:
    def __init__(self, variant, script, makeFault=NOFAULT, intrAt=NOFAULT, cfault=NOFAULT, chooser=None, prerun=None):
        # prerun = {"script": [...], "cfault": n}: the SAME suite object first makes a run with those sub-suites that
        # the caller's result aborts at its n-th event; when that run's workers have finished, the run described by
        # the other arguments is made on it and recorded (a run starts from scratch: fresh queue, empty worker table)
        self.prerun = prerun
        self.phase = 1 if prerun else 2
        self.pre_threads = 0
        self.variant = variant
        self.script = script
        self.makeFault = makeFault
        self.intrAt = intrAt
        self.cfault = cfault
        self.sch = S.Scheduler(chooser, on_step=self._on_step)
        self.sch.queue_interrupt_at = () if intrAt == NOFAULT else (intrAt,)
        self.sch.on_thread = self._on_thread
        self.events = []
        self.told = set()
        self.main = "run"
        self.prop = "none"
        self.aborted = False
        self.putter = {}
        self.prs = {}
        self.unexpected = None
        n = len(script)
        # route codes handed out by make_tests ("either None or a unicode string" - they need not be distinct):
        # given by the scenario, else distinct codes with None for the last worker
        self.routes = {}
        for w, sc in enumerate(script, 1):
            r = sc.get("route", "r%d" % w)
            self.routes[w] = None if r == "none" else r
        if variant == "stream" and n >= 2 and "route" not in script[n - 1] and "raw" not in script[n - 1]["tests"]:
            self.routes[n] = None
        for w, sc in enumerate(script, 1):
            if variant == "stream" and self.routes[w] is None and "raw" in sc["tests"]:
                raise tlc.MachineryError("C13: scenario outside the domain: raw event with its own route code in a worker "
                                         "whose route code is None")
        self.subs = [SubSuite(self, w, sc["tests"], sc["raises"]) for w, sc in enumerate(script, 1)]
        # suite variant: the caller's result raises at startTest of worker w's i-th test (script[w].tfault = i)
        self.tfault_ids = {tid_of(w, sc["tfault"]) for w, sc in enumerate(script, 1) if sc.get("tfault")}
        self.result = CallerResult(self) if variant == "suite" else CallerStream(self)

    # -- scripted collaborators ---------------------------------------------------------------
    def _make_tests(self, *a):
        if self.phase == 1:
            for w, sc in enumerate(self.prerun["script"], 1):
                yield (SubSuite(self, w, sc["tests"], sc["raises"], pfx="x"), "p%d" % w)
            return
        for k, sub in enumerate(self.subs):
            if k == self.makeFault:
                self.sch.note(abort="make")
                raise MakeFault("make_tests raises after %d sub-suites" % k)
            yield sub if self.variant == "suite" else (sub, self.routes[sub.w])
        if self.makeFault == len(self.subs):
            self.sch.note(abort="make")
            raise MakeFault("make_tests raises after %d sub-suites" % len(self.subs))

    def _main(self):
        from testtools import testsuite

        if self.variant == "suite":
            import unittest

            suite = testsuite.ConcurrentTestSuite(unittest.TestSuite(), self._make_tests)
        else:
            suite = testsuite.ConcurrentStreamTestSuite(self._make_tests)
        if self.prerun:
            try:
                suite.run(CallerStream(self, cfault=self.prerun["cfault"]))
            except S.SchedAbort:
                raise
            except BaseException:  # noqa - the aborted first run (cfault scenarios are validated on their own)
                pass
            # the first run's workers finish (they still enqueue events), then the recorded run starts
            self.sch.yield_point("settle", enabled=lambda: all(
                t.state == "done" for t in self.sch.threads if isinstance(t.id, int) and t.id >= 100))
            self.pre_threads = len(self.sch.created)
            self.phase = 2
            self.events = []
            self.told = set()
            self.putter_stale = set(self.putter)
        try:
            suite.run(self.result)
        except S.SchedAbort:
            raise
        except BaseException as ex:  # noqa
            if isinstance(ex, MakeFault):
                c = "make"
            elif isinstance(ex, KeyboardInterrupt):
                c = "ki"
            elif isinstance(ex, CallerFault):
                c = "cfault"
            else:
                c = "other"
                self.unexpected = ex
            self.sch.note(main="raised", prop=c)
            return
        self.sch.note(main="returned")

    def _on_thread(self, th):
        w = th.index + 1 - self.pre_threads if self.phase == 2 else 100 + th.index + 1
        th.tid = w
        pr = None
        for a in th._args:
            if callable(getattr(a, "stop", None)) and not isinstance(a, SubSuite):
                pr = a
                break
        if pr is None:
            raise tlc.MachineryError("C13: cannot find the worker's result among the thread arguments %r" % (th._args,))
        orig = pr.stop
        self.prs[w] = pr

        def stop():
            self.told.add(w)
            return orig()

        pr.stop = stop

    # -- projections ----------------------------------------------------------------------------
    def id_of(self, test_id, hint=0):
        """(worker, abstract id) of a test id.  Scripted tests name their worker ('w<k>_t<i>'); the ErrorHolder's id
        'broken-runner-<route>' does not when route codes coincide: it is attributed to the worker whose own queue
        message carries it (hint) - never by route code alone."""
        if test_id is None:
            return 0, 0
        if test_id.startswith("broken-runner-"):
            cands = [w for w, r in self.routes.items() if test_id == "broken-runner-'%s'" % (r,)]
            w = hint if hint in cands else (cands[0] if len(cands) == 1 else 0)
            return w, (100 * w + 10 * BROKEN if w else -1)
        try:
            w, t = test_id[1:].split("_t")
            return int(w), 100 * int(w) + 10 * int(t)
        except Exception:
            return 0, -1

    def project_event(self, test_id, test_status, file_name, route_code, timestamp, hint=0):
        w, v = self.id_of(test_id, hint)
        # the route code as it is on the event: <code> or <code>/sub (sub = the event's own route code)
        if route_code is None:
            code, sub = "none", False
        elif route_code.endswith("/sub"):
            code, sub = route_code[:-4], True
        else:
            code, sub = route_code, False
        st = test_status if test_status is not None else ("file" if file_name is not None else "none")
        return {"w": w, "id": v, "st": st, "code": code, "sub": sub, "ts": timestamp is not None}

    def project_msg(self, item, putter):
        if self.variant == "suite":
            return item.w if isinstance(item, SubSuite) else -1
        ev = item.get("event") if isinstance(item, dict) else None
        if ev in ("startTestRun", "stopTestRun"):
            return {"kind": ev, "w": putter, "id": 0, "st": "none", "sub": False, "code": "none"}
        if ev == "status":
            e = self.project_event(item.get("test_id"), item.get("test_status"), item.get("file_name"),
                                   item.get("route_code"), item.get("timestamp"), hint=putter)
            return {"kind": "status", "w": putter, "id": e["id"], "st": e["st"], "sub": e["sub"], "code": e["code"]}
        return {"kind": "other", "w": putter, "id": 0, "st": "none", "sub": False, "code": "none"}

    def alive(self):
        return sorted(t.id for t in self.sch.threads if 0 < t.id < 100 and t.state != "done")

    def started(self):
        return sorted(t.id for t in self.sch.threads if 0 < t.id < 100)

    def _on_step(self, rec):
        sch = self.sch
        op = rec.get("op")
        if "main" in rec:
            self.main = rec["main"]
            self.prop = rec.get("prop", "none")
        abort = "none"
        if rec.get("interrupt"):
            abort = "ki"
        elif rec.get("abort"):
            abort = rec["abort"]
        ev = {
            "thr": rec["thr"],
            "act": "begin" if op == "settle" else op,  # (second run on one suite object: it begins after the settle)
            "alive": self.alive(),
            "started": self.started(),
            "told": sorted(self.told),
            "main": self.main,
            "prop": self.prop,
            "ran": rec.get("ran", 0),
            "abort": abort,
        }
        qs = getattr(sch, "queues", [])
        if self.variant == "suite":
            sems = getattr(sch, "semaphores", [])
            h = sems[0].holder() if sems else None
            ev["holder"] = FREE if h is None else h
            ev["e"] = rec.get("entry", NOENTRY) if op == "call" else NOENTRY
            ev["queue"] = [self.project_msg(x, None) for x in qs[-1].items] if qs else []
        else:
            m = NOMSG
            if op == "put" and "item" in rec:
                self.putter[id(rec["item"])] = rec["thr"]
                m = self.project_msg(rec["snap"], rec["thr"])
            elif op == "get" and "item" in rec:
                m = self.project_msg(rec["snap"], self.putter.get(id(rec["item"]), 0))
            ev["m"] = m
            ev["fwd"] = "fwd" in rec
            ev["e"] = rec.get("fwd", NOCE)
            ev["qlen"] = len(qs[-1].items) if qs else 0
        self.events.append(ev)

    # -- running --------------------------------------------------------------------------------
    def patched(self):
        from testtools import testsuite

        return S.patched(self.sch, modules=[testsuite])

    def start(self):
        self.sch.spawn(self._main, tid=0)

    def check_threads(self):
        for t in self.sch.threads:
            if t.exc is not None and not (t.id != 0 and isinstance(t.exc, (ScriptedRunError, WorkerExit))):
                raise tlc.MachineryError("C13: unexpected exception in thread %s: %r (script=%s)" % (t.id, t.exc, jdump(self.script)))

    def trace(self, complete):
        script = self.script
        if self.variant == "suite":
            script = [{"tests": [OUTCOME.get(t, t) for t in sc["tests"]], "raises": sc["raises"],
                       "tfault": sc.get("tfault", 0)} for sc in script]
        if self.variant == "stream":
            script = [dict(tests=sc["tests"], raises=sc["raises"], route="none" if self.routes[w] is None else self.routes[w])
                      for w, sc in enumerate(script, 1)]
        d = {"variant": self.variant, "script": script, "makeFault": self.makeFault, "intrAt": self.intrAt,
             "ev": self.events, "complete": complete}
        if self.variant == "stream":
            d["cfault"] = self.cfault
        return d


def run_scenario(variant, script, mf, ia, cf, chooser, prerun=None):
    ex = Execution(variant, script, mf, ia, cf, chooser, prerun=prerun)
    with ex.patched():
        ex.start()
        try:
            ex.sch.run()
        except S.Deadlock as d:
            ex.check_threads()
            return ex.trace(False), {"waiting": d.waiting}, ex
    ex.check_threads()
    return ex.trace(True), None, ex


def calibrate_nfile():
    """Number of traceback chunk events the real code emits for a broken runner (depends on the traceback only)."""
    tr, dl, ex = run_scenario("stream", [Sc([], True)], NOFAULT, NOFAULT, NOFAULT, S.Follow([], "first"))
    if dl is not None:
        raise tlc.MachineryError("C13: calibration run deadlocked")
    n = sum(1 for e in tr["ev"] if e["act"] == "put" and e["m"]["st"] == "file")
    if not 0 <= n <= 9:
        raise tlc.MachineryError("C13: %d traceback chunk events (model supports 0..9)" % n)
    return n


# ---------------------------------------------------------------------------------------------
# B1


def status_of(pc):
    return pc if pc in ("returned", "raised") else "run"


def replay_export(variant, beh):
    """Returns None or (step, clause, expected, observed)."""
    ex = Execution(variant, beh["script"], beh["makeFault"], beh["intrAt"], beh.get("cfault", NOFAULT), chooser=None)
    sch = ex.sch
    with ex.patched():
        ex.start()
        try:
            for k, h in enumerate(beh["hist"]):
                t = h["thr"]
                en = sch.enabled_ids()
                if t not in en:
                    return (k, "progress", {"thread": t, "can": h["act"]},
                            {"enabled": en, "waiting": {x.id: x.pending.get("op") for x in sch.threads if x.state != "done"}})
                sch.step(t)
                ev = ex.events[-1]
                exp = {"act": h["act"], "alive": sorted(h["alive"]), "told": sorted(h["told"]),
                       "main": status_of(h["main"]), "prop": h["prop"]}
                obs = {x: ev[x] for x in ("act", "alive", "told", "main", "prop")}
                if variant == "suite":
                    exp["holder"] = h["holder"]
                    obs["holder"] = ev["holder"]
                    exp["queue"] = list(h["queue"])
                    obs["queue"] = ev["queue"]
                    if h["act"] == "call":
                        exp["e"] = h["e"]
                        obs["e"] = ev["e"]
                else:
                    exp["qlen"] = h["qlen"]
                    obs["qlen"] = ev["qlen"]
                    if h["act"] in ("put", "get"):
                        exp["m"] = h["m"]
                        obs["m"] = ev["m"]
                    exp["e"] = h["e"]
                    obs["e"] = ev["e"]
                if exp != obs:
                    bad = [x for x in exp if exp[x] != obs.get(x)]
                    return (k, "replay-" + bad[0], exp, obs)
            if sch.unfinished():
                return (len(beh["hist"]), "replay-unfinished", [], sch.unfinished())
            ex.check_threads()
            return None
        finally:
            sch.close()


# ---------------------------------------------------------------------------------------------
# scenarios


def Sc(tests=(), raises=False, route=NOFAULT, tfault=0):
    d = {"tests": list(tests), "raises": {False: "no", True: "exc"}.get(raises, raises)}
    if tfault:
        d["tfault"] = tfault
    if route != NOFAULT:  # (None is a legal route code)
        d["route"] = "none" if route is None else route
    return d


def systematic_scenarios(tier):
    """(variant, script, makeFault, intrAt, cfault, preemption bound)"""
    N = NOFAULT
    sc = []
    s2 = [Sc(["ok"]), Sc([], True)]
    sc.append(("suite", s2, N, N, N, 2))
    sc.append(("suite", s2, N, 1, N, 2))
    sc.append(("suite", s2, 1, N, N, 2))
    sc.append(("suite", [Sc(["er"], "base"), Sc([])], N, N, N, 2))
    # overlapping tests of two workers, each with its own explicit times and tag: every block must carry its own
    tm2 = [Sc(["timed"]), Sc(["timed", "ok"])]
    sc.append(("suite", tm2, N, N, N, 2))
    sc.append(("suite", tm2, N, 1, N, 1))
    # the caller's result raises at startTest of a test: broken runner reported, run() returns
    sc.append(("suite", [Sc(["ok", "er"], tfault=1), Sc(["timed"])], N, N, N, 1))
    sc.append(("suite", [Sc(["timed", "ok"], True, tfault=2), Sc([])], N, N, N, 1))
    t2 = [Sc(["raw", "rawn"]), Sc(["rawt"])]
    sc.append(("stream", t2, N, N, N, 2))
    sc.append(("stream", t2, N, N, 1, 2))
    sc.append(("stream", t2, N, 2, N, 2))
    sc.append(("stream", t2, 2, N, N, 2))
    sc.append(("stream", [Sc([], True), Sc([])], N, N, N, 2))
    sc.append(("stream", [Sc(["raw"], "base"), Sc([])], N, N, N, 2))
    # two workers that were given the SAME route code (a string / None): the table of live workers must not be
    # keyed by it
    sha = [Sc(["ok"], route="a"), Sc([], route="a")]
    shn = [Sc([], route=None), Sc(["ok"], route=None)]
    sc.append(("stream", sha, N, N, N, 2))
    sc.append(("stream", shn, N, N, N, 1))
    sc.append(("stream", sha, N, 2, N, 1))
    sc.append(("stream", shn, N, N, 1, 1))
    sc.append(("stream", [Sc(["rawn"], route=None), Sc(["rawt", "rawn"], route=None)], N, N, N, 1))
    # two consecutive runs on ONE suite object: the first aborted by the caller's result raising at event c (its
    # workers still have events to enqueue), the second with a healthy caller - whose log must hold exactly its own
    # workers' events (a run starts from scratch)
    pre = [Sc(["ok", "ok"]), Sc(["ok"])]
    for c in ((1, 3) if tier == "quick" else (0, 1, 2, 3)):
        sc.append(("stream", [Sc(["ok"]), Sc(["raw"])], N, N, N, 1, {"script": pre, "cfault": c}))
    sc.append(("stream", [Sc([], True, route="a"), Sc([], True, route="a")], N, N, N, 1))
    # three workers sharing one code
    sc.append(("stream", [Sc([], route=None), Sc([], route=None), Sc([], route=None)], N, N, N, 1))
    sc.append(("stream", [Sc([], route="a"), Sc(["raw"], route="a"), Sc([], route="a")], N, 3, N, 1))
    if tier == "thorough":
        s2b = [Sc(["ok"]), Sc(["er"], True)]
        t2b = [Sc(["ok", "raw"]), Sc(["er"], True)]
        for x in ((N, N), (N, 0), (N, 1), (2, N)):
            sc.append(("suite", s2b, x[0], x[1], N, 2))
        sc.append(("suite", [Sc(["ok", "er"]), Sc([])], N, N, N, 2))
        for x in ((N, N, N), (N, N, 1), (N, N, 3), (N, 2, N), (2, N, N)):
            sc.append(("stream", t2b, x[0], x[1], x[2], 2))
        sc.append(("stream", [Sc([]), Sc(["raw"], True)], N, 0, N, 2))
        s3 = [Sc(["ok"]), Sc([], True), Sc(["er", "ok"])]
        sc.append(("suite", s3, N, N, N, 2))
        sc.append(("suite", s3, N, 2, N, 2))
        sc.append(("suite", [Sc(["ok"]), Sc(["ok"]), Sc(["ok"]), Sc([], True)], N, N, N, 2))
        sc.append(("suite", [Sc(["ok", "er", "ok"], True)], N, 0, N, 3))
        sc.append(("suite", s2b, N, N, N, 3))
        t3 = [Sc(["ok"]), Sc(["raw"], True), Sc(["er"])]
        sc.append(("stream", t3, N, N, N, 2))
        sc.append(("stream", t3, N, N, 4, 2))
        sc.append(("stream", [Sc(["ok"]), Sc([]), Sc(["raw"]), Sc([], True)], N, 3, N, 2))
        sh3 = [Sc(["ok"], route="a"), Sc([], True, route="a"), Sc(["raw"], route="a")]
        sc.append(("stream", sh3, N, N, N, 2))
        sc.append(("stream", sh3, N, N, 2, 2))
        sc.append(("stream", sh3, 2, N, N, 2))
        sc.append(("stream", [Sc([], route=None), Sc(["ok"], route=None), Sc(["er"], route="b")], N, 2, N, 2))
        sc.append(("stream", [Sc(["ok"], route=None), Sc(["er"], True, route=None)], N, N, N, 3))
        sc.append(("stream", t2b, N, N, N, 3))
    return sc


def random_scenario(rng):
    variant = rng.choice(("suite", "stream"))
    n = rng.choice((1, 2, 2, 3, 3, 4))
    kinds = ("ok", "er", "timed") if variant == "suite" else ("ok", "er", "raw", "rawn", "rawt")
    script = [Sc([rng.choice(kinds) for _ in range(rng.randint(0, 3))], rng.choice((False, False, False, False, True, True, "base")))
              for _ in range(n)]
    if variant == "suite" and rng.random() < 0.2:
        w = rng.randrange(n)
        if script[w]["tests"]:
            script[w]["tfault"] = rng.randint(1, len(script[w]["tests"]))
    if variant == "stream" and n >= 2 and rng.random() < 0.5:
        mode = rng.choice(("all-a", "all-none", "two-none", "two-a"))
        for w, sc in enumerate(script):
            if mode == "all-a":
                sc["route"] = "a"
            elif mode == "all-none":
                sc["route"] = "none"
            elif mode == "two-none":
                sc["route"] = "none" if w < 2 else "r%d" % (w + 1)
            else:
                sc["route"] = "a" if w >= n - 2 else "r%d" % (w + 1)
            if sc["route"] == "none":
                sc["tests"] = ["ok" if t == "raw" else t for t in sc["tests"]]
    mf = ia = cf = NOFAULT
    r = rng.random()
    if r < 0.2:
        mf = rng.randint(0, n)
    elif r < 0.4:
        ia = rng.randint(0, 2 * n + 2)
    elif r < 0.6 and variant == "stream":
        cf = rng.randint(0, 6)
    if variant == "stream" and rng.random() < 0.15:
        pre = [Sc([rng.choice(("ok", "er")) for _ in range(rng.randint(1, 3))]) for _ in range(rng.randint(1, 2))]
        return variant, script, mf, ia, cf, {"script": pre, "cfault": rng.randint(0, 4)}
    return variant, script, mf, ia, cf, None


def abstract(tr):
    return {
        "variant": tr["variant"],
        "script": [("".join({"addSuccess": "o", "addError": "e", "rawn": "n", "rawt": "t", "timed": "T"}.get(t, t[0]) for t in s["tests"]) or "-") + {"no": "", "exc": "!", "base": "!!"}[s["raises"]] + ("@" + s["route"] if "route" in s else "") + ("/f%d" % s["tfault"] if s.get("tfault") else "") for s in tr["script"]],
        "faults": {k: tr[k] for k in ("makeFault", "intrAt", "cfault") if tr.get(k, NOFAULT) != NOFAULT},
        "schedule": "".join(str(e["thr"]) for e in tr["ev"]),
        "end": tr["ev"][-1]["main"] + ":" + tr["ev"][-1]["prop"] if tr["ev"] else "",
    }


def fault_sig(tr):
    fs = [k for k in ("makeFault", "intrAt", "cfault") if tr.get(k, NOFAULT) != NOFAULT]
    return "+".join(fs) if fs else "nofault"


def switches(events):
    return sum(1 for a, b in zip(events, events[1:]) if a["thr"] != b["thr"])


CFG = {
    "suite": ("MCConcSuite", "ConcSuiteTrace", "cs"),
    "stream": ("MCConcStreamSuite", "ConcStreamSuiteTrace", "css"),
}
ACTIONS = {
    "suite": ["MBegin", "MSpawn", "MGet", "MJoin", "MStopAcq", "MStopCall", "MStopRel", "DoWStart", "DoWAcquire",
              "DoWCall", "DoWRelease", "DoWPut", "DoWExit", "Done"],
    "stream": ["MBegin", "MSpawn", "MGet", "MJoin", "DoWStart", "DoWPut", "DoWExit", "Done"],
}


def run(tier, pid="C13"):
    use_repo()
    rep = Report(
        "C13",
        tier,
        "model_checking",
        "executions = (variant, scripted sub-suites, fault: make_tests raising after k / KeyboardInterrupt in the "
        "j-th queue.get / caller's stream result raising at event n, schedule); schedules enumerated depth-first over "
        "the implementation's enabled threads with a preemption bound, then drawn at random (VERIF_SEED); each "
        "execution of the real ConcurrentTestSuite / ConcurrentStreamTestSuite is validated by TLC against the trace "
        "specs; TLC-exported and TLC-simulated behaviours are replayed step by step. Non-trivial = >=2 threads "
        "with >=2 thread switches, or a fault/broken runner; distinct by (scenario, schedule).",
    )
    rep.assume("make_tests yields distinct hashable sub-suites; sub-suites do not poll shouldStop")
    rep.assume("'told to stop' = stop() invoked on the worker's result (the stream variant's startTestRun resets "
               "shouldStop; a stop() delivered before the worker starts is then forgotten - recorded, not alarmed on)")
    rep.assume("workers that had already finished when the aborting exception arrived need not be told to stop")
    rep.assume("ConcSuite.tla models each block of ThreadsafeForwardingResult call by call; the only target fault "
               "is the caller's result raising at startTest of a scripted test (atomicity under faults is C12)")
    rep.assume("'reported as broken-runner' is required for run() raising an Exception; for a BaseException (what the "
               "code does not catch) only the completion message / termination is required")
    rep.assume("raw stream events with their own route code are only emitted by workers whose route code is not None")
    rep.assume("two consecutive run() calls on one ConcurrentStreamTestSuite object: the first is aborted by its caller's "
               "result and its workers run to completion before the second starts; the second run is validated as a run "
               "from scratch (fresh queue, empty worker table) - its caller must see exactly its own workers' events")
    rep.assume("route codes handed out by make_tests need not be distinct (scenarios give two / three workers the same "
               "string or None); events are attributed to workers by test id, the ErrorHolder's 'broken-runner-<route>' "
               "id by the worker whose own queue message carries it")
    quick = tier == "quick"
    nfile = calibrate_nfile()
    rep.extra["traceback_chunk_events"] = nfile
    env_mc = {"C13_NFILE": "1"}
    env_real = {"C13_NFILE": str(nfile)}

    from concurrent.futures import ThreadPoolExecutor

    pool = ThreadPoolExecutor(2)
    mc = {"suite": ["cs_mcQ.cfg", "cs_mcTm.cfg"], "stream": ["css_mcQ.cfg", "css_mcB.cfg", "css_mcSh.cfg"]}
    if not quick:
        mc["suite"] += ["cs_mc3.cfg", "cs_mc4.cfg", "cs_mc13.cfg"]
        mc["stream"] += ["css_mc3.cfg", "css_mc4.cfg", "css_mc13.cfg", "css_mcSh3.cfg"]
    nsim = 100 if quick else 1000
    jobs = {}
    for v in ("suite", "stream"):
        mod, _, pre = CFG[v]
        jobs[(v, "exp")] = pool.submit(tlc.run_tlc, "conc", mod, pre + "_expq.cfg", workers=4, coverage=True, timeout=1500,
                                       env=env_real)
        jobs[(v, "sim")] = pool.submit(tlc.run_tlc, "conc", mod, pre + "_sim.cfg", workers=4,
                                       simulate=dict(num=nsim, depth=150), seed=rep.seed + 3, deadlock=True,
                                       timeout=1500, env=env_real)
    for v in ("suite", "stream"):
        for cfg in mc[v]:
            jobs[(v, cfg)] = pool.submit(tlc.run_tlc, "conc", CFG[v][0], cfg, workers=4, coverage=True, timeout=1500,
                                         env=env_mc)

    # ---- B2: executions under the scheduler -----------------------------------------------------
    traces = {"suite": [], "stream": []}
    forgotten = [0]

    def record(trace, dl, ex, kind):
        v = trace["variant"]
        traces[v].append(trace)
        faulty = fault_sig(trace) != "nofault" or any(s["raises"] != "no" or s.get("tfault") for s in trace["script"])
        nt = (len(trace["script"]) >= 1 and switches(trace["ev"]) >= 2) or faulty
        n = len(traces["suite"]) + len(traces["stream"])
        rep.case(
            sample=dict(abstract(trace), kind=kind) if n % 701 == 3 else None,
            nontrivial_key=sig_hash([v, trace["script"], fault_sig(trace), trace.get("makeFault"), trace.get("intrAt"),
                                     trace.get("cfault"), [e["thr"] for e in trace["ev"]]]) if nt else None,
        )
        if v == "stream" and ex.told and dl is None:
            # recorded, not alarmed on: stop() delivered before the worker's own startTestRun() is forgotten
            if any(not ex.prs[w].shouldStop for w in ex.told):
                forgotten[0] += 1
        if dl is not None:
            rep.violation("Termination", "B2:%s:deadlock:%s" % (v, fault_sig(trace)),
                          {"kind": "B2", "trace": trace, "waiting": dl},
                          expected="run() returns or raises and every worker finishes", observed=dl)
        elif ex.main == "returned" and ex.alive():
            # (also an invariant of the trace spec; checked here directly on the scheduler's thread table)
            rep.violation("ReturnsAfterAll", "B2:%s:ReturnsAfterAll:direct" % v, {"kind": "B2", "trace": trace},
                          expected="no worker alive when run() returns", observed=ex.alive())

    sys_counts = []
    cap = 350 if quick else 1000
    for scen in systematic_scenarios(tier):
        variant, script, mf, ia, cf, bound = scen[:6]
        prerun = scen[6] if len(scen) > 6 else None
        exr = S.Explorer(bound, max_executions=cap if ((len(script) < 3 and not prerun) or not quick) else cap // 2)
        while exr.more():
            trace, dl, ex = run_scenario(variant, script, mf, ia, cf, exr, prerun=prerun)
            record(trace, dl, ex, "systematic")
            exr.done_one()
            if len(rep.violations) >= 3:
                break
        sys_counts.append({"variant": variant, "script": abstract({"variant": variant, "script": script, "ev": []})["script"],
                           "makeFault": mf, "intrAt": ia, "cfault": cf, "bound": bound,
                           "second_run_after_aborted_first": bool(prerun),
                           "executions": exr.executions, "complete": not exr.truncated})
        if len(rep.violations) >= 3:
            break
    rng = random.Random(rep.seed * 104729 + 13)
    nrand = 250 if quick else 4000
    for j in range(nrand):
        if len(rep.violations) >= 3:
            break
        variant, script, mf, ia, cf, prerun = random_scenario(rng)
        trace, dl, ex = run_scenario(variant, script, mf, ia, cf,
                                     S.RandomWalk(rng.getrandbits(32), stay=rng.choice((0.0, 0.5, 0.8))), prerun=prerun)
        record(trace, dl, ex, "random")
    rep.extra["systematic"] = sys_counts
    rep.extra["random_executions"] = nrand
    rep.extra["stream_executions_where_a_delivered_stop_was_reset_by_startTestRun"] = forgotten[0]

    # ---- B1: exported / simulated behaviours replayed ---------------------------------------------
    for v in ("suite", "stream"):
        for what in ("exp", "sim"):
            r = jobs[(v, what)].result()
            name = "%s_%s.cfg" % (CFG[v][2], "expq" if what == "exp" else what)
            tlc.require_ok(r, "C13 " + name)
            rep.add_tlc(r, name)
            n = 0
            for beh in tlc.exported(r):
                n += 1
                bad = replay_export(v, beh)
                sched_s = "".join(str(h["thr"]) for h in beh["hist"])
                rep.case(
                    sample={"kind": "B1 replay " + what, "variant": v, "schedule": sched_s,
                            "end": beh["hist"][-1]["main"]} if n % 900 == 1 else None,
                    nontrivial_key=("B1", v, jdump(beh["script"]), beh["makeFault"], beh["intrAt"], beh.get("cfault"), sched_s),
                )
                rep.traces += 1
                if bad:
                    k, clause, exp, obs = bad
                    sig = "B1:%s:%s:%s" % (v, clause, fault_sig(beh))
                    sc = dict(beh, kind="B1", variant=v, failed_at_step=k)
                    rep.violation(clause, sig, sc, expected=exp, observed=obs)
                    if len(rep.violations) >= 3:
                        break
            if n == 0:
                raise tlc.MachineryError("C13 %s exported no behaviours" % name)

    # ---- TLC: model checking results ------------------------------------------------------------
    for v in ("suite", "stream"):
        for cfg in mc[v]:
            r = jobs[(v, cfg)].result()
            tlc.require_ok(r, "C13 " + cfg)
            tlc.require_coverage(r, ACTIONS[v] + (["DoWLocal"] if cfg == "cs_mcTm.cfg" else []), "C13 " + cfg)
            rep.add_tlc(r, cfg)
    pool.shutdown()

    # ---- B2: validation by TLC ------------------------------------------------------------------
    for v in ("suite", "stream"):
        _, tmod, pre = CFG[v]
        val = Validator("conc", tmod, pre + "_trace_strict.cfg", pre + "_trace_loose.cfg", env=env_real)
        verdicts, validated = val.validate(traces[v])
        for what, r in val.tlc_results:
            rep.add_tlc(r, "trace:" + what)
        rep.traces += validated
        for i, vd in sorted(verdicts.items()):
            tr = traces[v][i]
            if vd[0] == "violation":
                _, inv, l = vd
                cut = dict(tr, ev=tr["ev"][:l], complete=False if l < len(tr["ev"]) else tr["complete"])
                last = tr["ev"][l - 1] if l else {}
                sig = "B2:%s:%s:%s:%s" % (v, inv, "main" if last.get("thr") == 0 else "worker", fault_sig(tr))
                rep.violation(inv, sig, {"kind": "B2", "trace": cut},
                              expected="invariant %s of %s" % (inv, CFG[v][0][2:]), observed=abstract(cut))
            else:
                rep.note_drift("C13 %s: execution is not a behaviour of the model from event %s on, but satisfies every "
                               "C13 invariant: %s" % (v, vd[1], jdump(abstract(tr))[:400]))
    if not rep.samples:
        rep.sample({"note": "see tlc_runs"})
    rep.exhaustive = False
    rep.extra["explanation"] = (
        "TLC: exhaustive for the bounded instances in spec/conc/cs_mc*.cfg and css_mc*.cfg; real executions: exhaustive "
        "up to the preemption bound for the listed scenarios (see 'systematic'), random beyond"
    )
    return rep.finish()


def replay_file(path, pid="C13"):
    use_repo()
    v = json.load(open(path))
    sc = v["scenario"]
    nfile = calibrate_nfile()
    if sc["kind"] == "B1":
        bad = replay_export(sc["variant"], sc)
        if bad:
            print("VIOLATION property=C13 replay=%s" % path)
            print("  step=%s clause=%s expected=%r observed=%r" % bad)
            return 1
        print("replay: schedule conforms")
        return 0
    tr = sc["trace"]
    schedule = [e["thr"] for e in tr["ev"]]
    trace, dl, ex = run_scenario(tr["variant"], tr["script"], tr["makeFault"], tr["intrAt"], tr.get("cfault", NOFAULT),
                                 S.Follow(schedule, then="first"))
    if dl is not None:
        print("VIOLATION property=C13 replay=%s" % path)
        print("  clause=Termination waiting=%r" % (dl,))
        return 1
    _, tmod, pre = CFG[tr["variant"]]
    val = Validator("conc", tmod, pre + "_trace_strict.cfg", pre + "_trace_loose.cfg", env={"C13_NFILE": str(nfile)})
    verdicts, _ = val.validate([trace])
    if verdicts and verdicts[0][0] == "violation":
        print("VIOLATION property=C13 replay=%s" % path)
        print("  clause=%s after event %s" % (verdicts[0][1], verdicts[0][2]))
        return 1
    print("replay: execution conforms")
    return 0
