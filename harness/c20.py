"""C20 - Deferred matchers classify fired/failed/unfired without firing anything.

Spec: spec/twisted/DeferredM.tla (one Deferred: Fire, Fail, AddCallback, Match, Extract) and
spec/twisted/SyncRun.tla (the SynchronousDeferredRunTest clause as a TLC-enumerated table).
TLC checks Trichotomy, InnerApplied, ExtractRight, CapsTransparent, NeverFires, Preserved, HandledAfter on
the code-shaped mechanism of on_deferred_result / _NoResult / _Succeeded / _Failed / extract_result and
exports every action sequence up to the bound; each is replayed on a real twisted Deferred with the real
has_no_result() / succeeded(m) / failed(m) / extract_result, comparing after every action: the verdict,
what the inner matcher was given, whether the Deferred fired, what user callbacks saw; at the end the
Deferred is dropped, garbage is collected and a Twisted log observer tells whether "Unhandled error in
Deferred" was logged.
"""

import gc

from . import tlc
from .common import Report, jdump, use_repo

PROPS = ("C20",)

ACTIONS = ["Fire", "Fail", "AddCallback", "Match", "Extract"]
ACTIONS_P = ACTIONS + ["Pause", "Unpause", "InnerFires", "InnerFails"]


class UserError(Exception):
    pass


class FatalError(BaseException):
    """a failure value that is not an Exception (like SystemExit, KeyboardInterrupt, GeneratorExit)"""


# -- the Twisted log observer ("not logged as unhandled") ------------------------------------------
_unhandled = []
_logging_begun = False


def _observer(event):
    # DebugInfo.__del__ emits two events: the critical header "Unhandled error in Deferred:" and then the
    # failure itself (log.failure(...), namespace twisted.internet.defer)
    f = event.get("log_failure")
    if f is not None and event.get("log_namespace") == "twisted.internet.defer":
        # keep only the text: the exception object would pin its traceback's frames (and through f_back the
        # frame that holds the Deferred) alive
        _unhandled.append("exc:" + str(f.value.args[0] if f.value.args else f.value))
    elif "Unhandled error in Deferred" in (event.get("log_format") or ""):
        _unhandled.append("header")


def begin_logging():
    """Route Twisted's log to our observer only (otherwise critical events are printed to stderr)."""
    global _logging_begun
    if _logging_begun:
        return
    from twisted.logger import globalLogBeginner

    globalLogBeginner.beginLoggingTo([_observer], redirectStandardIO=False, discardBuffer=True)
    _logging_begun = True


def _raise_failure(exc):
    """A Failure with a real traceback whose frames do not reference the caller's locals."""
    from twisted.python.failure import Failure

    try:
        raise exc
    except BaseException:
        return Failure()


def selftest_observer():
    """The garbage-collection oracle must see an unhandled failure and must not see a handled one."""
    from twisted.internet import defer

    def drop(make):
        del _unhandled[:]
        tag = make()
        gc.collect()
        return ("exc:" + tag) in _unhandled

    def unhandled_plain():
        defer.fail(ValueError("selftest-1"))
        return "selftest-1"

    def unhandled_cycle():
        d = defer.Deferred()
        d.cycle = [d]  # only the cycle collector can free it
        d.errback(_raise_failure(UserError("selftest-2")))
        return "selftest-2"

    def handled():
        d = defer.fail(ValueError("selftest-3"))
        d.addErrback(lambda _: None)
        return "selftest-3"

    got = (drop(unhandled_plain), drop(unhandled_cycle), drop(handled))
    if got != (True, True, False):
        raise tlc.MachineryError("C20: the unhandled-error log oracle does not work here: %r" % (got,))
    del _unhandled[:]


# -- concretisation ----------------------------------------------------------------------------------
_serial = [0]


class Ctx:
    def __init__(self):
        _serial[0] += 1
        self.vals = {"None": None, "zero": 0, "one": 1, "two": 2, "nest": [("a", None), [1]]}
        self.inners = []  # inner Deferreds returned by "chain" callbacks
        # unique texts: a log entry is attributed to this behaviour by text, never by object
        self.tags = {k: "%s#%d" % (k, _serial[0]) for k in ("e1", "e2", "b1", "b2")}
        self.excs = {"e1": ValueError(self.tags["e1"]), "e2": UserError(self.tags["e2"]),
                     "b1": SystemExit(self.tags["b1"]), "b2": FatalError(self.tags["b2"])}  # fmt: skip
        self.seen = []

    def value_matches(self, pat, x):
        """pat: exported value like ["t","t","one"] / ["any"]; x: the concrete object."""
        if pat == ["any"]:
            return True
        if pat[0] == "t" and len(pat) > 1:
            return type(x) is tuple and len(x) == 2 and x[0] == "t" and self.value_matches(pat[1:], x[1])
        want = self.vals[pat[0]]
        if pat[0] == "nest":
            return x is want
        return type(x) is type(want) and x == want

    def failure_matches(self, pat, x):
        return isinstance(x, lib()["Failure"]) and x.value is self.excs[pat[0]]

    def result_matches(self, fired, pat, x):
        return self.failure_matches(pat, x) if fired == "err" else self.value_matches(pat, x)


class Rec:
    """Inner matcher that records what it was given."""

    def __init__(self, inner, calls):
        self.inner = inner
        self.calls = calls

    def __str__(self):
        return "Rec(%s)" % (self.inner,)

    def match(self, x):
        self.calls.append(x)
        return self.inner.match(x)


_lib = {}


def lib():
    if not _lib:
        from testtools.matchers import AfterPreprocessing, Always, Equals, IsInstance, Never
        from testtools.twistedsupport import failed, has_no_result, succeeded
        from testtools.twistedsupport._deferred import DeferredNotFired, extract_result
        from twisted.internet import defer
        from twisted.python.failure import Failure

        _lib.update(locals())
    return _lib


def make_matcher(ctx, arg):
    L = lib()
    calls = []
    k, i = arg["k"], arg["i"]
    if k == "noresult":
        return L["has_no_result"](), calls
    inner = {
        "always": lambda: L["Always"](),
        "never": lambda: L["Never"](),
        "eqNone": lambda: L["Equals"](None),
        "eqOne": lambda: L["Equals"](1),
        "eqNest": lambda: L["Equals"]([("a", None), [1]]),
        "isE1": lambda: L["AfterPreprocessing"](lambda f: f.value, L["IsInstance"](ValueError)),
        "isE2": lambda: L["AfterPreprocessing"](lambda f: f.value, L["IsInstance"](UserError)),
    }[i]()
    return (L["succeeded"] if k == "succ" else L["failed"])(Rec(inner, calls)), calls


def _replay(hist):
    """Runs one behaviour on a fresh Deferred.  Returns (mismatch or None, tags, expect_handled, inspected):
    only plain data leaves this frame (no exception, Failure, Mismatch or Deferred), so that the Deferred is
    garbage as soon as the frame is."""
    L = lib()
    DeferredNotFired, extract_result, defer = L["DeferredNotFired"], L["extract_result"], L["defer"]

    ctx = Ctx()
    d = defer.Deferred()
    pre = {"fired": "no", "val": ["-"]}
    inspected = False
    bad = None
    for i, h in enumerate(hist):
        a, arg = h["a"], h["arg"]
        was_called = (d.called, d.paused)
        nseen = len(ctx.seen)
        if a == "fire":
            d.callback(ctx.vals[arg[0]])
        elif a == "fail":
            # e1: a bare exception instance; e2: really raised, so the Failure carries a traceback
            d.errback(ctx.excs["e1"] if arg[0] == "e1" else _raise_failure(ctx.excs[arg[0]]))
        elif a == "add":
            if arg == "pass":
                d.addBoth(lambda r, s=ctx.seen: (s.append(("pass", r)), r)[1])
            elif arg == "trans":
                d.addCallback(lambda v, s=ctx.seen: (s.append(("trans", v)), ("t", v))[1])
            elif arg == "chain":
                # returns a fresh, unfired Deferred: the outer one now waits for it (fired, but no result available)
                def chain(v, s=ctx.seen, inners=ctx.inners):
                    s.append(("chain", v))
                    inners.append(defer.Deferred())
                    return inners[-1]

                d.addCallback(chain)
            else:
                d.addBoth(lambda r, s=ctx.seen: s.append(("rec", r)))
        elif a == "pause":
            d.pause()
        elif a == "unpause":
            d.unpause()
        elif a == "fireinner":
            ctx.inners[-1].callback(ctx.vals[arg[0]])
        elif a == "failinner":
            ctx.inners[-1].errback(ctx.excs["e1"] if arg[0] == "e1" else _raise_failure(ctx.excs[arg[0]]))
        elif a == "match":
            m, calls = make_matcher(ctx, arg)
            try:
                got = m.match(d)
            except Exception as ex:
                bad = (i, "match-raised", h["res"], repr(ex), "%s:%s" % (arg["k"], pre["fired"]))
                break
            verdict = "match" if got is None else "mismatch"
            key = "%s(%s):%s" % (arg["k"], arg["i"], pre.get("label", pre["fired"]))
            if (d.called, d.paused) != was_called:
                bad = (i, "NeverFires", "(called, paused)=%s" % (was_called,), "(called, paused)=%s" % ((d.called, d.paused),), key)
                break
            if h["res"] != "either" and verdict != h["res"]:
                clause = "Trichotomy" if arg["i"] in ("always", "-") else "InnerApplied"
                bad = (i, clause, h["res"], verdict, key)
                break
            if arg["k"] == "succ" and pre["fired"] == "ok":
                if len(calls) != 1 or not ctx.value_matches(pre["val"], calls[0]):
                    bad = (i, "InnerApplied", "inner matcher given the value %s" % pre["val"], repr(calls), key + ":matchee")
                    break
            if arg["k"] == "failed" and pre["fired"] == "err":
                if len(calls) != 1 or not ctx.failure_matches(pre["val"], calls[0]):
                    bad = (i, "InnerApplied", "inner matcher given the Failure of %s" % pre["val"], repr(calls), key + ":matchee")
                    break
                inspected = True
            if arg["k"] == "succ" and pre["fired"] == "err":
                inspected = True
            if arg["k"] in ("succ", "failed") and pre["fired"] == "err" and isinstance(d.result, L["Failure"]):
                # Twisted logs at collection time iff the current result is still a Failure: say so here rather
                # than let the following steps disagree with a model that assumes the failure was consumed
                bad = (i, "HandledAfter", "failure marked handled", "current result is still the Failure", "unhandled:" + arg["k"])
                break
        else:  # extract
            try:
                r = extract_result(d)
                ok = h["res"]["r"] == "returns" and ctx.value_matches(h["res"]["val"], r)
                obs = "returns %r" % (r,)
            except DeferredNotFired:
                ok = h["res"] == {"r": "raises", "val": ["DeferredNotFired"]}
                obs = "raises DeferredNotFired"
            except BaseException as ex:
                if not isinstance(ex, Exception) and not any(ex is o for o in ctx.excs.values()):
                    raise  # not a failure value of this behaviour (a real Ctrl-C)
                ok = h["res"]["r"] == "raises" and h["res"]["val"][0] in ctx.excs and ex is ctx.excs[h["res"]["val"][0]]
                obs = "raises %r" % (ex,)
            if not ok:
                bad = (i, "ExtractRight", h["res"], obs, "extract:" + pre.get("label", pre["fired"]))
                break
        # what user callbacks saw during this action (Preserved: intact for later callbacks)
        new = ctx.seen[nseen:]
        want = h["new"]
        if len(new) != len(want) or not all(
            n[0] == w["by"] and ctx.result_matches(w["fired"], w["val"], n[1]) for n, w in zip(new, want)
        ):
            clause = "Preserved" if any(x["a"] == "match" for x in hist[:i]) or a == "match" else "callbacks"
            bad = (i, clause, want, [(n[0], repr(n[1])) for n in new], "seen:%s:%s" % (a, pre["fired"]))
            break
        if a != "extract" and d.called != (h["st"]["fired"] != "no"):
            bad = (i, "Preserved", "fired=%s" % h["st"]["fired"], "called=%s" % d.called, "called:%s" % a)
            break
        # what is AVAILABLE after this action: nothing while the Deferred is paused or waits for an inner one
        pre = h["st"]
        if h["blocked"]:
            pre = {"fired": "no", "val": ["-"], "label": "no" if h["st"]["fired"] == "no" else "fired-but-no-result-yet"}
    excs = ["exc:" + t for t in ctx.tags.values()]
    last = hist[-1]
    expect_handled = None if (bad or last["a"] == "extract") else last["st"]["handled"]
    return bad, excs, expect_handled, inspected


def replay(hist):
    """One behaviour incl. the garbage-collection check. Returns (mismatch or None, drift or None)."""
    del _unhandled[:]
    bad, excs, expect_handled, inspected = _replay(hist)
    gc.collect()
    logged = any(v in excs for v in _unhandled)
    if not logged and _unhandled:
        raise tlc.MachineryError("C20: an unhandled-error log entry could not be attributed: %r" % (_unhandled[:4],))
    if bad or expect_handled is None:
        return bad, None
    if expect_handled and logged:
        if inspected:
            return (len(hist) - 1, "HandledAfter", "not logged as unhandled", "Unhandled error in Deferred logged", "logged"), None
        raise tlc.MachineryError("C20: Twisted logged a failure that a user callback had consumed: %s" % jdump(abstract(hist)))
    if not expect_handled and not logged:
        return None, "C20 a failure nobody inspected with succeeded()/failed() was not logged: %s" % jdump(abstract(hist))
    return None, None


def abstract(hist):
    out = []
    for h in hist:
        arg = h["arg"]
        if h["a"] == "match":
            s = "%s(%s)" % (arg["k"], arg["i"]) if arg["k"] != "noresult" else "has_no_result"
            out.append("%s->%s" % (s, h["res"]))
        elif h["a"] == "extract":
            out.append("extract->%s %s" % (h["res"]["r"], "/".join(h["res"]["val"])))
        else:
            out.append("%s(%s)" % (h["a"], arg if isinstance(arg, str) else "/".join(arg)))
    return out


def nontrivial_key(hist):
    """Non-trivial: a match on a fired Deferred, or a match followed by fire / add-callback (a history)."""
    acts = [h["a"] for h in hist]
    if "match" not in acts:
        return None
    if any(h["a"] == "match" and i > 0 and hist[i - 1]["blocked"] and hist[i - 1]["st"]["fired"] != "no" for i, h in enumerate(hist)):
        return jdump(abstract(hist))  # a match on a Deferred that was fired but has no result available
    first = acts.index("match")
    fired_before = any(x in ("fire", "fail") for x in acts[:first + 1]) or any(
        h["a"] == "match" and i > 0 and hist[i - 1]["st"]["fired"] != "no" for i, h in enumerate(hist)
    )
    later = any(x in ("fire", "fail", "add") for x in acts[first + 1 :])
    if fired_before or later:
        return jdump(abstract(hist))
    return None


# -- the SynchronousDeferredRunTest clause -------------------------------------------------------
def _exc_info(exc):
    try:
        raise exc
    except BaseException:
        import sys

        return sys.exc_info()


def _failure_of(exc):
    from twisted.python.failure import Failure

    return Failure(exc)


def _unit_exception(case, where, b):
    """Constructor of what unit `where` raises / fails its Deferred with, or None."""
    from testtools.runtest import MultipleExceptions
    from testtools.testcase import _ExpectedFailure, _UnexpectedSuccess
    from testtools.twistedsupport._deferred import DeferredNotFired
    from testtools.twistedsupport._spinner import NoResultError, TimeoutError as SpinTimeout
    from twisted.internet import defer

    class StillNotFired(DeferredNotFired):
        pass

    def ours(e):
        e._c20_unit = True
        return e

    msg = "boom in " + where
    return {
        "fail": lambda: case.failureException(msg),
        "err": lambda: RuntimeError(msg),
        "skip": lambda: case.skipException("skip in " + where),
        # what extract_result() raises when the code under test forgot to fire a Deferred
        "dnf": lambda: DeferredNotFired(defer.Deferred()),
        "dnfsub": lambda: StillNotFired(defer.Deferred()),
        "spin": lambda: SpinTimeout(where, 1),
        "nores": lambda: NoResultError(),
        "xfail": lambda: _ExpectedFailure(_exc_info(RuntimeError(msg))),
        "uxs": lambda: _UnexpectedSuccess(),
        "multi": lambda: MultipleExceptions(_exc_info(RuntimeError(msg)), _exc_info(case.failureException(msg))),
        "first_fail": lambda: defer.FirstError(_failure_of(case.failureException(msg)), 0),
        "first_skip": lambda: defer.FirstError(_failure_of(case.skipException("skip in " + where)), 0),
        "first_err": lambda: defer.FirstError(_failure_of(RuntimeError(msg)), 0),
        "ki": lambda: ours(KeyboardInterrupt()),
        "exit": lambda: ours(SystemExit(3)),
    }.get(b)


def run_sync_row(row, via):
    """Runs the same four units under the default RunTest (direct) and under SynchronousDeferredRunTest.
    Returns (direct outcome events, sync outcome events)."""
    import testtools
    from testtools.testresult.doubles import ExtendedTestResult
    from testtools.twistedsupport import SynchronousDeferredRunTest
    from twisted.internet import defer

    beh = {r["w"]: r["b"] for r in row}

    def make(mode, runner):
        def unit(case, where):
            b = beh[where]
            exc = _unit_exception(case, where, b)
            if mode == "deferred":
                if exc:
                    return defer.fail(exc())
                return defer.succeed("v" if b == "retv" else None)
            if exc:
                raise exc()
            return "v" if b == "retv" else None

        class T(testtools.TestCase):
            def setUp(self):
                super().setUp()
                return unit(self, "setUp")

            def test_x(self):
                self.addCleanup(lambda: unit(self, "cleanup"))
                return unit(self, "test")

            def tearDown(self):
                super().tearDown()
                return unit(self, "tearDown")

        if runner is not None:
            T.run_tests_with = runner
        return T("test_x")

    def outcome(case):
        res = ExtendedTestResult()
        try:
            case.run(res)
        except BaseException as ex:  # run() itself raising is part of the observable outcome
            if not isinstance(ex, Exception) and not getattr(ex, "_c20_unit", False):
                raise  # not one of the units' own KeyboardInterrupt / SystemExit
            return [e[0] for e in res._events] + ["run() raised " + type(ex).__name__]
        return [e[0] for e in res._events]

    direct = outcome(make("plain", None))
    sync = outcome(make(via, SynchronousDeferredRunTest))
    return direct, sync


def run(tier, pid="C20"):
    use_repo()
    rep = Report(
        "C20",
        tier,
        "model_checking",
        "behaviour = sequence of actions on one Deferred (fire with None/0/1/nested list, fail with a bare or a raised "
        "exception, add a pass-through / transforming / record-only callback or one returning a fresh unfired Deferred, "
        "pause / unpause, fire / fail that inner Deferred, match with has_no_result / succeeded(m) / "
        "failed(m) for inner m in Always, Never, Equals, type check, extract_result), every sequence up to the bound "
        "exported by TLC (exhaustive) or drawn by tlc -simulate; each replayed on a real Deferred with per-action "
        "comparison and a garbage-collection log check at the end. Non-trivial = a match on a fired Deferred or a match "
        "followed by fire/add-callback; distinct by action sequence. Plus one row per (setUp, test, tearDown, cleanup) "
        "unit behaviour table entry for the SynchronousDeferredRunTest clause.",
    )
    rep.assume("Twisted logs 'Unhandled error in Deferred' at garbage collection iff the chain's current result is a Failure; "
               "'handled' is observed with gc.collect() and a twisted.logger observer (self-tested at start)")  # fmt: skip
    rep.assume("after succeeded()/failed() inspected a failure the Deferred's value is unconstrained (wildcard in the model)")
    rep.assume("the Deferred after extract_result is outside the property: Extract ends a behaviour")
    rep.assume("a Deferred that is paused or waits for an inner unfired Deferred returned by a callback has NO result "
               "available, whether or not callback()/errback() was called: has_no_result() matches it")  # fmt: skip
    rep.assume("SynchronousDeferredRunTest clause: outcome kinds (event names of ExtendedTestResult) are compared, not texts")

    begin_logging()
    gc.collect()
    selftest_observer()

    if tier == "quick":
        jobs = [
            ("df_mc6.cfg", dict(noexport=True)),
            ("df_exp3.cfg", {}),
            ("df_exp4Q.cfg", {}),
            ("df_exp5.cfg", {}),
            ("df_expP5.cfg", {}),
            ("df_sim.cfg", dict(simulate=dict(num=600, depth=8), seed=rep.seed + 1)),  # per worker (4 in quick)
        ]
    else:
        jobs = [
            ("df_mc7.cfg", dict(noexport=True)),
            ("df_exp4.cfg", {}),
            ("df_exp5M.cfg", {}),
            ("df_exp7.cfg", {}),
            ("df_mcP7.cfg", dict(noexport=True)),
            ("df_expP5T.cfg", {}),
            ("df_sim.cfg", dict(simulate=dict(num=6000, depth=8), seed=rep.seed + 1)),
            ("df_simP.cfg", dict(simulate=dict(num=3000, depth=9), seed=rep.seed + 2)),
        ]
    # quick tier: the (small) TLC runs go side by side and are all finished before the first replay starts (so that
    # gc.freeze() below covers their parsed output); the results are consumed in the fixed job order
    ready = {}
    if tier == "quick":
        from concurrent.futures import ThreadPoolExecutor

        with ThreadPoolExecutor(max_workers=4) as pool:
            futs = {
                cfg: pool.submit(tlc.run_tlc, "twisted", "MCDeferredM", cfg, coverage=True, workers=4, timeout=2400, heap="3g",
                                 **{k: v for k, v in kw.items() if k != "noexport"})
                for cfg, kw in jobs
            }  # fmt: skip
            futs["df_sync.cfg"] = pool.submit(tlc.run_tlc, "twisted", "SyncRun", "df_sync.cfg", coverage=True, workers=2, timeout=600)
            ready = {cfg: f.result() for cfg, f in futs.items()}
    try:
        for cfg, kw in jobs:
            noexport = kw.pop("noexport", False)
            r = ready.get(cfg) or tlc.run_tlc("twisted", "MCDeferredM", cfg, coverage=True, workers=8, timeout=2400, **kw)
            tlc.require_ok(r, "C20 " + cfg)
            tlc.require_coverage(r, ACTIONS_P if "P" in cfg else ACTIONS, "C20 " + cfg)
            rep.add_tlc(r, cfg)
            if noexport:
                continue
            n = 0
            # everything alive now (TLC's parsed output above all) is exempt from the per-behaviour collections
            gc.collect()
            gc.freeze()
            for hist in tlc.exported(r):
                if not hist:
                    continue
                n += 1
                bad, drift = replay(hist)
                nk = nontrivial_key(hist)
                rep.case(
                    sample={"actions": abstract(hist), "final": hist[-1]["st"]} if nk and rep.evaluations % 30011 == 23 else None,
                    nontrivial_key=nk,
                )
                rep.traces += 1
                if drift:
                    rep.note_drift(drift)
                if bad:
                    i, clause, exp, obs, key = bad
                    rep.violation(clause, "%s:%s" % (clause, key), {"behaviour": hist[: i + 1], "cfg": cfg}, expected=exp, observed=obs)
            gc.unfreeze()
            r.printed = []
            if n == 0:
                raise tlc.MachineryError("C20 %s exported no behaviours" % cfg)
    finally:
        gc.unfreeze()

    # last clause: SynchronousDeferredRunTest == direct return / raise
    r = ready.get("df_sync.cfg") or tlc.run_tlc("twisted", "SyncRun", "df_sync.cfg", coverage=True, workers=2, timeout=600)
    tlc.require_ok(r, "C20 df_sync.cfg")
    tlc.require_coverage(r, ["Direct", "Sync"], "C20 df_sync.cfg")
    rep.add_tlc(r, "df_sync.cfg")
    rows = sorted(tlc.exported(r), key=jdump)
    if not rows:
        raise tlc.MachineryError("C20 df_sync.cfg exported no rows")
    for (row,) in rows:
        direct, sync = run_sync_row(row["row"], row["via"])
        label = " ".join("%s=%s" % (u["w"], u["b"]) for u in row["row"]) + " via=" + row["via"]
        faults = sorted(u["b"] for u in row["row"] if u["b"] not in ("ret", "retv"))
        rep.case(
            sample={"units": label, "direct": direct, "sync": sync} if len(faults) == 1 and rep.evaluations % 40 == 0 else None,
            nontrivial_key="sync:" + label if faults else None,
        )
        rep.traces += 1
        key = "sync-runtest:%s:%s" % (row["via"], "+".join(faults) or "none")
        if sync != direct:
            rep.violation("SyncAsDirect", key, {"row": row}, expected=direct, observed=sync)
        elif row["expect"] != "same-as-direct" and [e for e in direct if e.startswith("add")] != [row["expect"]]:
            # the default RunTest itself disagrees with the handler table: not C20's business (C03), but say so
            rep.note_drift("C20 sync table: direct run of [%s] gave %s, table says %s" % (label, direct, row["expect"]))
    rep.exhaustive = False
    rep.extra["explanation"] = (
        "exhaustive for df_exp*.cfg / df_mc*.cfg / df_sync.cfg (bounds and alphabets in spec/twisted/MCDeferredM.tla "
        "and df_*.cfg); random for df_sim.cfg"
    )
    return rep.finish()


def replay_file(path, pid="C20"):
    import json

    use_repo()
    begin_logging()
    v = json.load(open(path))
    sc = v["scenario"]
    if "row" in sc:
        direct, sync = run_sync_row(sc["row"]["row"], sc["row"]["via"])
        if direct != sync:
            print("VIOLATION property=C20 replay=%s" % path)
            print("  clause=SyncAsDirect direct=%r sync=%r" % (direct, sync))
            return 1
        print("replay: row conforms")
        return 0
    bad, _ = replay(sc["behaviour"])
    if bad:
        print("VIOLATION property=C20 replay=%s" % path)
        print("  step=%s clause=%s expected=%r observed=%r" % bad[:4])
        return 1
    print("replay: behaviour conforms")
    return 0
