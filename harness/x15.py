"""X15 - the TestCase assertion family (assertEqual, assertIn, assertNotIn, assertIs, assertIsNot, assertIsNone,
assertIsNotNone, assertIsInstance, assertThat with message / verbose) and testtools.assertions.assert_that.

Spec: spec/extra/AssertFam.tla.  TLC runs every test body of the bounded instances through the code-shaped pipeline (the
matcher term each assertion builds, Annotate.if_message, match() through Not / Annotate, raise MismatchError, end of the
body) and checks it against the relation the docstring names, read off a universe of 15 Python values directly
(CallMeaning, MessageIncluded, DirectAgrees, StopsAtFirstFailure); every behaviour is exported.

The driver builds the universe as real objects (1 / True / 1.0 equal with three types, two int objects 1000, None, a NaN,
two str objects "ab", equal lists sharing a NaN, the empty string and list), first confirms that Python's own ==, is, in,
isinstance give the truth value the specification exported for every call (a disagreement is a modelling error, never a
violation), then replays each behaviour: every call on a real TestCase (assert_that as the plain function) - raised or
not, the class of the error (MismatchError, a failureException), the user's message inside str(error), arguments left
unchanged, agreement with the documented matcher used directly - and finally the whole body inside a real test run:
which calls were reached and whether the test was reported as a failure or a success.
"""

from . import tlc
from .common import Report, jdump, use_repo

PROPS = ("X15",)
ACTIONS = ["Call", "Report"]

MESSAGE = "the user's message é€"
TYPES = {"int": int, "bool": bool, "float": float, "str": str, "list": list, "NoneType": type(None), "object": object}


def make_universe():
    one, tru, f1 = 1, True, 1.0
    big, big2 = int("1000"), int("10" + "00")
    non, nan = None, float("nan")
    sa, sab, sab2, es = "a", "ab", "".join(["a", "b"]), ""
    u = {
        "one": one, "tru": tru, "f1": f1, "big": big, "big2": big2, "non": non, "nan": nan,
        "sa": sa, "sab": sab, "sab2": sab2, "es": es,
        "l1": [one, non, nan], "l1c": [tru, non, nan], "l2": [big], "el": [],
    }  # fmt: skip
    if big is big2 or sab is sab2 or u["l1"] is u["l1c"]:
        raise tlc.MachineryError("X15: the universe needs equal but distinct objects")
    return u


def snapshot(u):
    return {n: [id(e) for e in v] for n, v in u.items() if isinstance(v, list)}


def msg_of(c):
    return {"none": None, "": "", "msg": MESSAGE}[c["msg"]]


def py_holds(c, u):
    """The documented relation, computed with Python's own operators."""
    api = c["api"]
    x, y = u.get(c["x"]), u.get(c["y"])
    types = tuple(TYPES[k] for k in sorted(c["K"]))
    if api == "assertEqual":
        return x == y
    if api == "assertIs":
        return x is y
    if api == "assertIsNot":
        return x is not y
    if api == "assertIn":
        return x in y
    if api == "assertNotIn":
        return x not in y
    if api == "assertIsNone":
        return y is None
    if api == "assertIsNotNone":
        return y is not None
    if api == "assertIsInstance":
        return isinstance(y, types)
    base = {"Equals": lambda: y == x, "Is": lambda: y is x, "Contains": lambda: x in y, "IsInstance": lambda: isinstance(y, types)}[c["op"]]()
    return (not base) if c["neg"] else base


def doc_matcher(c, u):
    """The matcher the documentation names for the assertion (for assertThat / assert_that: the matcher given)."""
    from testtools.matchers import Contains, Equals, Is, IsInstance, Not

    api = c["api"]
    x = u.get(c["x"])
    types = tuple(TYPES[k] for k in sorted(c["K"]))
    table = {
        "assertEqual": lambda: Equals(x),
        "assertIs": lambda: Is(x),
        "assertIsNot": lambda: Not(Is(x)),
        "assertIn": lambda: Contains(x),
        "assertNotIn": lambda: Not(Contains(x)),
        "assertIsNone": lambda: Is(None),
        "assertIsNotNone": lambda: Not(Is(None)),
        "assertIsInstance": lambda: IsInstance(*types),
    }
    if api in table:
        return table[api]()
    m = {"Equals": lambda: Equals(x), "Is": lambda: Is(x), "Contains": lambda: Contains(x), "IsInstance": lambda: IsInstance(*types)}[c["op"]]()
    return Not(m) if c["neg"] else m


def invoke(case, c, u, pick):
    """Perform the call on the real API (message positionally or by keyword)."""
    from testtools.assertions import assert_that

    api = c["api"]
    x, y = u.get(c["x"]), u.get(c["y"])
    msg = msg_of(c)
    kw = pick % 2 == 0
    if api in ("assertEqual", "assertIs", "assertIsNot", "assertIn", "assertNotIn"):
        args = (x, y)
    elif api in ("assertIsNone", "assertIsNotNone"):
        args = (y,)
    elif api == "assertIsInstance":
        types = tuple(TYPES[k] for k in sorted(c["K"]))
        args = (y, types if c["tup"] else types[0])
        if msg is None:
            return case.assertIsInstance(*args)
        return case.assertIsInstance(*args, msg=msg) if kw else case.assertIsInstance(*args, msg)
    else:
        m = doc_matcher(c, u)
        fn = case.assertThat if api == "assertThat" else assert_that
        if msg is None:
            return fn(y, m, verbose=True) if c["vb"] else fn(y, m)
        if c["vb"]:
            return fn(y, m, message=msg, verbose=True) if kw else fn(y, m, msg, True)
        return fn(y, m, message=msg) if kw else fn(y, m, msg)
    fn = getattr(case, api)
    if msg is None:
        return fn(*args)
    return fn(*args, message=msg) if kw else fn(*args, msg)


def make_case(body=None):
    import testtools

    class Body(testtools.TestCase):
        def test_body(self):
            if body is not None:
                body(self)

    return Body("test_body")


def replay(hist, pick):
    """Return None or (step index, clause, expected, observed)."""
    from testtools.matchers import MismatchError

    prog = hist[0]["arg"]
    u = make_universe()
    for c, hv in zip(prog, hist[0]["holds"]):
        got = py_holds(c, u)
        if bool(got) != hv:
            raise tlc.MachineryError("X15: the specification's universe disagrees with Python on %r: spec %s, Python %s" % (c, hv, got))
    case = make_case()
    for i, h in enumerate(hist[1:], 1):
        if h["a"] == "call":
            c = prog[h["arg"] - 1]
            before = snapshot(u)
            try:
                ret = invoke(case, c, u, pick + i)
                err = None
            except BaseException as ex:  # noqa: B036 - the class of the error is what is being checked
                err = ex
                ret = None
            want_raise = not h["holds"]
            if err is not None and not isinstance(err, MismatchError):
                return (i, "raises-mismatch-error", "MismatchError" if want_raise else "no error", "%s: %s" % (type(err).__name__, str(err)[:200]))
            if (err is not None) != want_raise:
                return (i, "raises-iff-relation-fails", "raises" if want_raise else "returns", "raises: %s" % str(err)[:200] if err is not None else "returns")
            if err is not None:
                if not isinstance(err, case.failureException):
                    return (i, "error-is-a-failure", "instance of failureException", type(err).__mro__)
                try:
                    text = str(err)
                except Exception as ex:
                    return (i, "error-text", "a text", "%s: %s" % (type(ex).__name__, ex))
                if c["msg"] == "msg" and MESSAGE not in text:
                    return (i, "message-included", MESSAGE, text)
            elif ret is not None:
                return (i, "returns-none", None, repr(ret))
            if snapshot(u) != before or any(len(u[n]) != len(before[n]) for n in before):
                return (i, "arguments-not-mutated", before, snapshot(u))
            try:
                mm = doc_matcher(c, u).match(u.get(c["y"]))
            except Exception as ex:
                return (i, "agrees-with-matcher", "a verdict", "%s: %s" % (type(ex).__name__, ex))
            if (mm is None) != (err is None):
                return (i, "agrees-with-matcher", "mismatch" if err is not None else "match", "match" if mm is None else "mismatch: %s" % mm.describe()[:120])
            if (mm is None) != (h["direct"] == "ok"):
                return (i, "agrees-with-matcher", h["direct"], "match" if mm is None else "mismatch")
        elif h["a"] == "report":
            bad = run_body(prog, h, pick)
            if bad:
                return (i,) + bad
        else:
            raise tlc.MachineryError("X15: unknown action %r" % h["a"])
    return None


def run_body(prog, h, pick):
    """The whole body inside a real test run: calls reached, outcome reported."""
    import testtools

    u = make_universe()
    reached = []

    def body(case):
        for j, c in enumerate(prog, 1):
            reached.append(j)
            invoke(case, c, u, pick + j)

    events = []

    class Log(testtools.TestResult):
        def addSuccess(self, test, details=None):
            events.append(("success", ""))

        def addFailure(self, test, err=None, details=None):
            text = "\n".join("%s: %s" % (k, v.as_text()) for k, v in sorted((details or {}).items()))
            events.append(("failure", text))

        def addError(self, test, err=None, details=None):
            text = "\n".join("%s: %s" % (k, v.as_text()) for k, v in sorted((details or {}).items()))
            events.append(("error", text))

    try:
        make_case(body).run(Log())
    except Exception as ex:
        return ("raised", None, "%s out of run(): %s" % (type(ex).__name__, str(ex)[:200]))
    if reached != h["reached"]:
        return ("stops-at-first-failure", h["reached"], reached)
    kinds = [e[0] for e in events]
    if kinds != [h["out"]]:
        return ("reported-as-" + h["out"], [h["out"]], events)
    if h["out"] == "failure":
        c = prog[h["arg"] - 1]
        if c["msg"] == "msg" and MESSAGE not in events[0][1]:
            return ("message-included", MESSAGE, events[0][1][-600:])
    return None


def call_str(c):
    api = c["api"]
    msg = "" if c["msg"] == "none" else ", message=%r" % ("" if c["msg"] == "" else "<msg>")
    if api in ("assertEqual", "assertIs", "assertIsNot", "assertIn", "assertNotIn"):
        return "%s(%s, %s%s)" % (api, c["x"], c["y"], msg)
    if api in ("assertIsNone", "assertIsNotNone"):
        return "%s(%s%s)" % (api, c["y"], msg)
    ks = ",".join(sorted(c["K"]))
    if api == "assertIsInstance":
        return "assertIsInstance(%s, %s%s)" % (c["y"], "(%s)" % ks if c["tup"] else ks, msg)
    m = "IsInstance(%s)" % ks if c["op"] == "IsInstance" else "%s(%s)" % (c["op"], c["x"])
    if c["neg"]:
        m = "Not(%s)" % m
    return "%s(%s, %s%s%s)" % (api, c["y"], m, msg, ", verbose" if c["vb"] else "")


def shape(hist):
    return [call_str(c) for c in hist[0]["arg"]]


def nontrivial_key(hist):
    """Non-trivial: a call whose verdict needs more than 'same object': equal-but-not-identical or identical-but-not-equal
    operands, containment by equality, a subclass or a tuple of types, a negated matcher, a message, or a body of several
    calls."""
    prog = hist[0]["arg"]
    if len(prog) > 1:
        return jdump(shape(hist))
    c = prog[0]
    subtle = (
        (c["x"] != c["y"] and c["x"] != "-")
        or c["y"] == "nan"
        or c["neg"]
        or c["msg"] != "none"
        or len(c["K"]) > 1
        or (c["y"] == "tru" and "int" in c["K"])
    )
    return jdump(shape(hist)) if subtle else None


def signature(hist, clause, i):
    """One defect, one signature: clause + the api of the call it failed at (for assertThat / assert_that: + the matcher,
    with its negation) + whether it showed only inside the test run."""
    prog = hist[0]["arg"]
    h = hist[i]
    if h["a"] == "call":
        c = prog[h["arg"] - 1]
    else:
        c = prog[(h["arg"] or len(prog)) - 1]
    flavour = c["api"] + (":" + ("Not." if c["neg"] else "") + c["op"] if c["api"] in ("assertThat", "assert_that") else "")
    return "x15:%s:%s%s" % (clause, flavour, ":in-run" if h["a"] == "report" else "")


def run(tier, pid="X15"):
    use_repo()
    rep = Report(
        "X15",
        tier,
        "model_checking",
        "behaviours = test bodies of assertion calls over a universe of 15 real Python values (1 / True / 1.0, two int "
        "objects 1000, None, NaN, 'a', two str objects 'ab', '', equal lists sharing the NaN, [1000], []): every single "
        "call of assertEqual / assertIs / assertIsNot / assertIn / assertNotIn (all ordered pairs within the documented "
        "domain of the operator), assertIsNone / assertIsNotNone, assertIsInstance (9 type sets, class or tuple), "
        "assertThat / assert_that with Equals / Is / Contains / IsInstance, plain or under Not, verbose or not - each "
        "without message, with '' and with a message; and every body of two and three calls over 12 representative "
        "calls. Exported by TLC (exhaustive); each replayed call by call on a real TestCase and as a whole inside a real "
        "test run. Non-trivial = operands that are equal but not identical (or identical but not equal), containment by "
        "equality, subclass / tuple of types, negation, a message, several calls; distinct by body.",
    )
    rep.assume("the universe's relations are Python's own: the driver checks ==, is, in, isinstance against the specification's truth value for every call before judging the assertion (a disagreement is a MACHINERY error)")
    rep.assume("`in` is explored on lists (identity or equality of an element) and on strings with string needles (substring); operands for which the operator itself raises TypeError are outside the documented domain")
    rep.assume("'message included' = the message text occurs in str(error) and in the failure's details; the wording around it and the verbose layout are not judged")
    rep.assume("arguments-not-mutated: the list operands hold the same objects after the call (no sentence says so explicitly; an assertion that changed its operands would change what later calls compare)")
    jobs = [("af_exp1.cfg", "single"), ("af_exp23.cfg", "multi")]
    for cfg, what in jobs:
        r = tlc.run_tlc("extra", "MCAssertFam", cfg, coverage=True, timeout=600, workers=4)
        tlc.require_ok(r, "X15 " + cfg)
        tlc.require_coverage(r, ACTIONS, "X15 " + cfg)
        rep.add_tlc(r, cfg)
        nb = 0
        for hist in tlc.exported(r):
            nb += 1
            pick = rep.seed + nb
            nk = nontrivial_key(hist)
            bad = replay(hist, pick)
            rep.case(sample={"body": shape(hist), "holds": hist[0]["holds"]} if nk and rep.evaluations % 4000 == 9 else None, nontrivial_key=nk)
            rep.traces += 1
            if bad:
                i, clause, exp, obs = bad
                rep.violation(clause, signature(hist, clause, i), {"behaviour": hist[: i + 1], "pick": pick, "cfg": cfg}, expected=exp, observed=obs)
        if nb == 0:
            raise tlc.MachineryError("X15 %s exported no behaviours" % cfg)
    if not rep.samples:
        rep.sample({"note": "see tlc_runs"})
    rep.exhaustive = True
    rep.extra["explanation"] = "exhaustive within the universe, the matcher alphabet and the bounds of spec/extra/af_exp*.cfg (MCAssertFam.tla)"
    return rep.finish()


def replay_file(path, pid="X15"):
    import json

    use_repo()
    v = json.load(open(path))
    sc = v["scenario"]
    hist = sc["behaviour"]
    bad = replay(hist, sc["pick"])
    if bad:
        print("VIOLATION property=X15 replay=%s" % path)
        print("  step=%s clause=%s expected=%r observed=%r" % bad)
        return 1
    print("replay: behaviour conforms")
    return 0
