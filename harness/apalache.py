"""Apalache obligations for the semaphore protocol (spec/conc/SemaphoreInd.tla): an inductive invariant for an
unbounded number of blocks per thread.  Three obligations (Init => IndInv, IndInv /\\ Next => IndInv',
IndInv => Released) plus a mutation (Acquire without the `holder = "none"` guard must break the step)."""

import os
import shutil
import subprocess
import tempfile

from .tlc import BUILD, SPEC, MachineryError


def _run(module, args, timeout=300):
    out = tempfile.mkdtemp(prefix="apa-", dir=BUILD)
    try:
        p = subprocess.run(
            ["apalache-mc", "check", "--out-dir=" + out] + args + [module],
            cwd=os.path.join(SPEC, "conc"), stdout=subprocess.PIPE, stderr=subprocess.STDOUT, text=True, timeout=timeout,
        )
        return ("EXITCODE: OK" in p.stdout and "NoError" in p.stdout), p.stdout[-1500:]
    finally:
        shutil.rmtree(out, ignore_errors=True)


def obligations(rep):
    os.makedirs(BUILD, exist_ok=True)
    obs = [
        ("Init => IndInv", ["--cinit=ConstInit", "--init=Init", "--inv=IndInv", "--length=0"]),
        ("IndInv /\\ Next => IndInv'", ["--cinit=ConstInit", "--init=IndInit", "--inv=IndInv", "--length=1"]),
        ("IndInv => Released", ["--cinit=ConstInit", "--init=IndInit", "--inv=Released", "--length=0"]),
    ]
    done = 0
    for name, args in obs:
        ok, out = _run("MC_SemaphoreInd.tla", args)
        if not ok:
            raise MachineryError("Apalache obligation failed: %s\n%s" % (name, out))
        done += 1
    # mutation: the step must fail when Acquire ignores the semaphore
    src = open(os.path.join(SPEC, "conc", "SemaphoreInd.tla")).read()
    mut = src.replace('Acquire(t) == /\\ pc[t] = "wait" /\\ holder = "none"', 'Acquire(t) == /\\ pc[t] = "wait"')
    mut = mut.replace("MODULE SemaphoreInd", "MODULE SemaphoreIndMut")
    mc = open(os.path.join(SPEC, "conc", "MC_SemaphoreInd.tla")).read().replace("MC_SemaphoreInd", "MC_SemaphoreIndMut").replace("EXTENDS SemaphoreInd", "EXTENDS SemaphoreIndMut")
    p1 = os.path.join(SPEC, "conc", "SemaphoreIndMut.tla")
    p2 = os.path.join(SPEC, "conc", "MC_SemaphoreIndMut.tla")
    try:
        open(p1, "w").write(mut)
        open(p2, "w").write(mc)
        ok, out = _run("MC_SemaphoreIndMut.tla", ["--cinit=ConstInit", "--init=IndInit", "--inv=IndInv", "--length=1"])
    finally:
        for p in (p1, p2):
            if os.path.exists(p):
                os.unlink(p)
    if ok:
        raise MachineryError("Apalache accepted the mutated semaphore protocol: the inductive check is vacuous")
    rep.extra["apalache"] = {
        "spec": "spec/conc/SemaphoreInd.tla (4 threads, unbounded blocks per thread)",
        "obligations": done,
        "discharged": done,
        "mutation_rejected": True,
    }
    rep.assume("SemaphoreInd.tla abstracts Threadsafe.tla: pc in {in, fin} = between Acquire and Release of a block or run-level call")
