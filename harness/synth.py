"""Turn an abstract test program (exported by TLC from spec/lifecycle/RunTest.tla) into a real
testtools.TestCase, run it against a result flavour, and record what happened.

Program: {"decor": bool, "onexc": bool, "script": {unit: [{"op","a","b"}, ...]}} with units
setUp / body / tearDown / c1.. (user cleanups).  Every unit body interprets its script; the
execution log, attribute snapshots and exception markers are written by the generated code itself."""

import sys
import unittest

import fixtures
import testtools
from testtools.matchers import Equals
from testtools import content as ttcontent
from testtools.content_type import ContentType
from testtools.matchers import Mismatch
from testtools.runtest import MultipleExceptions
from testtools.testresult import doubles, real

FLAVOURS = ("ext", "py26", "py27", "twisted", "tt", "stream", "none", "rtw")


class CustomExc(Exception):
    """Exception subclass with a user handler inserted at the FRONT of exception_handlers."""


class Custom2Exc(Exception):
    """Exception subclass whose handler is appended BEHIND (Exception, error): must never fire."""


class SubFail(AssertionError):
    pass


class SubSkip(testtools.TestCase.skipException):
    pass


class SubKI(KeyboardInterrupt):
    pass


class Abort(BaseException):
    """A user-defined exception that does not derive from Exception (like asyncio.CancelledError, GeneratorExit)."""


class Custom4Exc(Exception):
    """custom4: its (failure) handler is inserted into exception_handlers by setUp, i.e. while the test runs."""


class Base3(Exception):
    pass


class Sub3(Base3):
    """custom3: user handlers inserted as [(Base3, failure), (Sub3, skip)] - list order decides: failure."""


class ReasonObj:
    """A skip reason that is not a str but "supports being cast into a unicode string"."""

    def __init__(self, text):
        self.text = text

    def __str__(self):
        return self.text


PROP = {KeyboardInterrupt: "ki", SystemExit: "exit", SubKI: "subki", Abort: "abort"}


class Target:
    """The object patch() is applied to: one existing attribute, one missing."""

    a_exist = "orig"

    def __init__(self):
        self.a_none = None  # an instance attribute whose pre-test value is None (not "missing")


class Env:
    def __init__(self, prog):
        self.prog = prog
        self.reset()

    def reset(self):
        self.ran = []
        self.seen = []
        self.nraised = 0
        self.hx_unit = {}
        self.hx_total = 0
        self.unit_n = {}  # per-unit count of exceptions raised (markers are MARK-<unit>-<k>, k counted per unit)
        self.epoch = 0
        self.events = []  # ("handler", marker) and ("outcome", name) in one sequence
        self.anomalies = []
        self.obj = Target()
        self.fmarks = []  # (text snippet, cid) of exceptions raised by the framework, not by generated code

    def nxt(self, unit):
        """Index (1-based, per unit) of the next exception raised in `unit`."""
        self.nraised += 1
        self.unit_n[unit] = self.unit_n.get(unit, 0) + 1
        return self.unit_n[unit]

    def note_framework(self, snippet, unit, idx):
        self.fmarks.append((snippet, "tb:%s:%d" % (unit, idx)))

    def attrs(self):
        out = {}
        for a in ("a_exist", "a_missing", "a_none"):
            if not hasattr(self.obj, a):
                out[a] = "absent"
            else:
                v = getattr(self.obj, a)
                out[a] = "patched" if v == "patched" else "orig"
        return out


def lazy_content(env, cid):
    """Content whose bytes depend on when they are read (the 'epoch' = units started so far)."""

    def get():
        # several chunks, one empty, non-UTF-8 bytes
        return [cid.encode("utf8"), b"", b"|\xff\xfe|epoch=%d" % env.epoch]

    return ttcontent.Content(ContentType("application", "x-verif", {"k": "v"}), get)


def fixed_content(cid):
    return ttcontent.Content(ContentType("text", "plain", {"charset": "utf8"}), lambda: [cid.encode("utf8")])


def name_str(b, n):
    return b if n == 0 else "%s-%d" % (b, n)


MISMATCH_DETAILS = {"m0": [], "m1": ["diff"], "m2": ["traceback", "Failed expectation"], "m3": ["traceback-2", "traceback"]}
FIXTURE_DETAILS = {"f_ok": ["fxd"], "f_tb": ["traceback"], "f_two": ["traceback", "traceback-1"], "f_bad": ["fxd"], "f_cr": ["fxd"], "f_gr": ["fxd"], "f_nest": ["fxd"], "f_nestbad": ["fxd"], "f_nestcr": ["fxd"], "f_classic": ["fxd"]}


class SynthMismatch(Mismatch):
    def __init__(self, m, env=None):
        self.m = m
        self.env = env

    def describe(self):
        return "fe:%s synthetic mismatch" % self.m

    def get_details(self):
        # like every detail, the bytes are those read when the outcome is reported (a growing log, say): the
        # content says when it was read
        env = self.env

        def lazy(cid):
            if env is None:
                return fixed_content(cid)
            return ttcontent.Content(
                ContentType("text", "plain", {"charset": "utf8"}), lambda: [cid.encode("utf8"), b"|epoch=%d" % env.epoch]
            )

        return {b: lazy("mm:%s:%s" % (self.m, b)) for b in MISMATCH_DETAILS[self.m]}


class SynthMatcher:
    def __init__(self, m, env=None):
        self.m = m
        self.env = env

    def __str__(self):
        return "SynthMatcher(%s)" % self.m

    def match(self, other):
        return SynthMismatch(self.m, self.env)


class ChildFixture(fixtures.Fixture):
    """Fixture used from inside SynthFixture f_nest*: may fail in setUp (f_nestbad) or in cleanUp (f_nestcr)."""

    def __init__(self, parent):
        super().__init__()
        self.parent = parent

    def _setUp(self):
        p = self.parent
        env = p.env
        cid = "fx:%s:fxd-1" % p.f
        p.source[cid] = [cid.encode("utf8")]
        self.addDetail("fxd", p._sourced(cid))
        if p.f == "f_nestbad":
            i = env.nxt(env.current_unit)
            env.note_framework("SetupError", env.current_unit, env.nxt(env.current_unit))  # SetupError of the child
            env.note_framework("SetupError", env.current_unit, env.nxt(env.current_unit))  # SetupError of the parent
            raise RuntimeError("MARK-%s-%d" % (env.current_unit, i))
        if p.f == "f_nestcr":
            self.addCleanup(self._clean_raises)

    def _clean_raises(self):
        env = self.parent.env
        raise RuntimeError("MARK-fxclean:%s-%d" % (self.parent.f, env.nxt("fxclean:" + self.parent.f)))


class ClassicFixture(fixtures.Fixture):
    """Old-style fixture that overrides setUp(): attaches a detail, then is interrupted."""

    def __init__(self, env, f):
        super().__init__()
        self.env = env
        self.f = f

    def setUp(self):
        super().setUp()
        cid = "fx:%s:fxd" % self.f
        self.addDetail("fxd", fixed_content(cid))
        raise KeyboardInterrupt("MARK-%s-%d" % (self.env.current_unit, self.env.nxt(self.env.current_unit)))


class SynthFixture(fixtures.Fixture):
    def __init__(self, env, f):
        super().__init__()
        self.env = env
        self.f = f

    def _sourced(self, cid):
        """A detail that is read lazily, once, from a source which the fixture destroys in its cleanUp
        (like content_from_file on a file in a temporary directory)."""
        src = self.source
        env, f = self.env, self.f

        def read():
            if f == "f_gr":
                raise RuntimeError("MARK-fxgather:%s-%d" % (f, env.nxt("fxgather:" + f)))
            for chunk in list(src.get(cid, ())):
                yield chunk

        return ttcontent.Content(ContentType("text", "plain", {"charset": "utf8"}), read)

    def _setUp(self):
        self.source = {}
        for b in FIXTURE_DETAILS[self.f]:
            cid = "fx:%s:%s" % (self.f, b)
            self.source[cid] = [cid.encode("utf8")]
            self.addDetail(b, self._sourced(cid))
        if self.f in ("f_nest", "f_nestbad", "f_nestcr"):
            # a child fixture used by this one (its details are merged into ours as fxd-1)
            self.useFixture(ChildFixture(self))
        if self.f == "f_bad":
            i = self.env.nxt(self.env.current_unit)
            # the SetupError that fixtures adds
            self.env.note_framework("SetupError", self.env.current_unit, self.env.nxt(self.env.current_unit))
            raise RuntimeError("MARK-%s-%d" % (self.env.current_unit, i))
        self.addCleanup(self._clean)

    def _clean(self):
        env = self.env
        unit = "fxclean:" + self.f
        env.ran.append(unit)
        env.seen.append(env.attrs())
        env.epoch += 1
        self.source.clear()  # the fixture's resources are gone now
        if self.f == "f_cr":
            raise RuntimeError("MARK-%s-%d" % (unit, env.nxt(unit)))


def make_exc(case, env, unit, kind):
    """Build (not raise) the exception object for `kind`; each gets a unique marker MARK-<unit>-<i>."""
    k = env.nxt(unit)
    mark = "MARK-%s-%d" % (unit, k)
    if kind == "fail":
        return case.failureException(mark)
    if kind == "err":
        return RuntimeError(mark)
    if kind == "skip":
        return case.skipException("skipreason:%s:%d" % (unit, k))
    if kind == "skipobj":
        return case.skipException(ReasonObj("skipreason:%s:%d" % (unit, k)))
    if kind == "subskip":
        return SubSkip("skipreason:%s:%d" % (unit, k))
    if kind == "ki":
        return KeyboardInterrupt(mark)
    if kind == "exit":
        return SystemExit(mark)
    if kind == "subki":
        return SubKI(mark)
    if kind == "custom":
        return CustomExc(mark)
    if kind == "custom2":
        return Custom2Exc(mark)
    if kind == "subfail":
        return SubFail(mark)
    if kind == "abort":
        return Abort(mark)
    if kind == "custom3":
        return Sub3(mark)
    if kind == "custom4":
        return Custom4Exc(mark)
    raise ValueError(kind)


def exc_info_of(exc):
    try:
        raise exc
    except BaseException:
        return sys.exc_info()


def _custom_handler(case, result, exc):
    result.addFailure(case, details=case.getDetails())


def _sub3_handler(case, result, exc):  # pragma: no cover - shadowed by the Base3 handler before it in the list
    case._add_reason("shadowed handler fired")
    result.addSkip(case, details=case.getDetails())


def _custom2_handler(case, result, exc):  # pragma: no cover - must never be reached
    result.addSuccess(case, details=case.getDetails())


# what a unit that returns normally hands back: truthy and falsy values alike
RETURNED = ("a value", None, 0, ["x"], False, object())


class SynthBase(testtools.TestCase):
    """Interpreter of unit scripts."""

    def __init__(self, env, method="test_body"):
        super().__init__(method)
        self.env = env
        if env.prog.get("preforce"):
            self.force_failure = True
        if env.prog["onexc"]:
            # the customised instance: user-inserted handlers at the front (take precedence) and behind Exception
            # (never fires), and an addOnException handler.  A pristine instance (onexc false) inserts nothing:
            # for it the custom classes are plain Exceptions, whatever its siblings inserted
            self.exception_handlers.insert(0, (Sub3, _sub3_handler))
            self.exception_handlers.insert(0, (Base3, _custom_handler))
            self.exception_handlers.insert(0, (CustomExc, _custom_handler))
            self.exception_handlers.append((Custom2Exc, _custom2_handler))
            self.addOnException(self._on_exception)

    def _on_exception(self, exc_info):
        env = self.env
        env.events.append(("handler", str(exc_info[1])))
        # "add some diagnostic state to the test details dict": a detail per exception, named hx, hx-1, ...
        unit = "force" if "Forced Test Failure" in str(exc_info[1]) else env.current_unit
        if str(exc_info[1]).startswith("MARK-fxclean:") or str(exc_info[1]).startswith("MARK-fxgather:"):
            unit = str(exc_info[1])[5:].rsplit("-", 1)[0]
        env.hx_unit[unit] = env.hx_unit.get(unit, 0) + 1
        self.addDetail(name_str("hx", env.hx_total), fixed_content("hx:%s:%d" % (unit, env.hx_unit[unit])))
        env.hx_total += 1

    def defaultTestResult(self):
        return self.env.default_result

    def setUp(self):
        return self._exec("setUp")

    def tearDown(self):
        return self._exec("tearDown")

    def _body(self):
        if not self.env.prog.get("xfdec"):
            return self._exec("body")
        # under unittest.expectedFailure every Exception leaving the method is swallowed into _ExpectedFailure:
        # framework exceptions announced inside it (SetupError, empty MultipleExceptions) are never rendered
        n = len(self.env.fmarks)
        try:
            return self._exec("body")
        except Exception:
            del self.env.fmarks[n:]
            raise

    def _exec(self, unit):
        env = self.env
        env.ran.append(unit)
        env.seen.append(env.attrs())
        env.epoch += 1
        env.current_unit = unit
        upcalled = False
        if unit == "setUp" and env.prog["onexc"]:
            # "This list is able to be modified at any time": a handler inserted while the test is running
            self.exception_handlers.insert(0, (Custom4Exc, _custom_handler))

        def upcall():
            nonlocal upcalled
            if upcalled:
                return
            upcalled = True
            if unit == "setUp":
                testtools.TestCase.setUp(self)
            elif unit == "tearDown":
                testtools.TestCase.tearDown(self)

        for st in env.prog["script"][unit]:
            op, a, b = st["op"], st["a"], st["b"]
            env.current_unit = unit
            if op == "upcall":
                upcall()
            elif op == "addCleanup":
                self.addCleanup(self._exec, a)
            elif op == "addDetail":
                if a == "empty":
                    # a detail whose content yields no bytes at all must still arrive (under its name)
                    self.addDetail(name_str(a, b), ttcontent.Content(ContentType("application", "octet-stream"), lambda: []))
                else:
                    self.addDetail(name_str(a, b), lazy_content(env, "user:%s-%d" % (a, b)))
            elif op == "expect":
                self.expectThat("valueé", SynthMatcher(a, env))
            elif op == "expectok":
                self.expectThat("valueé", Equals("valueé"))  # a matching expectation changes nothing
            elif op == "sibling":
                _run_sibling(self)
            elif op == "patch":
                self.patch(env.obj, a, "patched")
            elif op == "useFixture":
                self.useFixture(SynthFixture(env, a))
            elif op == "ret":
                upcall()
                # user code may return anything (`return self.resource`, dict.pop as a cleanup): a value is not a verdict
                return RETURNED[(len(env.ran) + sum(len(sc) for sc in env.prog["script"].values())) % len(RETURNED)]
            elif op == "retnoup":
                # the framework's ValueError
                env.note_framework("TestCase.%s was not called" % unit, unit, env.nxt(unit))
                return RETURNED[(len(env.ran) + sum(len(sc) for sc in env.prog["script"].values())) % len(RETURNED)]
            elif op == "failfixture":
                self.useFixture(ClassicFixture(env, a) if a == "f_classic" else SynthFixture(env, a))
                env.anomalies.append("failfixture did not raise in %s" % unit)
                return
            elif op == "raise":
                self._raise(unit, a)
            elif op == "raise2":
                e1 = exc_info_of(make_exc(self, env, unit, a))
                e2 = exc_info_of(make_exc(self, env, unit, b))
                raise MultipleExceptions(e1, e2)
            elif op == "raise2n":
                e1 = exc_info_of(make_exc(self, env, unit, a))
                e2 = exc_info_of(make_exc(self, env, unit, b))
                raise MultipleExceptions(exc_info_of(MultipleExceptions(e1, e2)))
            elif op == "raise0":
                env.note_framework("MultipleExceptions", unit, env.nxt(unit))
                raise MultipleExceptions()
            else:
                raise AssertionError("unknown op %r" % (op,))
        env.anomalies.append("script of %s has no final step" % unit)

    def _raise(self, unit, kind):
        env = self.env
        if kind == "xfail":
            k = env.nxt(unit)
            mark = "MARK-%s-%d" % (unit, k)

            def predicate():
                raise self.failureException(mark)

            self.expectFailure("xfreason:%s:%d" % (unit, k), predicate)
            env.anomalies.append("expectFailure returned")
        elif kind == "uxs":
            self.expectFailure("uxreason:%s:%d" % (unit, env.nxt(unit)), lambda: None)
            env.anomalies.append("expectFailure returned")
        else:
            raise make_exc(self, env, unit, kind)


def _run_sibling(case):
    """Run a sibling of `case` (clone_test_with_new_id = a shallow copy of the constructed test, what scenario / attr
    multiplication produces) to completion, right now, against a result of its own.  The sibling has a trivial program
    of its own (one cleanup, success); its run must not touch `case`."""
    sib = testtools.clone_test_with_new_id(case, case.id() + "-sibling")
    log = []
    sib.setUp = lambda: testtools.TestCase.setUp(sib)
    sib.tearDown = lambda: testtools.TestCase.tearDown(sib)

    def body():
        sib.addCleanup(log.append, "sibling-cleanup")
        log.append("sibling-body")

    setattr(sib, sib._testMethodName, body)
    sib.run(testtools.TestResult())


class SynthPlain(SynthBase):
    def test_body(self):
        return self._body()


class SynthRunTestWith(SynthBase):
    """Same test, but the method carries @run_test_with(RunTest) (the runner is made by the decorator's factory)."""

    @testtools.run_test_with(testtools.RunTest)
    def test_body(self):
        return self._body()


def _async_factory(case, handlers=None, last_resort=None):
    """AsynchronousDeferredRunTest on a fresh virtual-time reactor (harness/vreactor.py), generous timeout, no log
    capture detail: the synthesised programs are synchronous, so the Twisted runner must behave like RunTest."""
    from testtools.twistedsupport import AsynchronousDeferredRunTest

    from .vreactor import VReactor

    return AsynchronousDeferredRunTest(
        case, handlers, last_resort, reactor=VReactor(), timeout=1000, store_twisted_logs=False
    )


def _syncd_factory(case, handlers=None, last_resort=None):
    from testtools.twistedsupport import SynchronousDeferredRunTest

    return SynchronousDeferredRunTest(case, handlers, last_resort)


class SynthAsync(SynthBase):
    """Same test run by AsynchronousDeferredRunTest (C02/C03/C05 are stated for every test, whatever runs it)."""

    @testtools.run_test_with(_async_factory)
    def test_body(self):
        return self._body()


class SynthSyncD(SynthBase):
    @testtools.run_test_with(_syncd_factory)
    def test_body(self):
        return self._body()


RUNNER_CLASSES = {"async": SynthAsync, "syncd": SynthSyncD}


class SynthExpectedFailure(SynthBase):
    """The test method carries unittest's expectedFailure decorator."""

    @unittest.expectedFailure
    def test_body(self):
        return self._body()


class SynthSkipped(SynthBase):
    @testtools.skip("decorated-skip")
    def test_body(self):
        return self._body()


class SynthSkippedEmpty(SynthBase):
    """The reason of a skip is data the model abstracts from: an empty one must behave like any other."""

    @testtools.skip("")
    def test_body(self):
        return self._body()


# ---------------------------------------------------------------------------------------------
# result flavours


OUTCOME_OF = {
    "addSuccess": "success",
    "addFailure": "failure",
    "addError": "error",
    "addSkip": "skip",
    "addExpectedFailure": "xfail",
    "addUnexpectedSuccess": "uxsuccess",
}
STREAM_OUT = {"success": "success", "fail": "fail*", "skip": "skip", "xfail": "xfail", "uxsuccess": "uxsuccess"}


class ExtRecorder(doubles.ExtendedTestResult):
    """Extended double that snapshots the details it is handed AT RECEIVE TIME."""

    def __init__(self, env):
        super().__init__()
        self.env = env
        self.snap = None

    def _snap(self, name, details):
        self.env.events.append(("outcome", name))
        out = []
        for nm, c in (details or {}).items():
            try:
                data = b"".join(c.iter_bytes())
            except Exception as ex:  # a detail that cannot be read is an observation, not a crash
                data = ("<unreadable %r>" % (ex,)).encode()
            out.append((nm, repr(c.content_type), data))
        self.snap = out

    def addSuccess(self, test, details=None):
        self._snap("addSuccess", details)
        super().addSuccess(test, details=details)

    def addFailure(self, test, err=None, details=None):
        self._snap("addFailure", details)
        super().addFailure(test, err, details=details)

    def addError(self, test, err=None, details=None):
        self._snap("addError", details)
        super().addError(test, err, details=details)

    def addSkip(self, test, reason=None, details=None):
        self._snap("addSkip", details)
        super().addSkip(test, reason, details=details)

    def addExpectedFailure(self, test, err=None, details=None):
        self._snap("addExpectedFailure", details)
        super().addExpectedFailure(test, err, details=details)

    def addUnexpectedSuccess(self, test, details=None):
        self._snap("addUnexpectedSuccess", details)
        super().addUnexpectedSuccess(test, details=details)


class LoggingTT(real.TestResult):
    """testtools.TestResult itself, with a call log on the side."""

    def __init__(self):
        super().__init__()
        self._events = []


def _wrap(name):
    def m(self, *a, **kw):
        self._events.append((name,) + a)
        return getattr(real.TestResult, name)(self, *a, **kw)

    return m


for _n in ("startTest", "stopTest") + tuple(OUTCOME_OF):
    setattr(LoggingTT, _n, _wrap(_n))


def make_result(flavour, env):
    if flavour in ("ext", "none", "rtw"):
        return ExtRecorder(env)
    if flavour == "py26":
        return doubles.Python26TestResult()
    if flavour == "py27":
        return doubles.Python27TestResult()
    if flavour == "twisted":
        return doubles.TwistedTestResult()
    if flavour == "tt":
        return LoggingTT()
    if flavour == "stream":
        sink = doubles.StreamResult()
        r = real.ExtendedToStreamDecorator(sink)
        r._sink = sink
        return r
    raise ValueError(flavour)


def project_events(flavour, res):
    """-> (names, outcome, outs) in the vocabulary of the spec; outs = every outcome reported, in order."""
    names = []
    outs = []
    outcome = "none"
    if flavour == "stream":
        for ev in res._sink._events:
            if ev[0] != "status":
                continue
            status = ev[2]
            if status == "inprogress":
                names.append("startTest")
            elif status is not None:
                names.append("outcome")
                outcome = STREAM_OUT.get(status, "other:%s" % status)
                outs.append(outcome)
        return names, outcome, outs
    for ev in res._events:
        n = ev[0]
        if n in ("startTest", "stopTest"):
            names.append(n)
        elif n in OUTCOME_OF:
            names.append("outcome")
            outcome = OUTCOME_OF[n]
            outs.append(outcome)
        elif n in ("startTestRun", "stopTestRun", "tags", "time", "progress"):
            continue
        else:
            names.append("other:%s" % n)
    return names, outcome, outs


def run_program(prog, flavour):
    """Run one synthesised test against one flavour; return the observation record."""
    env = Env(prog)
    cls = SynthSkipped if prog["decor"] else SynthPlain
    case = cls(env)
    return _run(case, env, flavour), case, env


def _run(case, env, flavour):
    res = make_result(flavour, env)
    env.default_result = res
    prop = "none"
    try:
        if flavour == "none":
            case.run(None)
        else:
            case.run(res)
    except BaseException as ex:
        prop = PROP.get(type(ex), "other:%s" % type(ex).__name__)
    names, outcome, outs = project_events(flavour, res)
    ok = "na"
    if flavour == "tt":
        ok = "true" if res.wasSuccessful() else "false"
    obs = {
        "name": flavour,
        "names": names,
        "outcome": outcome,
        "outs": outs,
        "prop": prop,
        "hasStop": flavour != "stream",
        "ok": ok,
    }
    return obs, res
