"""Batch validation of recorded executions by TLC (binding B2), shared by c12.py and c13.py.

A trace spec (`<Module>Trace.tla`) reads a JSON array of traces from IOEnv.TRACE_FILE, selects one with the
variable `tid`, consumes one event per step (variable `l`) and prints <<"ACCEPT", tid>> when a trace has been
consumed completely.  Two configs: strict (events must be the model's actions) and loose (state reconstructed
from the observation only); the property's invariants are INVARIANTs of both.

Verdict per trace:
  ok                      strict accepts, no invariant violated
  ("violation", inv, l)   an invariant of the property fails on the state reached after l events
                          (decided on the loose reconstruction whenever strict did not accept)
                          (invariants with an open known finding are reported by the spec through
                          <<"INVFAIL", name, tid, l>> prints instead of stopping the batch)
  ("drift", l)            strict stops accepting at event l but the reconstructed execution satisfies every
                          invariant: the code differs from the model in a way the property does not constrain
"""

import json
import os
import re
import tempfile

from . import tlc

CHUNK = 1500


def _run(area, module, cfg, traces, idxs, progress=False, workers=4, timeout=900, env=None):
    os.makedirs(tlc.BUILD, exist_ok=True)
    fd, path = tempfile.mkstemp(prefix="traces-", suffix=".json", dir=tlc.BUILD)
    try:
        with os.fdopen(fd, "w") as fh:
            json.dump([traces[i] for i in idxs], fh)
        r = tlc.run_tlc(
            area,
            module,
            cfg,
            workers=workers,
            env=dict(env or {}, TRACE_FILE=path, TRACE_PROGRESS="1" if progress else "0"),
            timeout=timeout,
            collect=("ACCEPT", "AT", "INVFAIL"),
            heap="6g",
        )
    finally:
        try:
            os.unlink(path)
        except OSError:
            pass
    if r.error is not None or (r.rc != 0 and r.violated is None):
        raise tlc.MachineryError("trace validation %s/%s: TLC failed: %s\n%s" % (module, cfg, r.error, r.out[-3000:]))
    accepted = set()
    reached = {}
    r.soft = {}  # trace index -> (invariant reported by the spec's INVFAIL print, first position)
    for t in r.printed:
        if t[0] == "ACCEPT":
            accepted.add(idxs[t[1] - 1])
        elif t[0] == "INVFAIL":
            i = idxs[t[2] - 1]
            if i not in r.soft or t[3] < r.soft[i][1]:
                r.soft[i] = (t[1], t[3])
        elif t[0] == "AT":
            i = idxs[t[1] - 1]
            reached[i] = max(reached.get(i, 0), t[2])
    bad = None
    if r.violated is not None:
        tids = re.findall(r"/\\ tid = (\d+)", r.out)
        ls = re.findall(r"/\\ l = (\d+)", r.out)
        if not tids or not ls:
            raise tlc.MachineryError("trace validation: cannot locate the violating trace\n%s" % r.out[-2000:])
        bad = (idxs[int(tids[-1]) - 1], r.violated, int(ls[-1]))
    return r, accepted, reached, bad


class Validator:
    def __init__(self, area, module, strict_cfg, loose_cfg, max_findings=3, chunk=CHUNK, parallel=2, workers=4, env=None):
        self.area = area
        self.module = module
        self.strict_cfg = strict_cfg
        self.loose_cfg = loose_cfg
        self.max_findings = max_findings
        self.chunk = chunk
        self.parallel = parallel
        self.workers = workers
        self.env = env
        self.tlc_results = []  # (what, TLCResult)

    def _sweep(self, cfg, traces, idxs, out, findings_left):
        """Run cfg over idxs (chunked, chunks in parallel); returns (accepted set, [(i, inv, l)], cut short?)."""
        from concurrent.futures import ThreadPoolExecutor

        accepted = set()
        vio = []
        self.soft = getattr(self, "soft", {})
        chunks = [idxs[a : a + self.chunk] for a in range(0, len(idxs), self.chunk)]
        with ThreadPoolExecutor(self.parallel) as pool:
            first = list(pool.map(lambda c: _run(self.area, self.module, cfg, traces, c, workers=self.workers, env=self.env), chunks))
        for chunk, res in zip(chunks, first):
            while True:
                r, acc, _, bad = res
                self.tlc_results.append((cfg, r))
                if bad is None:
                    accepted |= acc
                    for i, sv in r.soft.items():
                        if i in acc:
                            self.soft[(cfg, i)] = sv
                    break
                vio.append(bad)
                if len(vio) >= findings_left:
                    return accepted, vio, True
                chunk = [i for i in chunk if i != bad[0]]
                if not chunk:
                    break
                res = _run(self.area, self.module, cfg, traces, chunk, workers=self.workers, env=self.env)
        return accepted, vio, False

    def validate(self, traces):
        """Returns dict index -> verdict for every trace that is not plainly ok, and the number validated."""
        n = len(traces)
        verdicts = {}
        if n == 0:
            return verdicts, 0
        idxs = list(range(n))
        accepted, vio, cut = self._sweep(self.strict_cfg, traces, idxs, verdicts, self.max_findings)
        for i, inv, l in vio:
            verdicts[i] = ("violation", inv, l)
        for i in accepted:
            if (self.strict_cfg, i) in self.soft and i not in verdicts:
                verdicts[i] = ("violation",) + tuple(self.soft[(self.strict_cfg, i)])
        if cut:
            return verdicts, len(accepted) + len(vio)
        rest = [i for i in idxs if i not in accepted and i not in verdicts]
        validated = len(accepted) + len(vio)
        if rest:
            # not behaviours of the model: let the invariants decide on the reconstructed execution
            lacc, lvio, cut = self._sweep(self.loose_cfg, traces, rest, verdicts, self.max_findings)
            for i, inv, l in lvio:
                verdicts[i] = ("violation", inv, l)
            validated += len(lacc) + len(lvio)
            for i in rest:
                if i in verdicts:
                    continue
                if i in lacc and (self.loose_cfg, i) in self.soft:
                    verdicts[i] = ("violation",) + tuple(self.soft[(self.loose_cfg, i)])
                    continue
                if i in lacc:
                    # where did strict stop?  (only for the first few: one JVM each)
                    if sum(1 for v in verdicts.values() if v[0] == "drift") < 3:
                        _, _, reached, _ = _run(self.area, self.module, self.strict_cfg, traces, [i], progress=True, workers=1, env=self.env)
                        verdicts[i] = ("drift", reached.get(i, 0))
                    else:
                        verdicts[i] = ("drift", -1)
                elif not cut:
                    # not even the loose reconstruction could consume it: malformed trace = harness problem
                    raise tlc.MachineryError(
                        "trace %d not consumable by %s: %s" % (i, self.loose_cfg, json.dumps(traces[i])[:1500])
                    )
        return verdicts, validated
