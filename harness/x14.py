"""X14 - traceback rendering: TracebackContent, StacktraceContent / StackLinesContent, TestResult(tb_locals=...), the
`__unittest` frame hiding and its switch StackLinesContent.HIDE_INTERNAL_STACK.

Spec: spec/extra/TbRender.tla.  TLC renders every exception of the bounded instances (a synthetic call stack of framework /
user frames, possibly chained by cause / context / suppressed to an exception raised through a sub-stack) through the
code-shaped mechanism (the `while tb and "__unittest" in f_globals` loop, TracebackException.format) and checks the token
sequence against predicates over the frame kinds only (UserFramesShown, RunnerLevelsHidden, FullStackWhenNotHiding,
EndsWithException, ChainMeaning, LocalsMeaning, HeaderMeaning, StackMeaning); every behaviour (the exception, the two
switches toggled, renderings through the public ways in) is exported.

The driver compiles the stack as real Python functions (modules with and without `__unittest`), raises the real
exceptions, and renders them the way each step says: TracebackContent(exc_info, test, capture_locals), testtools.TestResult
(tb_locals).addError / addFailure with an exc_info, a real TestCase run whose method calls into the stack (the runner's own
frames on top), StacktraceContent(prefix, postfix) called from the innermost frame.  The text is parsed back into tokens
(header, frame, locals, exception line, connecting sentence) and compared with the specification after every step, on the
documented part: framework frames below the first user frame and in a chained traceback are not compared while hiding is
on (whether they are shown is not documented; a difference there is DRIFT).  Content types are compared too.
"""

import functools
import os
import re
import sys

from . import tlc
from .common import Report, jdump, use_repo

PROPS = ("X14",)
ACTIONS = ["SetHide", "SetLocals", "Render"]
VDIR = "/virtual/x14"
PRE, POST = "PREFIX é\n", "POSTFIX €"


class X14Main(Exception):
    pass


class X14Chained(Exception):
    pass


# ----------------------------------------------------------------------------------------------------------------------
# the synthetic stack


class Factory:
    """Real functions for abstract frames; fw functions live in globals that have `__unittest`."""

    def __init__(self):
        self.base = {
            "user": {"__name__": "x14_user", "_sys": sys, "_Main": X14Main, "_Chained": X14Chained, "_cell": {}},
            "fw": {"__name__": "x14_fw", "__unittest": True, "_sys": sys, "_Main": X14Main, "_Chained": X14Chained, "_cell": {}},
        }
        self.cell = {}
        for b in self.base.values():
            b["_cell"] = self.cell
        self.cache = {}

    def fn(self, name, kind, body, catch):
        key = (name, kind, body, catch)
        if key in self.cache:
            return self.cache[key]
        if body == "pass":
            lines = ["return nxt()"]
        elif body == "raise":
            lines = ["raise _Main('main-message')"]
        elif body == "craise":
            lines = ["raise _Chained('chained-message')"]
        elif body == "stack":
            lines = ["return _cell['act'](_cell['pre'], _cell['post'])"]
        elif body.startswith("chain:"):
            _, chain, sub = body.split(":")
            how = {"cause": " from e", "context": "", "suppressed": " from None"}[chain]
            lines = [
                "try:",
                "    nxt()" if sub == "call" else "    raise _Chained('chained-message')",
                "except _Chained as e:",
                "    raise _Main('main-message')" + how,
            ]
        else:
            raise tlc.MachineryError("X14: unknown body %r" % body)
        if catch:
            lines = ["try:"] + ["    " + ln for ln in lines] + ["except _Main:", "    return _sys.exc_info()"]
        src = "def %s(nxt):\n    loc_%s = '%s-value'\n" % (name, name, name) + "".join("    %s\n" % ln for ln in lines)
        g = dict(self.base[kind])
        exec(compile(src, "%s/%s.py" % (VDIR, kind), "exec"), g)
        self.cache[key] = g[name]
        return g[name]

    def build(self, cfg, api):
        """-> a nullary callable running the whole stack."""
        stack, chain, cstack = cfg["stack"], cfg["chain"], cfg["cstack"]
        n = len(stack)
        sub = None
        for i in range(len(cstack), 0, -1):
            body = "craise" if i == len(cstack) else "pass"
            sub = functools.partial(self.fn("c%d" % i, cstack[i - 1], body, False), sub)
        if api == "stack":
            last = "stack"
        elif chain == "none":
            last = "raise"
        else:
            last = "chain:%s:%s" % (chain, "call" if cstack else "direct")
        call = sub
        for i in range(n, 0, -1):
            body = last if i == n else "pass"
            catch = i == 1 and api in ("content", "result")
            call = functools.partial(self.fn("m%d" % i, stack[i - 1], body, catch), call)
        return call


def kinds_of(cfg, api):
    """frame name -> kind, for the main and the chained traceback; the main frame names in order."""
    main = ([("R", "fw"), ("T", "user")] if api == "run" else []) + [("m%d" % (i + 1), k) for i, k in enumerate(cfg["stack"])]
    chained = [("h", cfg["stack"][-1])] + [("c%d" % (i + 1), k) for i, k in enumerate(cfg["cstack"])]
    return main, chained


# ----------------------------------------------------------------------------------------------------------------------
# text -> tokens

FILE_RE = re.compile(r'^  File "([^"]+)", line \d+, in (\S+)$')
LOCAL_RE = re.compile(r"^    [A-Za-z_]\w* = ")
EXC_RE = re.compile(r"^(?:[\w.]+\.)?X14(Main|Chained)(?::|$)")
SEP = {
    "The above exception was the direct cause of the following exception:": "cause",
    "During handling of the above exception, another exception occurred:": "context",
}


def tok(k, e, f="none"):
    return {"k": k, "e": e, "f": f}


def parse_tb(text, cfg, testtools_dir):
    """Tokens of a rendered traceback; None when a line cannot be understood."""
    raiser = "m%d" % len(cfg["stack"])
    segs = [[]]
    for ln in text.split("\n"):
        if ln in SEP:
            segs.append(SEP[ln])
            segs.append([])
        else:
            segs[-1].append(ln)
    out = []
    for si, seg in enumerate(segs):
        if isinstance(seg, str):
            out.append(tok("sep", seg))
            continue
        # the exception a segment belongs to is named by its exception line
        names = [EXC_RE.match(ln).group(1) for ln in seg if EXC_RE.match(ln)]
        if len(names) != 1:
            return None
        e = "main" if names[0] == "Main" else "chained"
        cur = None
        real_file = False
        skipped_source = False
        for ln in seg:
            if not ln.strip():
                continue
            if ln == "Traceback (most recent call last):":
                out.append(tok("hdr", e))
                cur = None
                continue
            m = FILE_RE.match(ln)
            if m:
                path, func = m.groups()
                if path.startswith(VDIR + "/"):
                    name = "h" if (e == "chained" and func == raiser) else func
                    real_file = False
                elif path.startswith(testtools_dir + os.sep):
                    name = "R"
                    real_file = True
                elif func == "test_method":
                    name = "T"
                    real_file = True
                else:
                    name = "?%s:%s" % (os.path.basename(path), func)
                    real_file = True
                skipped_source = False
                if name == "R" and cur == "R":
                    continue  # the runner's frames are one abstract frame
                out.append(tok("frame", e, name))
                cur = name
                continue
            if EXC_RE.match(ln):
                out.append(tok("exc", e))
                cur = None
                continue
            if ln.startswith("    ") and cur is not None:
                body = ln.strip()
                if set(body) <= set("^~ "):
                    continue  # caret line
                if real_file and not skipped_source:
                    skipped_source = True  # the source line of a frame of a real file
                    continue
                if LOCAL_RE.match(ln):
                    if out[-1] != tok("locals", e, cur):
                        out.append(tok("locals", e, cur))
                    continue
                continue
            return None
    return out


def parse_stack(text):
    """-> (has prefix, has postfix, [function names of synthetic frames, outermost first])"""
    has_pre, has_post = text.startswith(PRE), text.endswith(POST)
    names = []
    for ln in text.split("\n"):
        m = FILE_RE.match(ln)
        if m and m.group(1).startswith(VDIR + "/"):
            names.append(m.group(2))
    return has_pre, has_post, names


# ----------------------------------------------------------------------------------------------------------------------
# comparison on the documented part


def judged(tokens, cfg, api, hide):
    """Drop what the documentation does not speak about: while hiding, framework frames that are not runner levels
    (below the first user frame of the main traceback, anywhere in a chained one)."""
    if not hide:
        return list(tokens)
    main, chained = kinds_of(cfg, api)
    leading = set()
    for name, kind in main:
        if kind != "fw":
            break
        leading.add(name)
    kmain, kch = dict(main), dict(chained)
    out = []
    for t in tokens:
        if t["k"] in ("frame", "locals"):
            kind = (kmain if t["e"] == "main" else kch).get(t["f"])
            if kind == "fw" and not (t["e"] == "main" and t["f"] in leading):
                continue
        out.append(t)
    # a header without frames left under it says nothing either
    res = []
    for i, t in enumerate(out):
        if t["k"] == "hdr" and not (i + 1 < len(out) and out[i + 1]["k"] == "frame" and out[i + 1]["e"] == t["e"]):
            continue
        res.append(t)
    return res


def clause_for(exp, got, cfg, api, hide):
    main, chained = kinds_of(cfg, api)
    kmain = dict(main)
    frames = lambda ts, e: [t["f"] for t in ts if t["k"] == "frame" and t["e"] == e]  # noqa: E731
    users = lambda ts: [f for f in frames(ts, "main") if kmain.get(f) == "user"]  # noqa: E731
    if not got or got[-1] != tok("exc", "main"):
        return "ends-with-exception-line"
    chain_part = lambda ts: [(t["k"], t["e"]) for t in ts if t["k"] == "sep" or (t["k"] == "exc" and t["e"] == "chained")]  # noqa: E731
    if chain_part(exp) != chain_part(got):
        return "chained-exception-shown" if cfg["chain"] in ("cause", "context") else "no-chain-shown"
    if users(exp) != users(got):
        return "user-frames-shown"
    if frames(exp, "main") != frames(got, "main"):
        return "runner-levels-hidden" if hide else "full-stack-when-not-hiding"
    if frames(exp, "chained") != frames(got, "chained"):
        return "chained-exception-shown"
    if [t for t in exp if t["k"] == "locals"] != [t for t in got if t["k"] == "locals"]:
        return "locals-iff-asked"
    return "layout"


# ----------------------------------------------------------------------------------------------------------------------


def check_ct(content):
    ct = content.content_type
    got = (ct.type, ct.subtype, dict(ct.parameters))
    want = ("text", "x-traceback", {"language": "python", "charset": "utf8"})
    return None if got == want else (want, got)


def render(factory, cfg, api, hide, locs, pick):
    """-> ("tb", text, ct problem) or ("stack", text, ct problem)"""
    import testtools
    from testtools import content as tcontent

    tcontent.StackLinesContent.HIDE_INTERNAL_STACK = hide
    call = factory.build(cfg, api)
    if api == "stack":
        factory.cell.update(act=tcontent.StacktraceContent, pre=PRE, post=POST)
        c = call()
        return "stack", c.as_text(), check_ct(c)
    if api == "content":
        ei = call()
        c = tcontent.TracebackContent(ei, testtools.TestCase("run"), capture_locals=locs)
        return "tb", c.as_text(), check_ct(c)
    if api == "result":
        ei = call()
        r = testtools.TestResult(tb_locals=locs) if locs or pick % 2 else testtools.TestResult()
        t = testtools.PlaceHolder("x14.placeholder")
        if pick % 3:
            r.addError(t, ei)
            return "tb", r.errors[-1][1], None
        r.addFailure(t, ei)
        return "tb", r.failures[-1][1], None
    # a real run: the runner's frames, the test method, then the stack
    got = {}

    class Rec(testtools.TestResult):
        def addError(self, test, err=None, details=None):
            got["details"] = details
            super().addError(test, err, details=details)

    class Case(testtools.TestCase):
        def test_method(self):
            loc_T = "T-value"  # noqa: F841
            call()

    r = Rec(tb_locals=locs)
    Case("test_method").run(r)
    d = got.get("details") or {}
    if "traceback" not in d:
        return "tb", "<no traceback detail: %s>" % sorted(d), None
    return "tb", d["traceback"].as_text(), check_ct(d["traceback"])


def replay(hist, pick, factory, testtools_dir):
    """Return (None | (step index, clause, expected, observed), drift or None)."""
    from testtools import content as tcontent

    cfg = hist[0]["arg"]
    drift = None
    try:
        for i, h in enumerate(hist[1:], 1):
            if h["a"] != "render":
                continue
            api, hide, locs = h["arg"], h["hide"], h["locs"]
            try:
                what, text, ctbad = render(factory, cfg, api, hide, locs, pick + i)
            except tlc.MachineryError:
                raise
            except Exception as ex:
                return (i, "raised", None, "%s rendering through %s: %s" % (type(ex).__name__, api, str(ex)[:200])), drift
            if ctbad:
                return (i, "content-type", ctbad[0], ctbad[1]), drift
            if what == "stack":
                has_pre, has_post, names = parse_stack(text)
                if not (has_pre and has_post):
                    return (i, "stacktrace-prefix-postfix", [PRE, POST], text[:80] + " ... " + text[-80:]), drift
                kinds = {"m%d" % (j + 1): k for j, k in enumerate(cfg["stack"])}
                allnames = ["m%d" % (j + 1) for j in range(len(cfg["stack"]))]
                if hide:
                    if any(kinds.get(f) == "fw" for f in names):
                        return (i, "stacktrace-hides-framework", "no framework frame", names), drift
                    run = []
                    for f in reversed(allnames):
                        if kinds[f] == "fw":
                            break
                        run.insert(0, f)
                    if names[len(names) - len(run):] != run:
                        return (i, "stacktrace-shows-callers", run, names), drift
                elif names != allnames:
                    return (i, "stacktrace-full-when-not-hiding", allnames, names), drift
                exp = [t["f"] for t in h["out"] if t["k"] == "frame"]
                if names != exp:
                    drift = "X14: StacktraceContent shows %s where the specification's mechanism shows %s (hiding on: frames beyond the nearest framework frame are not documented)" % (names, exp)
                continue
            got = parse_tb(text, cfg, testtools_dir)
            if got is None:
                return (i, "layout", "header / frame / locals / exception / connecting lines", text[-1500:]), drift
            exp = h["out"]
            je, jg = judged(exp, cfg, api, hide), judged(got, cfg, api, hide)
            if je != jg:
                return (i, clause_for(je, jg, cfg, api, hide), exp, got), drift
            if exp != got:
                drift = "X14: a framework frame that is not a runner level is rendered differently from the specification's mechanism (not documented): %s vs %s" % (
                    [t["f"] for t in got if t["k"] == "frame"],
                    [t["f"] for t in exp if t["k"] == "frame"],
                )
    finally:
        tcontent.StackLinesContent.HIDE_INTERNAL_STACK = True
    return None, drift


def shape(hist):
    cfg = hist[0]["arg"]
    steps = []
    for h in hist[1:]:
        steps.append("%s(%s)" % (h["a"], h["arg"]))
    return {"stack": cfg["stack"], "chain": cfg["chain"], "cstack": cfg["cstack"], "hide": hist[0]["hide"], "locals": hist[0]["locs"], "steps": steps}


def nontrivial_key(hist):
    """Non-trivial: framework and user frames mixed, a chained exception, locals shown, or hiding switched off."""
    cfg = hist[0]["arg"]
    mixed = len(set(cfg["stack"])) > 1
    renders = [h for h in hist[1:] if h["a"] == "render"]
    if renders and (mixed or cfg["chain"] != "none" or any(h["locs"] or not h["hide"] for h in renders)):
        return jdump(shape(hist))
    return None


def signature(hist, i, clause, observed):
    """One defect, one signature: clause + the way in (+ the chain kind for chain clauses, the exception class when the
    rendering raised)."""
    h = hist[i]
    extra = ""
    if clause in ("chained-exception-shown", "no-chain-shown"):
        extra = ":" + hist[0]["arg"]["chain"]
    if clause == "raised":
        extra = ":" + str(observed).split(" ", 1)[0]
    return "x14:%s:%s%s" % (clause, h["arg"], extra)


def run(tier, pid="X14"):
    testtools = use_repo()
    testtools_dir = os.path.dirname(os.path.abspath(testtools.__file__))
    rep = Report(
        "X14",
        tier,
        "model_checking",
        "behaviours = an exception raised through a synthetic stack of 1..3 frames, each a framework frame (module with "
        "__unittest) or a user frame, alone or chained (explicit cause / implicit context / raise ... from None) to an "
        "exception raised through a sub-stack of 0..2 frames; HIDE_INTERNAL_STACK and tb_locals on or off at the start; "
        "then two steps out of: toggle a switch, render through TracebackContent / TestResult.addError|addFailure(exc_info) "
        "/ a real TestCase run / StacktraceContent from the innermost frame. Exported by TLC (exhaustive within "
        "spec/extra/tb_exp.cfg); each rendered by the real code from real frames and parsed back into tokens, compared per "
        "step. Non-trivial = framework and user frames mixed, a chain, locals shown or hiding off; distinct by scenario.",
    )
    rep.assume("'hidden as documented' = the runner levels: framework frames above the first user frame of the traceback; framework frames further down, or in a chained exception's own traceback, are not compared while hiding is on (DRIFT if they differ from the mechanism)")
    rep.assume("the layout is the standard library's (header, frames outermost first, locals under their frame, exception line last, the two connecting sentences); source lines and caret lines are ignored")
    rep.assume("StacktraceContent while hiding: no framework frame, and at least the caller's own run of user frames, innermost last; whether user frames beyond a framework frame are shown is not compared")
    rep.assume("the test runner's own frames (files of the testtools package) count as one framework frame")
    factory = Factory()
    jobs = [("tb_mc.cfg", False), ("tb_exp.cfg", True)]
    seen_drift = set()
    for cfg, export in jobs:
        r = tlc.run_tlc("extra", "MCTbRender", cfg, coverage=True, timeout=600, workers=4)
        tlc.require_ok(r, "X14 " + cfg)
        tlc.require_coverage(r, ACTIONS, "X14 " + cfg)
        rep.add_tlc(r, cfg)
        if not export:
            continue
        nb = 0
        for hist in tlc.exported(r):
            nb += 1
            pick = rep.seed + nb
            nk = nontrivial_key(hist)
            bad, drift = replay(hist, pick, factory, testtools_dir)
            rep.case(sample=shape(hist) if nk and rep.evaluations % 4000 == 33 else None, nontrivial_key=nk)
            rep.traces += 1
            if drift and drift.split(":")[1][:40] not in seen_drift:
                seen_drift.add(drift.split(":")[1][:40])
                rep.note_drift(drift)
            if bad:
                i, clause, exp, obs = bad
                rep.violation(clause, signature(hist, i, clause, obs), {"behaviour": hist[: i + 1], "pick": pick, "cfg": cfg}, expected=exp, observed=obs)
        if nb == 0:
            raise tlc.MachineryError("X14 %s exported no behaviours" % cfg)
    if not rep.samples:
        rep.sample({"note": "see tlc_runs"})
    rep.exhaustive = True
    rep.extra["explanation"] = "exhaustive within the stacks, chains and bounds of spec/extra/tb_*.cfg (MCTbRender.tla)"
    return rep.finish()


def replay_file(path, pid="X14"):
    import json

    testtools = use_repo()
    v = json.load(open(path))
    sc = v["scenario"]
    bad, _ = replay(sc["behaviour"], sc["pick"], Factory(), os.path.dirname(os.path.abspath(testtools.__file__)))
    if bad:
        print("VIOLATION property=X14 replay=%s" % path)
        print("  step=%s clause=%s expected=%r observed=%r" % bad)
        return 1
    print("replay: behaviour conforms")
    return 0
