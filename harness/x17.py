"""X17 - the recording test doubles (testtools.testresult.doubles): what they log and what their flags say.

Spec: spec/extra/Doubles.tla.  TLC checks the code-shaped classes (P26 -> P27 -> Ext, Tw, Stream: append to the list
object the double was given, update _was_successful / shouldStop / testsRun / failfast / the TagContext stack) against
predicates over the global call history alone (LogMeaning, OneEventPerCall, OkMeaning, StopMeaning, RunsMeaning,
TagsMeaning) and exports every call history of the bounded scenarios: each flavour alone, doubles given no list, a
pre-filled list, five flavours on ONE list, two ExtendedTestResults on one list, falsy arguments, repeated runs, stop
before / after outcomes, failfast switched on and off.  Each history is replayed into the real classes; after EVERY call
the driver compares every list (length, order, each event element - identity for the objects passed in), wasSuccessful(),
shouldStop, testsRun, failfast and current_tags of every double, and that _events still IS the list given.
"""

import datetime

from . import tlc
from .common import Report, jdump, use_repo

PROPS = ("X17",)

ACTIONS = ["Py26Call", "Py27Call", "ExtCall", "TwistedCall", "StreamCall"]
_P26 = ["addError", "addFailure", "addSuccess", "startTest", "stopTest", "stop"]
_P27 = _P26 + ["addExpectedFailure", "addSkip", "addUnexpectedSuccess", "startTestRun", "stopTestRun", "ff"]
EXPECTED_CALLS = (
    ["py26." + m for m in _P26]
    + ["py27." + m for m in _P27]
    + ["ext." + m for m in _P27 + ["progress", "tags", "time"]]
    + ["tw." + m for m in ["addError", "addFailure", "addSuccess", "addExpectedFailure", "addUnexpectedSuccess", "addSkip", "startTest", "stopTest", "done"]]
    + ["stream." + m for m in ["startTestRun", "stopTestRun", "status"]]
)


class Test:
    def __init__(self, name):
        self.name = name

    def id(self):
        return self.name

    def __repr__(self):
        return "<Test %s>" % self.name


class FalsyTest(Test):
    def __bool__(self):
        return False


def make_values():
    try:
        raise ValueError("x17")
    except ValueError:
        import sys

        e1 = sys.exc_info()
    return {
        "t1": Test("t1"),
        "t0": FalsyTest("t0"),
        "e1": e1,
        "e0": (),
        "d1": {"k": object()},
        "d0": {},
        "r1": "reason",
        "r0": "",
        "none": None,
        "todo": object(),
        "now": datetime.datetime(2000, 1, 1, tzinfo=datetime.timezone.utc),
    }


IDENTITY = ("t1", "t0", "e1", "d1", "d0", "todo", "now")
TAGSETS = {"{}": set(), "{a}": {"a"}, "{b}": {"b"}, "{a,b}": {"a", "b"}}
STATUS_KEYS = ("test_id", "test_status", "test_tags", "runnable", "file_name", "file_bytes", "eof", "mime_type", "route_code", "timestamp")


def status_value(vals, key, tok):
    if tok == "none":
        return None
    if key in ("runnable", "eof"):
        return tok == "T"
    if key == "test_tags":
        return set(TAGSETS[tok])
    if key == "file_bytes":
        return tok.encode()
    if key == "timestamp":
        return vals[tok]
    return tok


def decode_event(vals, ev):
    """Spec event (strings) -> list of (expected value, compare by identity?)."""
    name = ev[0]
    out = [(name, False)]
    if name == "tags":
        return out + [(set(TAGSETS[ev[1]]), False), (set(TAGSETS[ev[2]]), False)]
    if name == "status":
        return out + [(status_value(vals, k, tok), k == "timestamp" and tok != "none") for k, tok in zip(STATUS_KEYS, ev[1:])]
    if name == "time":
        return out + [({"0": 0, "now": vals["now"], "none": None}[ev[1]], ev[1] == "now")]
    if name == "progress":
        return out + [(int(ev[1]), False), ({"cur": 1, "set": 0}[ev[2]], False)]
    if name == "foreign":
        return out
    for tok in ev[1:]:
        out.append((vals[tok], tok in IDENTITY))
    return out


def same(got, want, ident):
    if ident:
        return got is want
    return type(got) is type(want) and got == want


class World:
    def __init__(self, insts):
        from testtools.testresult import doubles

        self.vals = make_values()
        cls = {
            "py26": doubles.Python26TestResult,
            "py27": doubles.Python27TestResult,
            "ext": doubles.ExtendedTestResult,
            "tw": doubles.TwistedTestResult,
            "stream": doubles.StreamResult,
        }
        self.lists = {}
        self.expect = {}
        self.snap = {}
        self.objs = []
        self.insts = insts
        for k, ins in enumerate(insts):
            name = ins["log"]
            if ins["given"]:
                if name not in self.lists:
                    self.lists[name] = [("foreign",)] if name == "F" else []
                    self.expect[name] = [(("foreign",), False)] if name == "F" else []
                obj = cls[ins["fl"]](self.lists[name]) if k % 2 else cls[ins["fl"]](event_log=self.lists[name])
            else:
                obj = cls[ins["fl"]]()
                self.lists[name] = None  # filled from the double below
                self.expect[name] = []
            self.objs.append(obj)

    def check_identity(self):
        seen = []
        for ins, obj in zip(self.insts, self.objs):
            ev = getattr(obj, "_events", None)
            if ins["given"]:
                if ev is not self.lists[ins["log"]]:
                    return ("event_log-shared", "the list passed in", "another object: %r" % (ev,))
            else:
                if not isinstance(ev, list) or any(ev is o for o in seen) or any(ev is l for l in self.lists.values() if l is not None and l is not ev):
                    return ("event_log-private", "a list of its own", repr(ev))
                self.lists[ins["log"]] = ev
            seen.append(ev)
        return None

    def call(self, i, c):
        obj = self.objs[i]
        fl = self.insts[i]["fl"]
        m, a, v = c["m"], c["a"], self.vals
        if m == "ff":
            obj.failfast = a[0] == "T"
        elif m == "tags":
            obj.tags(set(TAGSETS["{%s}" % a[0][1]]) if a[0][0] == "+" else set(), set(TAGSETS["{%s}" % a[0][1]]) if a[0][0] == "-" else set())
        elif m == "time":
            obj.time({"0": 0, "now": v["now"], "none": None}[a[0]])
        elif m == "progress":
            obj.progress(int(a[0]), {"cur": 1, "set": 0}[a[1]])
        elif m == "status":
            pairs = [(a[j], status_value(v, a[j], a[j + 1])) for j in range(0, len(a), 2)]
            pos = []
            if [k for k, _ in pairs[:2]] == ["test_id", "test_status"]:
                pos = [pairs[0][1], pairs[1][1]]
                pairs = pairs[2:]
            obj.status(*pos, **dict(pairs))
        elif fl == "ext" and m in ("addError", "addFailure", "addExpectedFailure", "addSkip"):
            t, first, det = a
            if det == "none":
                getattr(obj, m)(v[t], v[first])
            else:
                getattr(obj, m)(v[t], details=v[det])
        elif fl == "ext" and m in ("addSuccess", "addUnexpectedSuccess"):
            t, det = a
            if det == "none":
                getattr(obj, m)(v[t])
            else:
                getattr(obj, m)(v[t], details=v[det])
        else:
            getattr(obj, m)(*[v[x] for x in a])

    def compare_logs(self):
        """Every list: as long as expected, earlier entries still the very same objects, new entries as specified."""
        for name, exp in self.expect.items():
            got = self.lists[name]
            snap = self.snap.setdefault(name, [])
            if len(got) != len(exp):
                return ("one-event-per-call", "%d events in list %s" % (len(exp), name), "%d: %r" % (len(got), got[-3:]))
            for k, old in enumerate(snap):
                if got[k] is not old:
                    return ("earlier-events-untouched", "entry %d of list %s unchanged" % (k, name), repr(got[k]))
            for k in range(len(snap), len(got)):
                ev = got[k]
                want, amb = exp[k]
                dec = decode_event(self.vals, want)
                if not isinstance(ev, tuple) or len(ev) != len(dec):
                    return ("event-shape", want, repr(ev))
                for pos, (g, (w, ident)) in enumerate(zip(ev, dec)):
                    if amb and pos >= 2:
                        continue
                    if not same(g, w, ident):
                        return ("event-shape" if pos else "event-name", want, repr(ev))
                if want[0] == "status":
                    try:
                        by_name = [ev.name] + [getattr(ev, key) for key in STATUS_KEYS]
                    except AttributeError as ex:
                        return ("status-event-fields", "fields readable by name", repr(ex))
                    if by_name != list(ev):
                        return ("status-event-fields", list(ev), by_name)
                snap.append(ev)
        return None

    def compare_flags(self, i, obs, all_obs):
        for k, (ins, obj) in enumerate(zip(self.insts, self.objs)):
            o = all_obs[k]
            fl = ins["fl"]
            if fl == "stream":
                continue
            got_ok = obj.wasSuccessful()
            if got_ok is not o["ok"]:
                return ("wasSuccessful", o["ok"], got_ok)
            if obj.testsRun != o["runs"] or type(obj.testsRun) is not int:
                return ("testsRun", o["runs"], obj.testsRun)
            if fl == "tw":
                continue
            if o["stop"] != "either" and obj.shouldStop is not (o["stop"] == "T"):
                return ("shouldStop", o["stop"] == "T", obj.shouldStop)
            if fl == "py26":
                continue
            if obj.failfast is not o["ff"]:
                return ("failfast-attribute", o["ff"], obj.failfast)
            if fl == "ext":
                ct = obj.current_tags
                if not isinstance(ct, set) or ct != set(o["tags"]):
                    return ("current_tags", sorted(o["tags"]), repr(ct))
        return None


def replay(hist):
    """Return None or (step index, clause, expected, observed, drift?)."""
    insts = hist[0]["insts"]
    w = World(insts)
    bad = w.check_identity()
    if bad:
        return (0,) + bad
    all_obs = [{"ok": True, "stop": "F", "runs": 0, "ff": False, "tags": []} for _ in insts]
    bad = w.compare_flags(0, None, all_obs)
    if bad:
        return (0, "fresh-" + bad[0]) + bad[1:]
    for n, h in enumerate(hist[1:], 1):
        i = h["i"] - 1
        try:
            w.call(i, h["c"])
        except Exception as ex:
            return (n, "raised", None, "%s: %s" % (type(ex).__name__, ex))
        for ev in h["new"]:
            w.expect[insts[i]["log"]].append((tuple(ev), h["amb"]))
        all_obs[i] = h["obs"]
        bad = w.check_identity() or w.compare_logs() or w.compare_flags(i, h["obs"], all_obs)
        if bad:
            return (n,) + bad
    return None


def amb_drift(hist):
    """For the calls the documentation leaves open: does the code still log what the specification (= the code as it
    is) says?  Only reported as DRIFT."""
    insts = hist[0]["insts"]
    if not any(h.get("amb") for h in hist[1:]):
        return None
    w = World(insts)
    w.check_identity()
    for h in hist[1:]:
        i = h["i"] - 1
        try:
            w.call(i, h["c"])
        except Exception:
            return None
        if h["amb"]:
            got = w.lists[insts[i]["log"]][-1]
            want = decode_event(w.vals, tuple(h["new"][0]))
            if len(got) != len(want) or not all(same(g, x, ident) for g, (x, ident) in zip(got, want)):
                return "X17: %s(%s) logs %r; the specification (code as read) says %r" % (h["c"]["m"], ",".join(h["c"]["a"]), got[2:], h["new"][0][2:])
    return None


def call_str(h):
    c = h["c"]
    return "%s#%d.%s(%s)" % (h["fl"], h["i"], c["m"], ",".join(c["a"]))


def shape(hist):
    return [hist[0]["name"]] + [call_str(h) for h in hist[1:]]


def nontrivial_key(hist):
    """Non-trivial: two doubles on one list both called, or a verdict / stop / tag-scope interaction (an outcome and a
    startTestRun / stop / failfast switch / startTest..stopTest in one history), or a falsy argument."""
    calls = hist[1:]
    users = {h["i"] for h in calls}
    ms = [h["c"]["m"] for h in calls]
    bad = any(m in ("addError", "addFailure", "addUnexpectedSuccess") for m in ms)
    ctl = any(m in ("startTestRun", "stop", "ff") for m in ms)
    scope = "tags" in ms and ("startTest" in ms or "stopTest" in ms or "startTestRun" in ms)
    falsy = any(x in ("t0", "e0", "d0", "r0", "", "0", "{}") for h in calls for x in h["c"]["a"]) or any(h["c"]["m"] == "status" for h in calls)
    if len(users) > 1 or (bad and ctl) or scope or falsy:
        return jdump(shape(hist))
    return None


def signature(h, clause, observed):
    c = h.get("c", {"m": "init", "a": []})
    form = ""
    if h.get("fl") == "ext" and len(c["a"]) >= 2:
        form = ":" + "/".join("none" if x == "none" else ("falsy" if x in ("t0", "e0", "d0", "r0") else "given") for x in c["a"][1:])
    extra = ""
    if clause == "raised":
        extra = ":" + str(observed).split(":", 1)[0]
    return "x17:%s:%s.%s%s%s" % (clause, h.get("fl", "-"), c["m"], form, extra)


def run(tier, pid="X17"):
    use_repo()
    rep = Report(
        "X17",
        tier,
        "model_checking",
        "behaviours = call histories on 1..6 result doubles (Python26TestResult, Python27TestResult, ExtendedTestResult, "
        "TwistedTestResult, the StreamResult double) constructed with no list, an empty list, a pre-filled list or one "
        "list shared by several doubles; calls = every logging method in its err / details / reason / todo forms with "
        "falsy arguments, tags / time / progress, startTestRun / stopTestRun, status() with keyword subsets, stop(), "
        "failfast on / off; enumerated by TLC up to the depths of spec/extra/MCDoubles.tla (or tlc -simulate) and "
        "replayed call by call. Non-trivial = several doubles on one list, an outcome together with startTestRun / stop / "
        "failfast, tags() together with a scope change, or a falsy argument; distinct by (scenario, call sequence).",
    )
    rep.assume("ExtendedTestResult inherits the failfast attribute but the documentation does not say that it acts on it (the code ignores it): shouldStop after a bad outcome under failfast is not judged there")
    rep.assume("a falsy but not-None err / reason given without details (addSkip(test, '')) is logged by the code as None: only the name and the test of such events are judged, the payload is reported as DRIFT if it changes")
    rep.assume("ExtendedTestResult.addSuccess treats an empty details dict as no details (the repository's suite depends on it); addUnexpectedSuccess logs any details that are not None")
    rep.assume("startTestRun is not required to reset shouldStop or testsRun on any double (the code does not)")
    rep.assume("only methods a class defines are called on it; both err and details in one call are not explored")
    # vacuity control: a small instance with per-action coverage (every flavour, every call of the alphabets once);
    # the big export runs without -coverage (its counters dominate the run time on this specification)
    r = tlc.run_tlc("extra", "MCDoubles", "db_cov.cfg", coverage=True, timeout=600, workers=4, collect=())
    tlc.require_ok(r, "X17 db_cov.cfg")
    tlc.require_coverage(r, ACTIONS, "X17 db_cov.cfg")
    rep.add_tlc(r, "db_cov.cfg")
    jobs = [("db_exp.cfg", {})]
    if tier != "quick":
        jobs.append(("db_expT.cfg", {}))
    jobs.append(("db_sim.cfg", dict(simulate=dict(num=3 if tier == "quick" else 150, depth=16), seed=rep.seed + 1)))
    drifts = set()
    seen_calls = {}
    for cfg, kw in jobs:
        r = tlc.run_tlc("extra", "MCDoubles", cfg, coverage=False, timeout=1500, workers=4, **kw)
        tlc.require_ok(r, "X17 " + cfg)
        rep.add_tlc(r, cfg)
        nb = 0
        for hist in tlc.exported(r):
            nb += 1
            for h in hist[1:]:
                key = "%s.%s" % (h["fl"], h["c"]["m"])
                seen_calls[key] = seen_calls.get(key, 0) + 1
            nk = nontrivial_key(hist)
            bad = replay(hist)
            rep.case(sample={"scenario": hist[0]["name"], "calls": shape(hist)[1:]} if nk and rep.evaluations % 5000 == 23 else None, nontrivial_key=nk)
            rep.traces += 1
            if bad:
                n, clause, exp, obs = bad
                cut = hist[: n + 1]
                rep.violation(clause, signature(cut[-1], clause, obs), {"behaviour": cut, "cfg": cfg}, expected=exp, observed=obs)
            else:
                d = amb_drift(hist)
                if d and d not in drifts:
                    drifts.add(d)
                    rep.note_drift(d)
        if nb == 0:
            raise tlc.MachineryError("X17 %s exported no behaviours" % cfg)
    missing = [k for k in EXPECTED_CALLS if not seen_calls.get(k)]
    if missing:
        raise tlc.MachineryError("X17: calls never exercised by the exported histories: %s" % missing)
    rep.extra["calls_replayed"] = dict(sorted(seen_calls.items()))
    if not rep.samples:
        rep.sample({"note": "see tlc_runs"})
    rep.exhaustive = False
    rep.extra["explanation"] = "exhaustive for db_exp*.cfg (scenario depths in spec/extra/MCDoubles.tla); random for db_sim.cfg"
    return rep.finish()


def replay_file(path, pid="X17"):
    import json

    use_repo()
    v = json.load(open(path))
    bad = replay(v["scenario"]["behaviour"])
    if bad:
        print("VIOLATION property=X17 replay=%s" % path)
        print("  step=%s clause=%s expected=%r observed=%r" % bad)
        return 1
    print("replay: behaviour conforms")
    return 0
