"""X19 - RunTest factory selection (runTest= / @run_test_with / run_tests_with) and TestCase.addDetailUniqueName.

Specs: spec/extra/RunWith.tla and spec/extra/UniqueDetail.tla.

RunWith: TLC checks the code-shaped decision of TestCase.__init__ (pop runTest, else getattr(method, "_run_test_with",
self.run_tests_with) through the MRO, stored in the instance) against the documented precedence written as a ranked list
of the sources present at construction (Precedence, ArgOverrides, DecidedAtInit, FreshEachRun) and exports every
behaviour of the bounded instance.  Each is replayed into real TestCase subclasses built with type(): recording
factories (callable objects and RunTest subclasses, with and without a last_resort parameter) that note their name, the
keyword arguments, the handlers / last_resort they were given and the RunTest they made, and delegate to
testtools.RunTest.  After every run() / plain call the factory calls made, their keywords, the freshness of the RunTest,
the number of times the test body ran and the outcome in a real TestResult are compared with what the spec exported.

UniqueDetail: TLC checks the while-loop of addDetailUniqueName (mechanism) against the pre/post relation of its docstring
(GrowsByOne, KeepsOld, NameIfFree, ModifiedName, AddMeaning) over names that collide with the suffixed forms, and exports
every behaviour; each is replayed into a real TestCase, comparing getDetails() (keys -> identity of the content objects)
after every call.
"""

import functools

from . import tlc
from .common import Report, jdump, use_repo

PROPS = ("X19",)

KW = {"k0": {}, "k1": {"timeout": 42}, "k2": {"extra_arg": 42, "foo": "whatever"}}
BASES = {1: "log", 2: "x"}


# ----------------------------------------------------------------------------------------------------------------------
# RunWith


class _World:
    """The recording factories of one behaviour."""

    def __init__(self):
        from testtools import RunTest

        self.log = []
        self.factories = {}
        world = self

        class NewCallable:
            """factory(case, handlers=None, last_resort=None, **kwargs) as a callable object"""

            def __init__(self, name):
                self.name = name

            def __call__(self, case, handlers=None, last_resort=None, **kwargs):
                rt = RunTest(case, handlers, last_resort)
                world.log.append(dict(f=self.name, kw=dict(kwargs), handlers=handlers, lr=last_resort is not None, obj=rt, case=case))
                return rt

        class OldCallable:
            """factory(case, handlers=None, <keywords>) - the signature the docstrings give: no last_resort"""

            def __init__(self, name):
                self.name = name

            def __call__(self, case, handlers=None, timeout=None, extra_arg=None, foo=None):
                kw = {k: v for k, v in (("timeout", timeout), ("extra_arg", extra_arg), ("foo", foo)) if v is not None}
                rt = RunTest(case, handlers)
                world.log.append(dict(f=self.name, kw=kw, handlers=handlers, lr=False, obj=rt, case=case))
                return rt

        def new_class(name):
            class Recording(RunTest):
                def __init__(self, case, handlers=None, last_resort=None, **kwargs):
                    super().__init__(case, handlers, last_resort)
                    world.log.append(dict(f=name, kw=dict(kwargs), handlers=handlers, lr=last_resort is not None, obj=self, case=case))

            Recording.__name__ = "Recording" + name
            return Recording

        self._make = {"N1": NewCallable, "N3": NewCallable, "N2": new_class, "N4": new_class, "O1": OldCallable, "O2": OldCallable}

    def factory(self, name):
        if name not in self.factories:
            if name not in self._make:
                raise tlc.MachineryError("X19: unknown factory %r" % name)
            self.factories[name] = self._make[name](name)
        return self.factories[name]


def _plain(fn):
    """A decorator that copies nothing from the function it wraps."""

    def wrapper(self):
        return fn(self)

    return wrapper


def _wrapping(fn):
    @functools.wraps(fn)
    def wrapper(self):
        return fn(self)

    return wrapper


def build_class(world, arg):
    import testtools

    def fresh_body(name):
        def body(self):
            self._x19_bodies = getattr(self, "_x19_bodies", 0) + 1
            return "body-" + name

        body.__name__ = name
        return body

    d = arg["dec"]
    m1 = fresh_body("m1")
    if d["f"] != "none":
        deco = testtools.run_test_with(world.factory(d["f"]), **KW[d["kw"]])
        w = d["wrap"]
        if w == "none":
            m1 = deco(m1)
        elif w == "wraps":
            m1 = _wrapping(deco(m1))
        elif w == "inner":
            m1 = deco(_plain(m1))
        elif w == "hidden":
            m1 = _plain(deco(m1))
        else:
            raise tlc.MachineryError("X19: unknown wrap %r" % w)
    base_ns = {}
    if arg["base"] != "none":
        base_ns["run_tests_with"] = world.factory(arg["base"])
    ns = {"m1": m1, "m2": fresh_body("m2")}
    if arg["sub"] != "none":
        ns["run_tests_with"] = world.factory(arg["sub"])
    Base = type("Base", (testtools.TestCase,), base_ns)
    return type("T", (Base,), ns)


def _choice_clause(defn, inst, reassigned_after, exp_f, obs_f, late_f):
    """Which documented sentence a wrong factory breaks (or DRIFT where nothing is stated)."""
    d = defn["dec"]
    if reassigned_after and obs_f == late_f and exp_f != late_f:
        return "decided-at-construction"
    if inst["runTest"] != "none":
        return "constructor-argument-overrides"
    if inst["m"] == "m1" and d["f"] != "none":
        if d["wrap"] == "hidden":
            return "DRIFT"
        return "decorated-test-uses-its-factory"
    return "class-attribute-or-default"


def replay_rw(hist):
    """Return None or (step index, clause, expected, observed)."""
    import testtools

    world = _World()
    cls = None
    defn = None
    cases = []
    infos = []
    made = []  # per case: RunTest objects made
    late_f = None
    late_at = None
    for i, h in enumerate(hist):
        a = h["a"]
        try:
            if a == "define":
                defn = h["arg"]
                cls = build_class(world, defn)
                fn = cls.__dict__["m1"]
                if defn["dec"]["f"] != "none" and defn["dec"]["wrap"] in ("none", "wraps") and getattr(fn, "__name__", None) != "m1":
                    return (i, "decorated-function-otherwise-unchanged", "m1", getattr(fn, "__name__", None))
            elif a == "construct":
                m, rt = h["arg"]["m"], h["arg"]["runTest"]
                case = cls(m) if rt == "none" else cls(m, runTest=world.factory(rt))
                cases.append(case)
                infos.append(dict(h["arg"], at=i))
                made.append([])
            elif a == "reassign":
                late_f = h["arg"]
                late_at = i
                cls.run_tests_with = world.factory(late_f)
            elif a in ("run", "call"):
                k = h["i"] - 1
                case, exp = cases[k], h["exp"]
                before = len(world.log)
                if a == "run":
                    result = testtools.TestResult()
                    case.run(result)
                else:
                    out = getattr(cls, infos[k]["m"])(case)
                    if out != "body-" + infos[k]["m"]:
                        return (i, "decorated-function-otherwise-unchanged", "body-" + infos[k]["m"], out)
                new = world.log[before:]
                if a == "call":
                    if new:
                        return (i, "plain-call-makes-no-runtest", [], [e["f"] for e in new])
                elif exp["f"] == "RunTest":
                    # no source present: the default testtools.RunTest (not a recording factory) runs the test
                    if new:
                        clause = _choice_clause(defn, infos[k], late_at is not None and late_at > infos[k]["at"], exp["f"], new[0]["f"], late_f)
                        return (i, clause, "RunTest", [e["f"] for e in new])
                    if not (result.testsRun == 1 and result.wasSuccessful()):
                        return (i, "chosen-runtest-runs-the-test", {"testsRun": 1, "successful": True}, {"testsRun": result.testsRun, "successful": result.wasSuccessful()})
                else:
                    if len(new) != 1:
                        if not new:
                            clause = _choice_clause(defn, infos[k], late_at is not None and late_at > infos[k]["at"], exp["f"], "RunTest", late_f)
                            if clause == "DRIFT":
                                return (i, "DRIFT", exp["f"], "no recording factory called")
                            return (i, clause, exp["f"], "no recording factory called")
                        return (i, "one-fresh-runtest-per-run", [exp["f"]], [e["f"] for e in new])
                    e = new[0]
                    if e["f"] != exp["f"]:
                        clause = _choice_clause(defn, infos[k], late_at is not None and late_at > infos[k]["at"], exp["f"], e["f"], late_f)
                        return (i, clause, exp["f"], e["f"])
                    if e["case"] is not case:
                        return (i, "factory-given-the-test-case", "the case run", repr(e["case"]))
                    if e["kw"] != KW[exp["kw"]]:
                        return (i, "decorator-kwargs-reach-factory", KW[exp["kw"]], e["kw"])
                    if e["handlers"] is not case.exception_handlers:
                        return (i, "handlers-reach-factory", "case.exception_handlers", repr(e["handlers"])[:120])
                    if any(e["obj"] is o for o in made[k]):
                        return (i, "one-fresh-runtest-per-run", "a new RunTest", "the RunTest of an earlier run")
                    made[k].append(e["obj"])
                    if len(made[k]) != exp["made"]:
                        raise tlc.MachineryError("X19: replay lost count of the RunTests made")
                    if not (result.testsRun == 1 and result.wasSuccessful()):
                        return (i, "chosen-runtest-runs-the-test", {"testsRun": 1, "successful": True}, {"testsRun": result.testsRun, "successful": result.wasSuccessful()})
                    if e["lr"] != exp["lr"]:
                        return (i, "DRIFT", {"last_resort given": exp["lr"]}, {"last_resort given": e["lr"]})
                bodies = getattr(case, "_x19_bodies", 0)
                if bodies != exp["bodies"]:
                    return (i, "chosen-runtest-runs-the-test" if a == "run" else "decorated-function-otherwise-unchanged", {"bodies": exp["bodies"]}, {"bodies": bodies})
            else:
                raise tlc.MachineryError("X19: unknown action %r" % a)
        except tlc.MachineryError:
            raise
        except Exception as ex:
            return (i, "raised", None, "%s at %s: %s" % (type(ex).__name__, a, str(ex)[:200]))
    return None


def rw_shape(hist):
    out = []
    for h in hist:
        a = h["a"]
        if a == "define":
            d = h["arg"]["dec"]
            out.append("class(base=%s,own=%s,m1=%s)" % (h["arg"]["base"], h["arg"]["sub"], "plain" if d["f"] == "none" else "@%s/%s/%s" % (d["f"], d["kw"], d["wrap"])))
        elif a == "construct":
            out.append("t%d=T(%s%s)" % (h["i"], h["arg"]["m"], "" if h["arg"]["runTest"] == "none" else ",runTest=" + h["arg"]["runTest"]))
        elif a == "reassign":
            out.append("T.run_tests_with=" + h["arg"])
        else:
            out.append("t%d.%s" % (h["i"], a))
    return out


def rw_nontrivial(hist):
    """Non-trivial: a case that is run has at least two competing sources (argument / visible decoration / class
    attribute own or inherited), or the class attribute is reassigned between its construction and its run."""
    defn = hist[0]["arg"]
    cons = {}
    late = None
    for k, h in enumerate(hist):
        if h["a"] == "construct":
            cons[h["i"]] = (h["arg"], k)
        elif h["a"] == "reassign":
            late = k
        elif h["a"] == "run":
            arg, at = cons[h["i"]]
            d = defn["dec"]
            srcs = (arg["runTest"] != "none") + (arg["m"] == "m1" and d["f"] != "none" and d["wrap"] != "hidden") + (defn["sub"] != "none" or (late is not None and late < at)) + (defn["base"] != "none")
            if srcs >= 2 or (late is not None and at < late < k):
                return jdump(rw_shape(hist))
    return None


# ----------------------------------------------------------------------------------------------------------------------
# UniqueDetail


def name_of(seq):
    return "-".join([BASES[seq[0]]] + [str(k) for k in seq[1:]])


def replay_ud(hist):
    """Return None or (step index, clause, expected, observed)."""
    import testtools
    from testtools.content import text_content

    class T(testtools.TestCase):
        def test(self):
            pass

    case = T("test")
    contents = {}
    ident = {}
    for i, h in enumerate(hist):
        a, name, c = h["a"], name_of(h["name"]), h["c"]
        obj = text_content("content %d" % c)
        contents[c] = obj
        ident[id(obj)] = c
        try:
            before = dict(case.getDetails())
            if a == "add":
                case.addDetail(name, obj)
            elif a == "uniq":
                case.addDetailUniqueName(name, obj)
            else:
                raise tlc.MachineryError("X19: unknown action %r" % a)
            after = case.getDetails()
            if not isinstance(after, dict):
                return (i, "getDetails-returns-a-dict", "dict", type(after).__name__)
            obs = {k: ident.get(id(v), "?") for k, v in after.items()}
        except tlc.MachineryError:
            raise
        except Exception as ex:
            return (i, "raised", None, "%s at %s: %s" % (type(ex).__name__, a, str(ex)[:200]))
        exp = {name_of(e["k"]): e["v"] for e in h["obs"]}
        if obs == exp:
            continue
        if a == "add":
            return (i, "addDetail-stores-under-name", exp, obs)
        # which sentence of the docstring is broken - judged on the real before / after, not on the spec's key
        for k, v in before.items():
            if k not in after or after[k] is not v:
                return (i, "existing-detail-kept", exp, obs)
        if len(after) != len(before) + 1:
            return (i, "adds-one-detail", exp, obs)
        (newkey,) = set(after) - set(before)
        if after[newkey] is not obj:
            return (i, "adds-one-detail", exp, obs)
        if name not in before and newkey != name:
            return (i, "name-kept-when-free", exp, obs)
        return (i, "DRIFT", exp, obs)
    return None


def ud_shape(hist):
    return ["%s(%s)->%s" % ("addDetail" if h["a"] == "add" else "addDetailUniqueName", name_of(h["name"]), name_of(h["key"])) for h in hist]


def ud_nontrivial(hist):
    """Non-trivial: an addDetailUniqueName call whose name conflicts; distinct by program."""
    if any(h["a"] == "uniq" and h["key"] != h["name"] for h in hist):
        return jdump(ud_shape(hist))
    return None


# ----------------------------------------------------------------------------------------------------------------------


def signature(part, hist, clause, observed):
    """One defect, one signature: part, clause, the call it failed at (+ exception class when it raised)."""
    extra = ""
    if clause == "raised":
        extra = ":" + str(observed).split(" ", 1)[0]
    return "x19:%s:%s:%s%s" % (part, clause, hist[-1]["a"], extra)


def _corrupt(part, hist):
    """A copy of the behaviour with one expectation falsified (self-test of the comparison)."""
    import copy

    h2 = copy.deepcopy(hist)
    if part == "rw":
        for h in h2:
            if h["a"] == "run":
                h["exp"]["f"] = "N1" if h["exp"]["f"] != "N1" else "N3"
                return h2
        return None
    for h in h2:
        if h["a"] == "uniq" and h["key"] != h["name"]:
            for e in h["obs"]:
                if e["k"] == h["key"]:
                    e["k"] = h["name"] + [9]  # as if the suffix rule had picked another free name
            return h2
    return None


def self_test(part, hists):
    """The replay must reject a falsified expectation and accept the same behaviour unfalsified."""
    replay = replay_rw if part == "rw" else replay_ud
    done = 0
    for hist in hists:
        bad = _corrupt(part, hist)
        if bad is None:
            continue
        if replay(hist) is not None:
            continue  # a behaviour that does not conform is reported by the main loop
        got = replay(bad)
        if got is None or got[1] == "DRIFT" and part == "rw":
            raise tlc.MachineryError("X19 self-test: a falsified %s expectation was accepted: %s" % (part, jdump(bad)[:400]))
        done += 1
        if done >= 5:
            break
    if done == 0:
        raise tlc.MachineryError("X19 self-test: no %s behaviour to falsify" % part)
    return done


RW_ACTIONS = ["Define", "Construct", "Run", "Call", "Reassign"]
UD_ACTIONS = ["Add", "Uniq"]


def run(tier, pid="X19"):
    use_repo()
    rep = Report(
        "X19",
        tier,
        "model_checking",
        "behaviours = (1) RunTest factory selection: a class (base run_tests_with none/N1/O1 x own none/N2 x test method m1 "
        "plain or decorated with run_test_with in 5 ways: factory with/without last_resort, 3 keyword sets, alone / under a "
        "functools.wraps decorator / above a plain decorator / hidden under a plain decorator; m2 never decorated), then 3 "
        "calls out of construct T(m1|m2[, runTest=N3|O1]) (<= 2 cases) / case.run(result) / plain call of the test method / "
        "reassigning T.run_tests_with; (2) detail programs: 5 calls out of addDetail / addDetailUniqueName over the names "
        "log, log-1, log-2, x. Exported by TLC (exhaustive within the bounds of spec/extra/rw_*.cfg, ud_*.cfg); each "
        "replayed into real TestCase subclasses / a real TestCase with per-call comparison. Non-trivial = a case that is run "
        "has two competing factory sources or the class attribute changed after its construction; an addDetailUniqueName "
        "call whose name conflicts; distinct by program.",
    )
    rep.assume("precedence read from doc/for-framework-folk.rst ('either of these can be overridden by ... the optional runTest argument'; 'for a specific test' beats 'for all the tests'), TestCase.__init__ ('Overrides TestCase.run_tests_with if given') and the cvar docstring ('Defaults to RunTest'); the class's own run_tests_with beats an inherited one (attribute lookup)")
    rep.assume("'TestCase.__init__ looks for this attribute when deciding on a RunTest factory' is read as: the factory is decided at construction; reassigning the class attribute later affects later constructions only")
    rep.assume("factories are callable objects or RunTest subclasses (a plain function stored as a class attribute would be bound as a method - Python, not testtools); a factory without a last_resort parameter is valid per the docstrings of run_test_with and run_tests_with")
    rep.assume("whether last_resort is passed to a factory that accepts it, and what a decoration hidden under a non-copying decorator does, are not stated as requirements: DRIFT only")
    rep.assume("addDetailUniqueName: the docstring demands a detail added, nothing existing replaced, the name kept when free and modified on conflict; the exact 'name-N, least free N >= 1' rule is the code's (modelled; a different modification would be DRIFT)")
    jobs = [
        ("MCRunWith", "rw_mc.cfg" if tier == "quick" else "rw_mc5.cfg", None, RW_ACTIONS),
        ("MCRunWith", "rw_exp.cfg", "rw", RW_ACTIONS),
        ("MCUniqueDetail", "ud_mc.cfg" if tier == "quick" else "ud_mc6.cfg", None, UD_ACTIONS),
        ("MCUniqueDetail", "ud_exp.cfg", "ud", UD_ACTIONS),
    ]
    seen_drift = set()
    selftests = {}
    for module, cfg, part, actions in jobs:
        r = tlc.run_tlc("extra", module, cfg, coverage=True, timeout=600, workers=8)
        tlc.require_ok(r, "X19 " + cfg)
        tlc.require_coverage(r, actions, "X19 " + cfg)
        rep.add_tlc(r, cfg)
        if not part:
            continue
        nb = 0
        keep = []
        for hist in tlc.exported(r):
            nb += 1
            if len(keep) < 400 and nb % 7 == 3:
                keep.append(hist)
            if part == "rw":
                nk, bad, sample = rw_nontrivial(hist), replay_rw(hist), {"program": rw_shape(hist)}
            else:
                nk, bad, sample = ud_nontrivial(hist), replay_ud(hist), {"program": ud_shape(hist)}
            rep.case(sample=sample if nk and rep.evaluations % 5000 == 13 else None, nontrivial_key=nk)
            rep.traces += 1
            if bad:
                i, clause, exp, obs = bad
                cut = hist[: i + 1]
                if clause == "DRIFT":
                    key = (part, cut[-1]["a"], jdump(exp)[:60])
                    if key not in seen_drift and len(seen_drift) < 6:
                        seen_drift.add(key)
                        rep.note_drift("X19 %s: %s observed %r where the specification's mechanism gives %r (no documented sentence decides)" % (part, (rw_shape if part == "rw" else ud_shape)(cut), obs, exp))
                    continue
                rep.violation(clause, signature(part, cut, clause, obs), {"part": part, "behaviour": cut, "cfg": cfg}, expected=exp, observed=obs)
        if nb == 0:
            raise tlc.MachineryError("X19 %s exported no behaviours" % cfg)
        selftests[part] = self_test(part, keep)
    # non-vacuity of the invariants: the mutated mechanisms must be refuted by TLC
    for module, cfg, want in (("MCRunWith", "rw_mut_arg.cfg", ("Precedence", "ArgOverrides")), ("MCUniqueDetail", "ud_mut_loop.cfg", ("GrowsByOne", "KeepsOld", "ModifiedName"))):
        r = tlc.run_tlc("extra", module, cfg, coverage=False, timeout=300, workers=2)
        if r.violated not in want:
            raise tlc.MachineryError("X19 %s: the mutated mechanism was not refuted (violated=%s error=%s)" % (cfg, r.violated, (r.error or "")[:300]))
    if not rep.samples:
        rep.sample({"note": "see tlc_runs"})
    rep.exhaustive = True
    rep.extra["explanation"] = "exhaustive within the bounds of spec/extra/rw_*.cfg and ud_*.cfg; self-test: %d + %d falsified expectations rejected; spec mutations rw_mut_arg.cfg / ud_mut_loop.cfg refuted by TLC" % (selftests.get("rw", 0), selftests.get("ud", 0))
    return rep.finish()


def replay_file(path, pid="X19"):
    import json

    use_repo()
    v = json.load(open(path))
    sc = v["scenario"]
    bad = replay_rw(sc["behaviour"]) if sc["part"] == "rw" else replay_ud(sc["behaviour"])
    if bad and bad[1] != "DRIFT":
        print("VIOLATION property=X19 replay=%s" % path)
        print("  step=%s clause=%s expected=%r observed=%r" % bad)
        return 1
    print("replay: behaviour conforms")
    return 0
