"""X10 - skip decorators (skip / skipIf / skipUnless on methods, classes, base classes, mixed with unittest's own),
attr + WithAttributes ids, clone_test_with_new_id.

Spec: spec/extra/SkipAttr.tla.  TLC applies the decorators of a description one by one to a function / class object
carrying the marker attributes and then performs RunTest._run_core's steps (mechanism), and checks them against sets over
the description only (SkipMeaning, NothingRuns, RunsNormally, IdMeaning, MarkersMeaning); every behaviour of the bounded
instances is exported.

The driver generates the real classes from the description (real testtools / unittest decorators applied in the stated
order, truthy / falsy non-bool conditions, a base class and a subclass, setUp / tearDown / a cleanup / the method body all
writing into one log together with the result's startTest / add* / stopTest), constructs the test (or a clone with a new
id), asks its id and runs it; after every step of the behaviour the log so far must be what the specification says: for a
test a decorator applies to exactly startTest, addSkip(reason of an applying decorator), stopTest and nothing of the test
itself; otherwise the normal run with the body's outcome.  The same description is also built on a plain
unittest.TestCase and run with a unittest.TestResult (the decorators are documented as compatible syntactic sugar).
"""

import unittest

from . import tlc
from .common import Report, jdump, use_repo

PROPS = ("X10",)
ACTIONS_ALL = ["DecorateMethod", "MethodDone", "DecorateBase", "BaseDone", "DecorateClass", "Construct", "GetId", "StartTest", "CheckSkip", "Body", "TearDown", "Outcome", "StopTest"]

ATTRS = {1: "a", 2: "b2", 3: "more"}
TRUTHY = [1, "yes", [0], 0.5]
FALSY = [0, "", None, []]
NEW_ID = "verif.x10.new-id"
TEST_PARTS = ("setUp", "body", "tearDown", "cleanup")


def cond_value(c, pick):
    if c == "True":
        return True
    if c == "False":
        return False
    if c == "truthy":
        return TRUTHY[pick % len(TRUTHY)]
    if c == "falsy":
        return FALSY[pick % len(FALSY)]
    raise tlc.MachineryError("X10: unknown condition %r" % c)


def make_decorator(d, reason, pick):
    from testtools import testcase

    lib = testcase if d["lib"] == "tt" else unittest
    t = d["t"]
    if t == "attr":
        names = [ATTRS[x] for x in sorted(d["args"], reverse=bool(pick & 1))]
        return testcase.attr(*names)
    if t == "skip":
        return lib.skip(reason)
    if t == "skipIf":
        return lib.skipIf(cond_value(d["cond"], pick), reason)
    if t == "skipUnless":
        return lib.skipUnless(cond_value(d["cond"], pick), reason)
    raise tlc.MachineryError("X10: unknown decorator %r" % (d,))


def build(desc, flavour, pick, log):
    """The real classes of a description.  -> the test instance (before cloning)."""
    import testtools
    from testtools import testcase

    body = desc["body"]

    def test_m(self):
        log.append(("body", None))
        if body == "fail":
            self.fail("the body fails")
        elif body == "skips":
            self.skipTest("body")

    fn = test_m
    for i, d in enumerate(desc["mdecs"]):
        fn = make_decorator(d, "m%d" % (i + 1), pick + i)(fn)

    bases = (testcase.WithAttributes, testtools.TestCase) if flavour == "testtools" else (unittest.TestCase,)

    class Base(*bases):
        def setUp(self):
            super().setUp()
            log.append(("setUp", None))
            self.addCleanup(log.append, ("cleanup", None))

        def tearDown(self):
            log.append(("tearDown", None))
            super().tearDown()

    for i, d in enumerate(desc["bdecs"]):
        Base = make_decorator(d, "b%d" % (i + 1), pick + 3 + i)(Base)

    class Case(Base):
        pass

    Case.test_m = fn
    for i, d in enumerate(desc["cdecs"]):
        Case = make_decorator(d, "c%d" % (i + 1), pick + 5 + i)(Case)
    return Case("test_m")


def reason_of(reason, details):
    if reason is not None:
        return reason
    if details and "reason" in details:
        return details["reason"].as_text()
    return None


def make_result(flavour, log):
    import testtools

    if flavour == "testtools":

        class LogResult(testtools.TestResult):
            def startTest(self, test):
                log.append(("startTest", None, test.id()))
                super().startTest(test)

            def stopTest(self, test):
                log.append(("stopTest", None, test.id()))
                super().stopTest(test)

            def addSuccess(self, test, details=None):
                log.append(("addSuccess", None, test.id()))

            def addFailure(self, test, err=None, details=None):
                log.append(("addFailure", None, test.id()))

            def addError(self, test, err=None, details=None):
                log.append(("addError", None, test.id()))

            def addSkip(self, test, reason=None, details=None):
                log.append(("addSkip", reason_of(reason, details), test.id()))

            def addExpectedFailure(self, test, err=None, details=None):
                log.append(("addExpectedFailure", None, test.id()))

            def addUnexpectedSuccess(self, test, details=None):
                log.append(("addUnexpectedSuccess", None, test.id()))

        return LogResult()

    class ULogResult(unittest.TestResult):
        def startTest(self, test):
            log.append(("startTest", None, test.id()))
            super().startTest(test)

        def stopTest(self, test):
            log.append(("stopTest", None, test.id()))
            super().stopTest(test)

        def addSuccess(self, test):
            log.append(("addSuccess", None, test.id()))

        def addFailure(self, test, err):
            log.append(("addFailure", None, test.id()))

        def addError(self, test, err):
            log.append(("addError", None, test.id()))

        def addSkip(self, test, reason):
            log.append(("addSkip", reason, test.id()))

    return ULogResult()


def replay(hist, pick):
    """testtools flavour: return (None | (step index, clause, expected, observed), drift text or None)."""
    import testtools
    from testtools import testcase

    init = hist[0]
    desc = init["arg"]
    reasons = set(init["reasons"])
    log = []
    test = orig = None
    real_id = None
    drift = None
    ran = False
    for i, h in enumerate(hist[1:], 1):
        a = h["a"]
        try:
            if a in ("construct", "construct-clone"):
                orig = build(desc, "testtools", pick, log)
                test = testcase.clone_test_with_new_id(orig, NEW_ID) if a == "construct-clone" else orig
            elif a == "id":
                real_id = test.id()
                base_id = testtools.TestCase.id(orig)
                names = [ATTRS[x] for x in h["id"]["attrs"]]
                if h["id"]["new"]:
                    if real_id != NEW_ID:
                        return (i, "clone-has-new-id", NEW_ID, real_id), drift
                    # "Copy a TestCase": the original keeps its own id
                    exp_orig = base_id + ("[%s]" % ",".join(ATTRS[x] for x in sorted(init["attrs"])) if init["attrs"] else "")
                    if orig.id() != exp_orig:
                        return (i, "id-attributes", exp_orig, orig.id()), drift
                else:
                    exp = base_id + ("[%s]" % ",".join(names) if names else "")
                    if real_id != exp:
                        return (i, "id-attributes", exp, real_id), drift
            elif a == "startTest":
                result = make_result("testtools", log)
                test.run(result)
                ran = True
        except tlc.MachineryError:
            raise
        except Exception as ex:  # building, identifying and running a decorated test never raises
            return (i, "raised", None, "%s at %s: %s" % (type(ex).__name__, a, str(ex)[:200])), drift
        if not ran:
            if log:
                return (i, "nothing-runs-before-run", [], list(log)), drift
            continue
        exp = h["events"]
        got = log[: len(exp)]
        last = a == "stopTest"
        for j, e in enumerate(exp):
            if j >= len(got):
                return (i, clause_for(exp, log, reasons), render(exp), render(log)), drift
            g = got[j]
            if g[0] != e["k"]:
                return (i, clause_for(exp, log, reasons), render(exp), render(log)), drift
            if e["k"] == "addSkip":
                if e["arg"] == "body":
                    if g[1] != "body":
                        return (i, "runs-normally", render(exp), render(log)), drift
                elif g[1] not in reasons:
                    return (i, "skip-reason", sorted(reasons), g[1]), drift
                elif g[1] != e["arg"]:
                    drift = "X10: %d decorators apply (%s); the specification's mechanism reports %r, the code %r" % (len(reasons), sorted(reasons), e["arg"], g[1])
            if len(g) > 2 and g[2] != real_id:
                return (i, "reported-under-its-id", real_id, g[2]), drift
        if last and len(log) != len(exp):
            return (i, clause_for(exp, log, reasons), render(exp), render(log)), drift
    return None, drift


def clause_for(exp, log, reasons):
    kinds = [e["k"] for e in exp]
    skipped = bool(reasons)
    got = [g[0] for g in log]
    if skipped:
        if any(k in TEST_PARTS for k in got):
            return "skipped-runs-nothing"
        if got.count("addSkip") != 1 or len(got) != 3:
            return "skipped-exactly-once"
        return "decorator-skips"
    if "addSkip" in got and not any(k in TEST_PARTS for k in got):
        return "skips-although-no-decorator-applies"
    return "runs-normally"


def render(events):
    out = []
    for e in events:
        if isinstance(e, dict):
            out.append(e["k"] if e["arg"] == "none" else "%s(%s)" % (e["k"], e["arg"]))
        else:
            out.append(e[0] if e[1] is None else "%s(%s)" % (e[0], e[1]))
    return out


def replay_unittest(hist, pick):
    """The same description on unittest.TestCase with unittest.TestResult: only the decorator verdict is compared."""
    init = hist[0]
    desc = init["arg"]
    reasons = set(init["reasons"])
    log = []
    try:
        test = build(desc, "unittest", pick, log)
        test.run(make_result("unittest", log))
    except tlc.MachineryError:
        raise
    except Exception as ex:
        return (len(hist) - 1, "raised", None, "%s (unittest flavour): %s" % (type(ex).__name__, str(ex)[:200]))
    got = [g[0] for g in log]
    n = len(hist) - 1
    if reasons:
        if any(k in TEST_PARTS for k in got):
            return (n, "skipped-runs-nothing", ["startTest", "addSkip", "stopTest"], render(log))
        # whether unittest brackets a decorator skip with startTest / stopTest is its own business (3.12.1 does not)
        core = [g for g in log if g[0] not in ("startTest", "stopTest")]
        if [g[0] for g in core] != ["addSkip"]:
            return (n, "skipped-exactly-once", ["addSkip"], render(log))
        if core[0][1] not in reasons:
            return (n, "skip-reason", sorted(reasons), core[0][1])
    else:
        want = {"pass": "addSuccess", "fail": "addFailure", "skips": "addSkip"}[desc["body"]]
        parts = [k for k in got if k in TEST_PARTS]
        if parts != list(TEST_PARTS) or got.count(want) != 1 or (want == "addSkip" and ("addSkip", "body") not in [g[:2] for g in log]):
            clause = "skips-although-no-decorator-applies" if ("addSkip" in got and not parts) else "runs-normally"
            return (n, clause, list(TEST_PARTS) + [want], render(log))
    return None


def dec_str(d):
    if d["t"] == "attr":
        return "attr(%s)" % ",".join(ATTRS[x] for x in sorted(d["args"]))
    if d["t"] == "skip":
        return "%s.skip" % d["lib"]
    return "%s.%s(%s)" % (d["lib"], d["t"], d["cond"])


def shape(hist):
    d = hist[0]["arg"]
    return {
        "method": [dec_str(x) for x in d["mdecs"]],
        "class": [dec_str(x) for x in d["cdecs"]],
        "base": [dec_str(x) for x in d["bdecs"]],
        "body": d["body"],
        "clone": d["clone"],
    }


def nontrivial_key(hist):
    """Non-trivial: at least two decorators in play (stacked, or on different levels), a non-bool condition, a decorator
    that does not fire next to something else, attributes, or a clone."""
    d = hist[0]["arg"]
    decs = d["mdecs"] + d["cdecs"] + d["bdecs"]
    nonbool = any(x["cond"] in ("truthy", "falsy") for x in decs)
    if len(decs) >= 2 or nonbool or d["clone"] or any(x["t"] == "attr" for x in decs):
        return jdump(shape(hist))
    return None


def signature(hist, clause, observed, flavour):
    """One defect, one signature: clause, flavour, and WHERE / WHAT the decorators are that should have decided the
    verdict (those that apply; when none applies, those present)."""
    init = hist[0]
    d = init["arg"]
    place = {"m": ("method", d["mdecs"]), "c": ("class", d["cdecs"]), "b": ("base", d["bdecs"])}
    deciding = [(place[r[0]][0], place[r[0]][1][int(r[1:]) - 1]) for r in sorted(init["reasons"])]
    if not deciding:
        deciding = [(w, x) for w, q in place.values() for x in q if x["t"] != "attr"]
    where = "+".join(sorted({w for w, _ in deciding})) or "none"
    kinds = "+".join(sorted({"%s.%s%s" % (x["lib"], x["t"], ":nonbool" if x["cond"] in ("truthy", "falsy") else "") for _, x in deciding})) or "none"
    extra = ""
    if clause == "raised":
        extra = ":" + str(observed).split(" ", 1)[0]
    if clause in ("id-attributes", "clone-has-new-id", "reported-under-its-id"):
        stacked = "under-skip" if any(x["t"] != "attr" for x in d["mdecs"]) else "plain"
        return "x10:%s:%s:%s%s" % (clause, "clone" if d["clone"] else "test", stacked, extra)
    return "x10:%s:%s:%s:%s%s" % (clause, flavour, where, kinds, extra)


def run(tier, pid="X10"):
    use_repo()
    rep = Report(
        "X10",
        tier,
        "model_checking",
        "behaviours = one generated test class each: 0..2 (small alphabet: 3) decorators on the method out of testtools "
        "skip / skipIf / skipUnless with conditions True / False / truthy non-bool / falsy non-bool, unittest's skip / "
        "skipIf / skipUnless, attr(a) / attr(b2, more) / attr(a, more); 0..2 decorators on the class; 0..1 on its base "
        "class; body passes / fails / calls skipTest; the test itself or a clone_test_with_new_id copy. Exported by TLC "
        "(exhaustive within the bounds of spec/extra/sa_exp*.cfg); each built and run on testtools.TestCase + "
        "WithAttributes with per-step comparison of the combined log, and on unittest.TestCase with unittest.TestResult. "
        "Non-trivial = two or more decorators in play, a non-bool condition, attributes, or a clone; distinct by description.",
    )
    rep.assume("when several decorators apply, the reported reason must be the reason of one of them (which one is not documented; a choice other than the mechanism's is reported as DRIFT)")
    rep.assume("cleanups are those registered by setUp; 'runs normally' = setUp, body, tearDown, cleanup, one outcome between startTest and stopTest")
    rep.assume("attribute names are sorted in the id (the ids must be stable to be usable for filtering by id); attr is applied to methods only")
    rep.assume("unittest flavour: only the decorator verdict (skipped with a given reason and nothing run / not skipped and everything run) is compared, not the order of unittest's own reports")
    jobs = [
        ("sa_mc.cfg", ACTIONS_ALL, False),
        ("sa_expA.cfg", [a for a in ACTIONS_ALL if a not in ("DecorateBase", "DecorateClass")], True),
        ("sa_expB.cfg", [a for a in ACTIONS_ALL if a != "DecorateBase"], True),
        ("sa_expB2.cfg", ACTIONS_ALL, True),
        ("sa_expC.cfg", ACTIONS_ALL, True),
    ]
    seen_drift = set()
    for cfg, actions, export in jobs:
        r = tlc.run_tlc("extra", "MCSkipAttr", cfg, coverage=True, timeout=600, workers=4)
        tlc.require_ok(r, "X10 " + cfg)
        tlc.require_coverage(r, actions, "X10 " + cfg)
        rep.add_tlc(r, cfg)
        if not export:
            continue
        nb = 0
        for hist in tlc.exported(r):
            nb += 1
            nk = nontrivial_key(hist)
            pick = rep.seed + nb
            bad, drift = replay(hist, pick)
            rep.case(sample=shape(hist) if nk and rep.evaluations % 2500 == 17 else None, nontrivial_key=nk)
            rep.traces += 1
            if drift and drift not in seen_drift:
                seen_drift.add(drift)
                rep.note_drift(drift)
            if bad:
                i, clause, exp, obs = bad
                rep.violation(clause, signature(hist, clause, obs, "testtools"), {"behaviour": hist[: i + 1], "pick": pick, "flavour": "testtools", "cfg": cfg}, expected=exp, observed=obs)
            if not hist[0]["arg"]["clone"]:
                bad = replay_unittest(hist, pick)
                rep.case()
                if bad:
                    i, clause, exp, obs = bad
                    rep.violation(clause, signature(hist, clause, obs, "unittest"), {"behaviour": hist, "pick": pick, "flavour": "unittest", "cfg": cfg}, expected=exp, observed=obs)
        if nb == 0:
            raise tlc.MachineryError("X10 %s exported no behaviours" % cfg)
    if not rep.samples:
        rep.sample({"note": "see tlc_runs"})
    rep.exhaustive = True
    rep.extra["explanation"] = "exhaustive within the decorator alphabets and bounds of spec/extra/sa_*.cfg (MCSkipAttr.tla)"
    return rep.finish()


def replay_file(path, pid="X10"):
    import json

    use_repo()
    v = json.load(open(path))
    sc = v["scenario"]
    if sc["flavour"] == "unittest":
        bad = replay_unittest(sc["behaviour"], sc["pick"])
    else:
        bad, _ = replay(sc["behaviour"], sc["pick"])
    if bad:
        print("VIOLATION property=X10 replay=%s" % path)
        print("  step=%s clause=%s expected=%r observed=%r" % bad)
        return 1
    print("replay: behaviour conforms")
    return 0
