"""X13 - FixtureSuite (run around a fixture; sort_tests / filter_by_ids / iterate_tests / countTestCases composing on it)
and ConcurrentTestSuite(suite, make_tests, wrap_result).

Specs: spec/extra/FixSuite.tla and spec/extra/WrapResult.tla.

FixSuite: TLC checks the _tests lists and the run loop (mechanism) against folds over the history of sort / filter calls and
over the event log of the run (LeavesMeaning, SortMeaning, Bracketed in every state, RunMeaning) and exports every
behaviour.  Each is replayed on a real FixtureSuite of real testtools.TestCase objects (flat, nested plain suites, empty
suites; tests that pass, fail, error, ask the result to stop, raise KeyboardInterrupt; a fixture double or a real
fixtures.Fixture whose setUp / cleanUp may raise; a result that already wants to stop): after every sort_tests /
filter_by_ids call the ids iterate_tests yields, countTestCases and the identity of the returned suite are compared, then
run() is called and the combined log of fixture and tests is compared with the specification step by step, with how
run() ended.

WrapResult: TLC interleaves the spawning main thread and the workers and checks WrapOncePerWorker, WorkerReportsToWrapped,
TargetSeesAll, DoneMeaning, AbortMeaning, NoTestAfterStop; every exported interleaving is replayed on a real
ConcurrentTestSuite whose make_tests returns gate-controlled runnables and whose wrap_result blocks on a gate, so the real
threads take exactly the steps of the behaviour (no scheduler: one thread is released at a time); after every step the
wrap calls, what each worker's process_result saw, what the result given to run() saw and the stop() calls are compared.
"""

import queue
import threading
import unittest

from . import tlc
from .common import Report, jdump, use_repo

PROPS = ("X13",)
TIMEOUT = 20


class FixtureError(Exception):
    pass


class WrapError(Exception):
    pass


# ----------------------------------------------------------------------------------------------------------------------
# FixSuite


def build_fixsuite(init, log, pick):
    import fixtures
    import testtools
    from testtools.testsuite import FixtureSuite

    kind = init["kind"]  # list indexed by id-1
    fix = init["fix"]

    class T(testtools.TestCase):
        def run(self, result=None):
            self._x13_result = result
            return super().run(result)

        def _body(self, n):
            log.append({"e": "test", "t": n})
            k = kind[n - 1]
            if k == "fail":
                self.fail("the test fails")
            elif k == "error":
                raise RuntimeError("the test errors")
            elif k == "stop":
                self._x13_result.stop()
            elif k == "interrupt":
                raise KeyboardInterrupt()

        def test_1(self):
            self._body(1)

        def test_2(self):
            self._body(2)

        def test_3(self):
            self._body(3)

    class Double:
        def setUp(self):
            log.append({"e": "setUp", "t": 0})
            if fix == "setup-raises":
                raise FixtureError("setUp")

        def cleanUp(self):
            log.append({"e": "cleanUp", "t": 0})
            if fix == "cleanup-raises":
                raise FixtureError("cleanUp")

    class Real(fixtures.Fixture):
        def _setUp(self):
            log.append({"e": "setUp", "t": 0})
            if fix == "setup-raises":
                raise FixtureError("setUp")
            self.addCleanup(self._gone)

        def _gone(self):
            log.append({"e": "cleanUp", "t": 0})
            if fix == "cleanup-raises":
                raise FixtureError("cleanUp")

    def entry(e):
        if e["k"] == "case":
            return T("test_%d" % e["id"])
        return unittest.TestSuite([T("test_%d" % i) for i in e["kids"]])

    fixture = Real() if pick % 2 else Double()
    suite = FixtureSuite(fixture, [entry(e) for e in init["tests"]])
    ids = {n: T("test_%d" % n).id() for n in (1, 2, 3)}
    return suite, ids


def replay_fix(hist, pick):
    """Return None or (step index, clause, expected, observed)."""
    import testtools
    from testtools.testsuite import filter_by_ids, iterate_tests

    init = hist[0]["arg"]
    log = []
    suite, ids = build_fixsuite(init, log, pick)
    back = {v: k for k, v in ids.items()}
    ended = None
    ran = False
    last = len(hist) - 1
    for i, h in enumerate(hist):
        a = h["a"]
        try:
            if a == "sort_tests":
                suite.sort_tests()
            elif a == "filter_by_ids":
                wanted = [ids[n] for n in h["arg"]] + ["no.such.test"]
                wanted = (set(wanted), frozenset(wanted), list(wanted))[(pick + i) % 3]
                got = filter_by_ids(suite, wanted)
                if got is not suite:
                    return (i, "filter-returns-the-suite", "the FixtureSuite", repr(got))
            elif a == "run:setUp":
                result = testtools.TestResult()
                if hist[0]["stop"]:
                    result.stop()
                ran = True
                try:
                    suite.run(result)
                    ended = "none"
                except KeyboardInterrupt:
                    ended = "KeyboardInterrupt"
                except Exception as ex:
                    ended = "Exception:" + type(ex).__name__
        except tlc.MachineryError:
            raise
        except Exception as ex:
            return (i, "raised", None, "%s at %s: %s" % (type(ex).__name__, a, str(ex)[:200]))
        if not ran:
            try:
                leaves = [back.get(t.id(), t.id()) for t in iterate_tests(suite)]
                count = suite.countTestCases()
            except Exception as ex:
                return (i, "raised", None, "%s at iterate_tests after %s: %s" % (type(ex).__name__, a, str(ex)[:200]))
            if log:
                return (i, "nothing-runs-before-run", [], list(log))
            if leaves != h["leaves"]:
                return (i, {"sort_tests": "sort-tests", "filter_by_ids": "filter-by-ids"}.get(a, "iterate-tests"), h["leaves"], leaves)
            if count != h["count"]:
                return (i, "count-test-cases", h["count"], count)
            continue
        exp = h["ev"]
        if log[: len(exp)] != exp or (i == last and len(log) != len(exp)):
            return (i, clause_for_run(hist, log), exp, list(log))
        if i == last:
            want = h["exc"]
            both = want == "KeyboardInterrupt" and init["fix"] == "cleanup-raises"
            ok = (
                (want == "none" and ended == "none")
                or (want == "KeyboardInterrupt" and (ended == "KeyboardInterrupt" or (both and ended.startswith("Exception:"))))
                or (want in ("setUp", "cleanUp") and ended.startswith("Exception:"))
            )
            if not ok:
                return (i, "run-ends", want, ended)
    return None


def clause_for_run(hist, log):
    kinds = [e["e"] for e in log]
    if kinds.count("setUp") != 1 or (kinds and kinds[0] != "setUp"):
        return "fixture-set-up-once-before-tests"
    if hist[0]["arg"]["fix"] != "setup-raises" and (kinds.count("cleanUp") != 1 or kinds[-1] != "cleanUp"):
        return "fixture-cleaned-up-once-after-tests"
    return "tests-run"


def fix_shape(hist):
    init = hist[0]["arg"]
    tests = [("t%d" % e["id"]) if e["k"] == "case" else "suite(%s)" % ",".join("t%d" % i for i in e["kids"]) for e in init["tests"]]
    ops = []
    for h in hist[1:]:
        if h["a"] == "sort_tests":
            ops.append("sort")
        elif h["a"] == "filter_by_ids":
            ops.append("filter{%s}" % ",".join(map(str, sorted(h["arg"]))))
    return {"tests": tests, "kind": init["kind"], "fix": init["fix"], "prestop": hist[0]["stop"], "ops": ops}


def fix_nontrivial(hist):
    """Non-trivial: two composition calls, a sort that reorders, a filter that drops part of the tests, a test that errors
    / stops / interrupts the run, a fixture that raises, or a result that already wants to stop."""
    sh = fix_shape(hist)
    reorder = any(h["a"] == "sort_tests" and h["leaves"] != hist[k]["leaves"] for k, h in enumerate(hist[1:]))
    drops = any(h["a"] == "filter_by_ids" and 0 < len(h["leaves"]) < len(hist[k]["leaves"]) for k, h in enumerate(hist[1:]))
    ran = [h["arg"] for h in hist if h["a"] == "run:test"]
    special = any(sh["kind"][t - 1] != "pass" for t in ran) or sh["fix"] != "ok" or sh["prestop"]
    if len(sh["ops"]) >= 2 or reorder or drops or special:
        return jdump(sh)
    return None


def fix_signature(hist, i, clause, observed):
    """One defect, one signature: clause, the call it failed at, whether a sort_tests came before, the exception class
    when the call raised; for the run: what ended the run."""
    a = hist[i]["a"]
    ctx = "-after-sort_tests" if any(h["a"] == "sort_tests" for h in hist[1:i]) else ""
    if clause == "raised":
        what = "iterate_tests" if " at iterate_tests" in str(observed) else a
        return "x13:fixsuite:raised:%s%s:%s" % (what, ctx, str(observed).split(" ", 1)[0])
    if a.startswith("run:"):
        init = hist[0]["arg"]
        ran = [h["arg"] for h in hist[: i + 1] if h["a"] == "run:test"]
        enders = sorted({init["kind"][t - 1] for t in ran if init["kind"][t - 1] in ("stop", "interrupt")})
        return "x13:fixsuite:%s:%s" % (clause, "prestop" if hist[0]["stop"] else ("+".join(enders) or "to-the-end"))
    return "x13:fixsuite:%s:%s%s" % (clause, a, ctx)


# ----------------------------------------------------------------------------------------------------------------------
# WrapResult


class Gate:
    def __init__(self):
        self.cmd = queue.Queue()
        self.ack = queue.Queue()

    def tell(self, what):
        self.cmd.put(what)

    def wait_cmd(self):
        try:
            return self.cmd.get(timeout=TIMEOUT)
        except queue.Empty:
            return "exit"

    def wait_ack(self, what):
        try:
            got = self.ack.get(timeout=TIMEOUT)
        except queue.Empty:
            raise tlc.MachineryError("X13: no %r from a gated thread within %ss" % (what, TIMEOUT))
        if got != what:
            raise tlc.MachineryError("X13: gated thread said %r, expected %r" % (got, what))


class World:
    """A real ConcurrentTestSuite whose threads take one step at a time."""

    def __init__(self, init):
        import testtools
        from testtools.testresult.doubles import ExtendedTestResult
        from testtools.testresult.real import TestResultDecorator

        self.plan = init["plan"]
        self.kind = init["wrap"]
        self.abort = init["abort"]
        nw = len(self.plan)
        self.gates = [Gate() for _ in range(nw)]
        self.wrapgates = [Gate() for _ in range(nw)]
        self.wrap_calls = []  # (thread-safe result, number)
        self.returned = {}  # number -> object returned by wrap
        self.seen = [[] for _ in range(nw)]  # what the decorator of worker w saw
        self.stops = [0] * nw
        self.given = [None] * nw  # the result each worker's run() got
        self.ran_with = []  # (test number, result object)
        self.exit_stop = [None] * nw
        self.error = None
        self.finished = threading.Event()
        world = self

        class Target(ExtendedTestResult):
            stop_calls = 0

            def stop(self):
                Target.stop_calls += 1
                super().stop()

        self.target = Target()
        self.Target = Target

        class T(testtools.TestCase):
            def run(self, result=None):
                world.ran_with.append((int(self._testMethodName.split("_")[1]), result))
                return super().run(result)

            def _body(self, n):
                if n % 2 == 0:
                    self.fail("even tests fail")

        for n in (1, 2, 3, 4):
            setattr(T, "test_%d" % n, (lambda n: lambda self: self._body(n))(n))
        self.T = T

        class Rec(TestResultDecorator):
            """A result of its own in front of the thread-safe one: it has its OWN shouldStop, set by its stop()."""

            def __init__(self, decorated, w):
                super().__init__(decorated)
                self.w = w
                self._own_stop = False

            @property
            def shouldStop(self):
                return self._own_stop

            def startTest(self, test):
                world.seen[self.w].append(int(test.id().rsplit("_", 1)[1]))
                return super().startTest(test)

            def stop(self):
                world.stops[self.w] += 1
                self._own_stop = True
                return super().stop()

        self.Rec = Rec

        class Runnable:
            def __init__(self, w, numbers):
                self.w = w
                self.tests = [T("test_%d" % n) for n in numbers]

            def id(self):
                return "x13.worker-%d" % self.w

            def countTestCases(self):
                return len(self.tests)

            def __call__(self, result):
                return self.run(result)

            def run(self, result):
                gate = world.gates[self.w]
                world.given[self.w] = result
                gate.ack.put("started")
                k = 0
                while True:
                    cmd = gate.wait_cmd()
                    if cmd == "test":
                        self.tests[k].run(result)
                        k += 1
                        gate.ack.put("tested")
                    else:
                        world.exit_stop[self.w] = bool(result.shouldStop)
                        gate.ack.put("exiting")
                        return

        self.runnables = [Runnable(w, numbers) for w, numbers in enumerate(self.plan)]
        self.inner = unittest.TestSuite([t for r in self.runnables for t in r.tests])
        self.made_from = []

        def make_tests(suite):
            self.made_from.append(suite)
            return list(self.runnables)

        def wrap(thread_safe_result, number):
            # the main thread may arrive here early; the call counts from the moment the behaviour lets it through
            cmd = self.wrapgates[number].wait_cmd() if 0 <= number < nw else "go"
            self.wrap_calls.append((thread_safe_result, number))
            if cmd == "raise":
                raise WrapError("wrap_result raises for worker %d" % number)
            obj = Rec(thread_safe_result, number) if self.kind == "decorate" else thread_safe_result
            self.returned[number] = obj
            return obj

        if self.kind == "default":
            self.suite = testtools.ConcurrentTestSuite(self.inner, make_tests)
        else:
            self.suite = testtools.ConcurrentTestSuite(self.inner, make_tests, wrap_result=wrap)
        self.thread = None

    def start(self):
        def main():
            try:
                self.suite.run(self.target)
            except BaseException as ex:  # noqa: B036
                self.error = ex
            finally:
                self.finished.set()

        self.thread = threading.Thread(target=main, daemon=True)
        self.thread.start()

    def release_all(self):
        for g in self.gates + self.wrapgates:
            g.tell("exit")

    def target_ids(self):
        return [int(e[1].id().rsplit("_", 1)[1]) for e in self.target._events if e[0] == "startTest"]


def replay_wrap(hist):
    """Return None or (step index, clause, expected, observed)."""
    import testtools

    init = hist[0]["arg"]
    w = World(init)
    nw = len(w.plan)
    worker_of = {n: k for k, numbers in enumerate(w.plan) for n in numbers}
    exited = set()
    try:
        for i, h in enumerate(hist[1:], 1):
            a = h["a"]
            k = h["w"] - 1
            if a == "spawn":
                if w.thread is None:
                    w.start()
                if w.kind != "default":
                    w.wrapgates[k].tell("go")
                w.gates[k].wait_ack("started")
            elif a == "abort":
                if w.thread is None:
                    w.start()
                w.wrapgates[k].tell("raise")
                if not w.finished.wait(TIMEOUT):
                    raise tlc.MachineryError("X13: run() did not end after wrap_result raised")
                if not isinstance(w.error, WrapError):
                    return (i, "abort-reraises", "WrapError", repr(w.error))
            elif a == "test":
                w.gates[k].tell("test")
                w.gates[k].wait_ack("tested")
            elif a == "exit":
                w.gates[k].tell("exit")
                w.gates[k].wait_ack("exiting")
                if w.exit_stop[k] != h["arg"]:
                    return (i, "should-stop-visible-to-worker", h["arg"], w.exit_stop[k])
            elif a == "join":
                if h["mpc"] == "done":
                    if nw == 0 and w.thread is None:
                        w.start()
                    if not w.finished.wait(TIMEOUT):
                        raise tlc.MachineryError("X13: run() did not return although every worker exited")
                    if w.error is not None:
                        return (i, "raised", None, "%s out of run(): %s" % (type(w.error).__name__, str(w.error)[:200]))
            else:
                raise tlc.MachineryError("X13: unknown action %r" % a)
            # ---- observation after the step
            if a == "exit":
                exited.add(k)
            if h["mpc"] in ("spawn", "join") and len(exited) < nw and w.finished.is_set():
                return (i, "run-returns-only-when-workers-are-done", "running", "returned: %r" % (w.error,))
            # wrap calls: one per started worker, numbered in make_tests order, given a thread-safe result
            exp_calls = [c[0] for c in h["wrapcalls"] if c]
            got_calls = [n for _, n in w.wrap_calls]
            if sorted(got_calls) != sorted(exp_calls):
                return (i, "wrap-once-per-worker", exp_calls, got_calls)
            for tsr, n in w.wrap_calls:
                if not isinstance(tsr, testtools.ThreadsafeForwardingResult):
                    return (i, "wrap-gets-thread-safe-result", "ThreadsafeForwardingResult", type(tsr).__name__)
            # each started worker runs with the object the wrap returned (default: its own ThreadsafeForwardingResult)
            for j in range(nw):
                g = w.given[j]
                if g is None:
                    continue
                if w.kind == "default":
                    if not isinstance(g, testtools.ThreadsafeForwardingResult) or any(g is w.given[x] for x in range(nw) if x != j):
                        return (i, "default-is-a-threadsafe-result-per-worker", "own ThreadsafeForwardingResult", type(g).__name__)
                elif g is not w.returned.get(j):
                    return (i, "worker-runs-with-wrapped-result", "the object wrap_result returned for worker %d" % j, repr(g))
            for n, res in w.ran_with:
                if res is not w.given[worker_of[n]]:
                    return (i, "worker-runs-with-wrapped-result", "test %d reports to its worker's result" % n, repr(res))
            if w.kind == "decorate" and w.seen != h["seen"]:
                return (i, "wrapped-result-sees-its-workers-tests", h["seen"], w.seen)
            got_target = [[worker_of[n] + 1, n] for n in w.target_ids()]
            if got_target != h["target"]:
                return (i, "result-sees-every-test", h["target"], got_target)
            # D3 is judged where the worker looks at shouldStop of the result it runs with (the "exit" steps above); how
            # often stop() is called and on which other objects is not documented
        return None
    finally:
        w.release_all()
        if w.thread is not None:
            w.finished.wait(2)


def wrap_shape(hist):
    init = hist[0]["arg"]
    steps = ["%s%s" % (h["a"], h["w"] if h["w"] else "") for h in hist[1:] if h["a"] != "join"]
    return {"plan": init["plan"], "wrap": init["wrap"], "abort": init["abort"], "steps": steps}


def wrap_nontrivial(hist):
    """Non-trivial: two or more workers, a worker with two or more tests, or a failing wrap_result."""
    init = hist[0]["arg"]
    if len(init["plan"]) >= 2 or any(len(p) >= 2 for p in init["plan"]) or init["abort"]:
        return jdump(wrap_shape(hist))
    return None


def wrap_signature(hist, i, clause, observed):
    init = hist[0]["arg"]
    extra = ""
    if clause == "raised":
        extra = ":" + str(observed).split(" ", 1)[0]
    return "x13:wrap:%s:%s:%s%s%s" % (clause, init["wrap"], hist[i]["a"], ":abort" if init["abort"] else "", extra)


# ----------------------------------------------------------------------------------------------------------------------

FS_ACTIONS = ["SortTests", "FilterByIds", "RunSetUp", "RunTest", "RunLoopEnds", "RunCleanUp"]


def run(tier, pid="X13"):
    use_repo()
    rep = Report(
        "X13",
        tier,
        "model_checking",
        "behaviours = (1) a FixtureSuite over 3 tests in 6 shapes (flat, nested plain suites, empty suites, one test, "
        "none), up to 3 sort_tests / filter_by_ids calls (every subset of the ids) and then run(); and with 0..1 such "
        "call every assignment of pass / fail / error / asks-the-result-to-stop / KeyboardInterrupt to the tests x "
        "fixture fine / setUp raises / cleanUp raises x result already stopped or not; (2) ConcurrentTestSuite with 0..3 "
        "workers of 0..3 tests, wrap_result absent / returning a new decorator / returning its argument, no fault or the "
        "wrap call for the j-th worker raising, every interleaving of the spawning thread and the workers. Exported by "
        "TLC (exhaustive within spec/extra/fs_exp*.cfg, wr_exp.cfg); each replayed on the real objects with per-step "
        "comparison. Non-trivial = two composition calls, a reordering sort, a partial filter, a run ended early, a "
        "raising fixture; two or more workers, a worker with several tests, a failing wrap; distinct by scenario.",
    )
    rep.assume("tests ids are unique (duplicate ids make sorted_tests raise ValueError: C19)")
    rep.assume("when setUp raises no test may run; whether cleanUp is then called is the fixture's business and not compared")
    rep.assume("KeyboardInterrupt in a test together with a raising cleanUp: either exception may leave run()")
    rep.assume("workers are gate-controlled runnables that run one test per step and honour shouldStop as the docstring asks of make_tests; the order in which finished workers are joined is not observable and explored in worker order only")
    jobs = [
        ("MCFixSuite", "fs_mcB.cfg", None, FS_ACTIONS),
        ("MCFixSuite", "fs_expA.cfg", "fix", FS_ACTIONS),
        ("MCFixSuite", "fs_expB.cfg", "fix", FS_ACTIONS),
        ("MCWrapResult", "wr_mc.cfg", None, ["Spawn", "Abort"]),
        ("MCWrapResult", "wr_exp.cfg" if tier == "quick" else "wr_expT.cfg", "wrap", ["Spawn", "Abort"]),
    ]
    if tier != "quick":
        # four composition calls deep (the quick tier's fs_expA.cfg checks the same invariants three calls deep)
        jobs.insert(0, ("MCFixSuite", "fs_mcA.cfg", None, FS_ACTIONS))
    for module, cfg, part, actions in jobs:
        r = tlc.run_tlc("extra", module, cfg, coverage=True, timeout=600, workers=4)
        tlc.require_ok(r, "X13 " + cfg)
        tlc.require_coverage(r, actions, "X13 " + cfg)
        rep.add_tlc(r, cfg)
        if not part:
            continue
        nb = 0
        for hist in tlc.exported(r):
            nb += 1
            pick = rep.seed + nb
            if part == "fix":
                nk = fix_nontrivial(hist)
                bad = replay_fix(hist, pick)
                sample = fix_shape(hist)
            else:
                nk = wrap_nontrivial(hist)
                bad = replay_wrap(hist)
                sample = wrap_shape(hist)
            rep.case(sample=sample if nk and rep.evaluations % 3000 == 21 else None, nontrivial_key=nk)
            rep.traces += 1
            if bad:
                i, clause, exp, obs = bad
                sig = fix_signature(hist, i, clause, obs) if part == "fix" else wrap_signature(hist, i, clause, obs)
                rep.violation(clause, sig, {"part": part, "behaviour": hist[: i + 1] if part == "wrap" else hist, "upto": i, "pick": pick, "cfg": cfg}, expected=exp, observed=obs)
        if nb == 0:
            raise tlc.MachineryError("X13 %s exported no behaviours" % cfg)
    if not rep.samples:
        rep.sample({"note": "see tlc_runs"})
    rep.exhaustive = True
    rep.extra["explanation"] = "exhaustive within the shapes, behaviours and bounds of spec/extra/fs_*.cfg and wr_*.cfg"
    return rep.finish()


def replay_file(path, pid="X13"):
    import json

    use_repo()
    v = json.load(open(path))
    sc = v["scenario"]
    bad = replay_fix(sc["behaviour"], sc["pick"]) if sc["part"] == "fix" else replay_wrap(sc["behaviour"])
    if bad:
        print("VIOLATION property=X13 replay=%s" % path)
        print("  step=%s clause=%s expected=%r observed=%r" % bad)
        return 1
    print("replay: behaviour conforms")
    return 0
