#!/usr/bin/env python3
"""tools_seed_eval.py <seed-dir> <pid> [<name>] [--checks C01,C03]

Confirms an independently written breaking change (patch.diff + demo.py + meta.json in <seed-dir>):
 1. demo passes on a pristine scratch copy of /repo and fails on the patched copy;
 2. the repository's pinned suite still reports 1327 passed / 38 failed with the patch;
 3. runs the registered quick check(s) against the patched copy (VERIF_REPO) and records the verdict.
If 1 and 2 hold the change is kept as /verif/seeded/<name>/ with the results in meta.json."""
import json
import os
import shutil
import subprocess
import sys
import tempfile

VERIF = os.path.dirname(os.path.abspath(__file__))


def sh(cmd, cwd=None, env=None, timeout=3600):
    e = dict(os.environ)
    if env:
        e.update(env)
    p = subprocess.run(cmd, shell=True, cwd=cwd, env=e, stdout=subprocess.PIPE, stderr=subprocess.STDOUT, text=True, timeout=timeout)
    return p.returncode, p.stdout


def main():
    args = [a for a in sys.argv[1:] if not a.startswith("--")]
    seed, pid = args[0], args[1]
    name = args[2] if len(args) > 2 else os.path.basename(os.path.normpath(seed))
    checks = [pid]
    for a in sys.argv[1:]:
        if a.startswith("--checks"):
            checks = a.split("=", 1)[1].split(",")
    work = tempfile.mkdtemp(prefix="seedeval-")
    try:
        A = os.path.join(work, "a")
        B = os.path.join(work, "b")
        for d in (A, B):
            sh("rsync -a --exclude .git --exclude __pycache__ --exclude _seed /repo/ %s/" % d)
        rc, out = sh("patch -p1 -s < %s" % os.path.abspath(os.path.join(seed, "patch.diff")), cwd=B)
        if rc != 0:
            print("PATCH DOES NOT APPLY\n" + out)
            return 2
        demo = os.path.abspath(os.path.join(seed, "demo.py"))
        res = {}
        base = os.path.basename(os.path.normpath(seed))
        for tag, d in (("unchanged", A), ("patched", B)):
            # demos locate the tree relative to their own path: run a copy placed inside each tree
            os.makedirs(os.path.join(d, "_seed", base), exist_ok=True)
            shutil.copy(demo, os.path.join(d, "_seed", base, "demo.py"))
            rc, out = sh("/venv/bin/python _seed/%s/demo.py" % base, cwd=d, env={"PYTHONPATH": d}, timeout=600)
            res["demo_" + tag] = rc
            res["demo_%s_tail" % tag] = out[-400:]
        rc, out = sh("/venv/bin/python -m pytest -q -p no:cacheprovider --timeout=900 testtools 2>&1 | tail -1", cwd=B)
        res["suite"] = out.strip()
        ok = res["demo_unchanged"] == 0 and res["demo_patched"] != 0 and "1327 passed" in res["suite"] and "38 failed" in res["suite"]
        res["confirmed"] = ok
        res["checks"] = {}
        for c in checks:
            rc, out = sh("%s/check %s" % (VERIF, c), env={"VERIF_REPO": B, "VERIF_EVIDENCE_DIR": os.path.join(work, "ev")})
            lines = [l for l in out.split("\n") if l.startswith("VIOLATION") or l.startswith("  clause=") or "MACHINERY" in l]
            res["checks"][c] = {"rc": rc, "detected": rc == 1, "lines": lines[:6], "tail": out[-300:]}
        print(json.dumps(res, indent=1))
        if ok:
            dst = os.path.join(VERIF, "seeded", name)
            os.makedirs(dst, exist_ok=True)
            if os.path.realpath(seed) != os.path.realpath(dst):
                shutil.copy(os.path.join(seed, "patch.diff"), dst)
                shutil.copy(demo, dst)
            meta = {}
            try:
                meta = json.load(open(os.path.join(seed, "meta.json")))
            except Exception:
                pass
            meta["property"] = pid
            meta["evaluation"] = res
            json.dump(meta, open(os.path.join(dst, "meta.json"), "w"), indent=1)
        return 0
    finally:
        shutil.rmtree(work, ignore_errors=True)


if __name__ == "__main__":
    sys.exit(main())
