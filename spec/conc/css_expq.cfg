SPECIFICATION Spec
CONSTANTS
  Record = TRUE
  Scripts <- ScriptsXq
  FaultChoices <- ExpFaultsQ
  RouteChoices <- DistinctRoutes
CONSTRAINT ExportC
INVARIANT EachOnce
INVARIANT ReturnsAfterAll
INVARIANT EventsOnceInOrder
INVARIANT StreamFields
INVARIANT BrokenReported
INVARIANT AbortTellsAll
CHECK_DEADLOCK TRUE
