--------------------------- MODULE MC_SemaphoreIndMut ---------------------------
EXTENDS SemaphoreIndMut
\* @type: Set(Str);
ThreadC == {"t1", "t2", "t3", "t4"}
\* Apalache: constants as definitions
ConstInit == Thread = ThreadC
=============================================================================
