-------------------------- MODULE ThreadsafeTrace --------------------------
(***************************************************************************)
(* Trace validation for Threadsafe: executions of the REAL                 *)
(* ThreadsafeForwardingResult objects in real threads under                *)
(* harness/sched.py, one event per scheduler step:                         *)
(*   [thr, act \in {local, acquire, call, release}, call, v, tg, h, f,     *)
(*    holder (after the step), ret \in {none, ok, raised}]                 *)
(* A batch of traces is read from IOEnv.TRACE_FILE; `tid` selects one.     *)
(*                                                                         *)
(* Strict = TRUE : every event must be the corresponding action of         *)
(*   Threadsafe (same target call, same holder) - the code follows the     *)
(*   model step by step.                                                   *)
(* Strict = FALSE: the state (semaphore holder, target log, who is inside  *)
(*   a forwarder call, which calls returned) is RECONSTRUCTED from the     *)
(*   observation alone, with no assumption about the mechanism, so that    *)
(*   the C12 invariants give the verdict on executions the model does not  *)
(*   have (a call outside the semaphore, a release before stopTest ...).   *)
(* In both modes every C12 invariant is evaluated on every state (INVARIANT *)
(* lines of the config; BlockShape through the reporting constraint).      *)
(***************************************************************************)
EXTENDS Threadsafe, IOUtils

CONSTANT Strict

VARIABLES tid, l,
          sval   \* the semaphore's counter as observed (1 = free, 0 = taken; anything else is a protocol failure)
tvars == <<work, faults, pc, idx, buf, sem, tlog, ncalls, exc, completed, raisedAt, reads, hist, tid, l, sval>>

Traces == JsonDeserialize(IOEnv.TRACE_FILE)

SetOf(s) == {s[i] : i \in DOMAIN s}
Pair(r) == [n |-> SetOf(r.n), g |-> SetOf(r.g)]
ItemOf(j) == [kind |-> j.kind, out |-> j.out, gt |-> Pair(j.gt), xt |-> Pair(j.xt), st |-> j.st, en |-> j.en]
WorkOf(tr) == [t \in DOMAIN tr.work |-> [i \in DOMAIN tr.work[t] |-> ItemOf(tr.work[t][i])]]
FaultsOf(tr) == {<<tr.faults[k][1], tr.faults[k][2]>> : k \in DOMAIN tr.faults}

TraceInit ==
    \E n \in DOMAIN Traces :
        /\ tid = n /\ l = 0 /\ sval = 1
        /\ InitWith(WorkOf(Traces[n]), FaultsOf(Traces[n]))

Ev == Traces[tid].ev[l + 1]
EntryOf(e) == Entry(e.thr, e.call, e.v, Pair(e.tg), e.h, e.f)

StrictStep ==
    LET e == Ev  t == e.thr IN
    /\ t \in Threads
    /\ CASE e.act = "local"   -> Local(t) /\ e.ret = None
         [] e.act = "acquire" -> Acquire(t) /\ e.ret = None
         [] e.act = "call"    -> Call(t) /\ tlog'[Len(tlog')] = EntryOf(e) /\ e.ret = None
         [] e.act = "release" -> /\ Release(t) /\ e.ret = (IF exc[t] THEN "raised" ELSE "ok")
                                 /\ IF Len(reads'[t]) > Len(reads[t])
                                    THEN e.read = (IF reads'[t][Len(reads'[t])] THEN "true" ELSE "false")
                                    ELSE e.read = None
         [] OTHER -> FALSE
    /\ sem' = e.holder
    /\ sval' = (IF sem' = Free THEN 1 ELSE 0) /\ sval' = e.semval

\* TOTAL: every observation is representable - a non-blocking acquire that fails (try_acquire, got = FALSE), a
\* release by a thread that holds nothing, a counter above 1.  What such an execution means is for the invariants.
LooseStep ==
    LET e == Ev  t == e.thr  i == IF e.act = "local" THEN idx[t] + 1 ELSE idx[t]
        took == e.act = "acquire" \/ (e.act = "try_acquire" /\ e.got) IN
    /\ t \in Threads
    /\ idx' = [idx EXCEPT ![t] = i]
    \* the holder is the last thread that took a permit and has not given one back
    /\ sem' = IF took THEN t ELSE IF e.act = "release" /\ sem = t THEN Free ELSE sem
    /\ sval' = e.semval
    /\ tlog' = IF e.act = "call" THEN Append(tlog, EntryOf(e)) ELSE tlog
    /\ pc' = [pc EXCEPT ![t] = IF e.ret # None THEN "idle"
                                ELSE IF e.act = "local" THEN "acq"
                                ELSE IF took \/ e.act = "try_acquire" THEN "in" ELSE @]
    /\ completed' = IF e.ret = "ok" THEN completed \cup {<<t, i>>} ELSE completed
    /\ raisedAt' = IF e.ret = "raised" THEN raisedAt \cup {<<t, i>>} ELSE raisedAt
    /\ reads' = IF e.read = None THEN reads ELSE [reads EXCEPT ![t] = Append(@, e.read = "true")]
    /\ UNCHANGED <<work, faults, buf, ncalls, exc, hist>>

TraceNext ==
    /\ l < Len(Traces[tid].ev)
    /\ IF Strict THEN StrictStep ELSE LooseStep
    /\ l' = l + 1 /\ UNCHANGED tid

TraceSpec == TraceInit /\ [][TraceNext]_tvars

AtEnd == l = Len(Traces[tid].ev)
\* printed once per fully consumed trace; with TRACE_PROGRESS=1 also the position reached
\* BlockShape has an open known finding on the unchanged tree (a whole class of real executions violates it), so it
\* is evaluated on every state like an INVARIANT but REPORTED per trace instead of stopping the batch
AcceptC ==
    /\ IOEnv.TRACE_PROGRESS = "1" => PrintT(<<"AT", tid, l>>)
    /\ (~BlockShape) => PrintT(<<"INVFAIL", "BlockShape", tid, l>>)
    /\ AtEnd => PrintT(<<"ACCEPT", tid>>)

\* an execution that ran to completion leaves every thread finished and the semaphore free
\* Released, on the counter itself: it is 1 exactly when no thread holds the semaphore, and 0 otherwise - a release
\* without a successful acquire (counter 2: two blocks can then run at once) breaks this
ReleasedCount == /\ sval \in {0, 1}
                 /\ (sval = 1) = (sem = Free)

EndState == (AtEnd /\ Traces[tid].complete) =>
               /\ sem = Free /\ sval = 1
               /\ \A t \in Threads : pc[t] = "idle" /\ idx[t] = Len(work[t])
=============================================================================
