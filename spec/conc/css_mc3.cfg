SPECIFICATION Spec
CONSTANTS
  Record = FALSE
  Scripts <- Scripts3
  FaultChoices <- Faults3
  RouteChoices <- DistinctRoutes

INVARIANT EachOnce
INVARIANT ReturnsAfterAll
INVARIANT EventsOnceInOrder
INVARIANT StreamFields
INVARIANT BrokenReported
INVARIANT AbortTellsAll
CHECK_DEADLOCK TRUE
