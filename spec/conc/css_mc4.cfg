SPECIFICATION Spec
CONSTANTS
  Record = FALSE
  Scripts <- Scripts4
  FaultChoices <- Faults4
  RouteChoices <- DistinctRoutes

INVARIANT EachOnce
INVARIANT ReturnsAfterAll
INVARIANT EventsOnceInOrder
INVARIANT StreamFields
INVARIANT BrokenReported
INVARIANT AbortTellsAll
CHECK_DEADLOCK TRUE
