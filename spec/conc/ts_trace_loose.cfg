SPECIFICATION TraceSpec
CONSTANTS
  Record = FALSE
  Strict = FALSE
CONSTRAINT AcceptC
INVARIANT HolderOnly
INVARIANT Contiguous
INVARIANT BlockShape
INVARIANT OnceInOrder
INVARIANT Released
INVARIANT FaultsSurface
INVARIANT EndState
CHECK_DEADLOCK FALSE
