SPECIFICATION TraceSpec
CONSTANTS
  Record = FALSE
  Strict = FALSE
CONSTRAINT AcceptC
INVARIANT HolderOnly
INVARIANT Contiguous
INVARIANT OnceInOrder
INVARIANT Released
INVARIANT ReleasedCount
INVARIANT FaultsSurface
INVARIANT ShouldStopReads
INVARIANT EndState
CHECK_DEADLOCK FALSE
