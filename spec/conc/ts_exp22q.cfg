SPECIFICATION Spec
CONSTANTS
  Record = TRUE
  Works <- WorksX2q
  FaultChoices <- FaultsX2
CONSTRAINT ExportC
INVARIANT TypeOK
INVARIANT HolderOnly
INVARIANT Contiguous
INVARIANT OnceInOrder
INVARIANT Released
INVARIANT FaultsSurface
INVARIANT ShouldStopReads
CHECK_DEADLOCK TRUE
