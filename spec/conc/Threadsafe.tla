----------------------------- MODULE Threadsafe -----------------------------
(***************************************************************************)
(* ThreadsafeForwardingResult (testtools/testresult/real.py:1250-1402).    *)
(*                                                                         *)
(* Several threads, each with its own forwarder, share one target result   *)
(* and one semaphore.  One action per critical section of the code:        *)
(*   Local(t)    the thread-local part of reporting the next item:         *)
(*               time()/tags()/startTest() on the forwarder are buffered,  *)
(*               `now = self._now()` is read, nothing touches the target   *)
(*   Acquire(t)  semaphore.acquire() - enabled iff the semaphore is free   *)
(*   Call(t)     ONE call on the shared target, in the order of            *)
(*               _add_result_with_semaphore: time(start) startTest         *)
(*               time(now) tags(global)? tags(test)? outcome stopTest;     *)
(*               run-level items (startTestRun/stopTestRun/stop/done/      *)
(*               shouldStop) make a single call                            *)
(*   Release(t)  semaphore.release() (the outer `finally`)                 *)
(* Faults: the target raises at the k-th call made by thread t, for every  *)
(* <<t, k>> in `faults`.  try/finally of the code: a raising outcome still *)
(* runs stopTest; anything raising still runs Release; the exception then  *)
(* reaches the reporting thread and `_test_start` is NOT cleared.          *)
(*                                                                         *)
(* The MEANING of C12 is written over the target's log `tlog` only (what   *)
(* the target saw: calling thread, call, argument, semaphore holder at     *)
(* that moment) plus which calls on the forwarder have returned.           *)
(***************************************************************************)
EXTENDS Naturals, Sequences, FiniteSets, TLC, Json, SequencesExt, IOUtils

CONSTANTS
    Record        \* TRUE: keep the observation variable `hist` (export / simulate configs)

\* What happens to the forwarder's buffers when the target raises inside a block:
\*   "asRequired"  the block's buffers (_test_start, _test_tags) are cleared whenever the block ends,
\*                 so the next test's block carries that test's own tags (what C12 demands of every block)
\*   "asCoded"     real.py:1295-1313 as it is: `self._test_tags = set(), set()` sits between the tags calls and
\*                 the outcome and `self._test_start = None` after the try/finally - a raise before the outcome
\*                 leaves the test-local tags buffered (they leak into the next test's block), any raise leaves
\*                 _test_start set (a tags() call before the next startTest is buffered as test-local)
\* The properties are model-checked under asRequired; asCoded is what conformance of the code is checked against
\* (the harness probes which of the two the tree under test implements) and must violate BlockShape.
Variant == IOEnv.C12_VARIANT

Free == 0
None == "none"
NoTags == [n |-> {}, g |-> {}]          \* a (new, gone) pair of tag sets
Outcomes == {"addSuccess", "addError", "addFailure", "addSkip", "addExpectedFailure", "addUnexpectedSuccess"}
RunLevel == {"startTestRun", "stopTestRun", "stop", "done", "shouldStop"}

\* work[t] is a sequence of items  [kind, out, gt, xt]:
\*   kind = "test": report one test with outcome `out`, explicit times st / en; gt = tags() given before startTest (global scope),
\*                  xt = tags() given after startTest (test scope); NoTags = no such call
\*   kind \in RunLevel: that call on the forwarder
\* Test (t, i) has id 100t+10i.  Its explicit start / end times are the item's fields st / en (small naturals from
\* a tiny alphabet: consecutive tests of a thread may have EQUAL times, e.g. start(i+1) = end(i)); 0 stands for the
\* default, unique times id+1 / id+2.
Id(t, i)     == 100 * t + 10 * i

VARIABLES
    work,       \* frozen: sequence (indexed by thread) of sequences of items
    faults,     \* frozen: set of <<t, k>>: the target raises at the k-th call made by thread t
    pc,         \* per thread: idle acq t1 st t2 tg tt out stop rcall rel
    idx,        \* per thread: index of the item being / last reported
    buf,        \* per thread: the forwarder's buffered [start, now, gt, xt]            (mechanism)
    sem,        \* Free or the holding thread
    tlog,       \* the shared target's log: [thr, call, v, tg, h, f]
    ncalls,     \* per thread: calls made on the target
    exc,        \* per thread: an exception is propagating out of the current forwarder call
    completed,  \* set of <<t, i>>: the forwarder call for item i returned normally
    raisedAt,   \* set of <<t, i>>: the forwarder call for item i raised to the reporting thread
    reads,      \* per thread: the values its `shouldStop` reads have returned, in order
    hist        \* observation (export / trace validation)

vars == <<work, faults, pc, idx, buf, sem, tlog, ncalls, exc, completed, raisedAt, reads, hist>>

Threads == DOMAIN work
StartT(t, i) == IF work[t][i].st = 0 THEN Id(t, i) + 1 ELSE work[t][i].st
EndT(t, i)   == IF work[t][i].en = 0 THEN Id(t, i) + 2 ELSE work[t][i].en

AnyTags(p) == p.n # {} \/ p.g # {}
\* real.py _merge_tags
Merge(ex, ch) == [n |-> (ex.n \cup ch.n) \ ch.g, g |-> (ex.g \cup ch.g) \ ch.n]

Item(t) == work[t][idx[t]]
Finished(t) == pc[t] = "idle" /\ idx[t] = Len(work[t])
AllFinished == \A t \in Threads : Finished(t)
Blocked(p, s) == {t \in Threads : p[t] = "acq" /\ s # Free}

Entry(t, c, v, tg, h, f) == [thr |-> t, call |-> c, v |-> v, tg |-> tg, h |-> h, f |-> f]
NoEntry == Entry(0, None, 0, NoTags, 0, FALSE)

Log(t, act, e, ret) ==
    hist' = IF Record
            THEN Append(hist, [thr |-> t, act |-> act, e |-> e, holder |-> sem', ret |-> ret,
                               blocked |-> Blocked(pc', sem')])
            ELSE hist

-----------------------------------------------------------------------------
TypeOK ==
    /\ sem \in Threads \cup {Free}
    /\ \A t \in Threads : pc[t] \in {"idle", "acq", "t1", "st", "t2", "tg", "tt", "out", "stop", "rcall", "rel"}
    /\ \A t \in Threads : idx[t] \in 0..Len(work[t])

InitWith(w, fs) ==
    /\ work = w /\ faults = fs
    /\ pc = [t \in DOMAIN w |-> "idle"]
    /\ idx = [t \in DOMAIN w |-> 0]
    /\ buf = [t \in DOMAIN w |-> [start |-> 0, now |-> 0, gt |-> NoTags, xt |-> NoTags]]
    /\ sem = Free /\ tlog = <<>>
    /\ ncalls = [t \in DOMAIN w |-> 0]
    /\ exc = [t \in DOMAIN w |-> FALSE]
    /\ completed = {} /\ raisedAt = {}
    /\ reads = [t \in DOMAIN w |-> <<>>]
    /\ hist = <<>>

\* the reporting thread calls time(start) [tags(gt)] startTest(test) [tags(xt)] time(end) on its forwarder and
\* enters addX (which reads now = self._now()); for run-level items nothing is buffered.
\* tags(): `if self._test_start is not None` decides the scope - after a fault _test_start is stale.
Local(t) ==
    /\ pc[t] = "idle" /\ idx[t] < Len(work[t])
    /\ LET i  == idx[t] + 1
           it == work[t][i]
           b  == buf[t]
           stale == b.start # 0
           gt1 == IF stale THEN b.gt ELSE Merge(b.gt, it.gt)
           xt0 == IF stale THEN Merge(b.xt, it.gt) ELSE b.xt
       IN /\ idx' = [idx EXCEPT ![t] = i]
          /\ buf' = IF it.kind = "test"
                    THEN [buf EXCEPT ![t] = [start |-> StartT(t, i), now |-> EndT(t, i),
                                             gt |-> gt1, xt |-> Merge(xt0, it.xt)]]
                    \* startTestRun: "run-level tags buffered for the previous run are gone with it"
                    ELSE IF it.kind = "startTestRun" THEN [buf EXCEPT ![t].gt = NoTags]
                    ELSE buf
    /\ pc' = [pc EXCEPT ![t] = "acq"]
    /\ UNCHANGED <<work, faults, sem, tlog, ncalls, exc, completed, raisedAt, reads>>
    /\ Log(t, "local", NoEntry, None)

Acquire(t) ==
    /\ pc[t] = "acq" /\ sem = Free
    /\ sem' = t
    /\ pc' = [pc EXCEPT ![t] = IF Item(t).kind = "test" THEN "t1" ELSE "rcall"]
    /\ UNCHANGED <<work, faults, idx, buf, tlog, ncalls, exc, completed, raisedAt, reads>>
    /\ Log(t, "acquire", NoEntry, None)

AfterTime2(b) == IF AnyTags(b.gt) THEN "tg" ELSE IF AnyTags(b.xt) THEN "tt" ELSE "out"
NextPc(c, b) == CASE c = "t1" -> "st"
                  [] c = "st" -> "t2"
                  [] c = "t2" -> AfterTime2(b)
                  [] c = "tg" -> (IF AnyTags(b.xt) THEN "tt" ELSE "out")
                  [] c = "tt" -> "out"
                  [] c = "out" -> "stop"
                  [] c = "stop" -> "rel"
                  [] c = "rcall" -> "rel"

CallOf(t) ==
    LET c == pc[t]  b == buf[t]  d == Id(t, idx[t]) IN
    CASE c = "t1"    -> <<"time", b.start, NoTags>>
      [] c = "st"    -> <<"startTest", d, NoTags>>
      [] c = "t2"    -> <<"time", b.now, NoTags>>
      [] c = "tg"    -> <<"tags", 0, b.gt>>
      [] c = "tt"    -> <<"tags", 0, b.xt>>
      [] c = "out"   -> <<Item(t).out, d, NoTags>>
      [] c = "stop"  -> <<"stopTest", d, NoTags>>
      [] c = "rcall" -> <<Item(t).kind, 0, NoTags>>

Call(t) ==
    /\ pc[t] \in {"t1", "st", "t2", "tg", "tt", "out", "stop", "rcall"}
    /\ LET c  == pc[t]
           k  == ncalls[t] + 1
           f  == <<t, k>> \in faults
           cl == CallOf(t)
           e  == Entry(t, cl[1], cl[2], cl[3], sem, f)
           np == IF ~f THEN NextPc(c, buf[t]) ELSE IF c = "out" THEN "stop" ELSE "rel"
       IN /\ tlog' = Append(tlog, e)
          /\ ncalls' = [ncalls EXCEPT ![t] = k]
          /\ exc' = [exc EXCEPT ![t] = @ \/ f]
          /\ pc' = [pc EXCEPT ![t] = np]
          \* `self._test_tags = set(), set()` sits between the tags calls and the outcome
          /\ buf' = IF np = "out" THEN [buf EXCEPT ![t].xt = NoTags] ELSE buf
          /\ UNCHANGED <<work, faults, idx, sem, completed, raisedAt, reads>>
          /\ Log(t, "call", e, None)

\* the target's shouldStop flag as the call at position p of its log finds it: a stop() has got through before
StopBefore(p) == \E q \in 1..(p - 1) : tlog[q].call = "stop" /\ ~tlog[q].f
LastCallOf(t) == CHOOSE p \in DOMAIN tlog : tlog[p].thr = t /\ \A q \in DOMAIN tlog : tlog[q].thr = t => q <= p

Release(t) ==
    /\ pc[t] = "rel"
    /\ sem' = Free
    /\ pc' = [pc EXCEPT ![t] = "idle"]
    /\ IF exc[t]
       THEN /\ raisedAt' = raisedAt \cup {<<t, idx[t]>>}
            /\ buf' = IF Variant = "asRequired" /\ Item(t).kind = "test"
                      THEN [buf EXCEPT ![t].start = 0, ![t].xt = NoTags] ELSE buf
            /\ UNCHANGED <<completed, reads>>
       ELSE /\ completed' = completed \cup {<<t, idx[t]>>}
            /\ buf' = IF Item(t).kind = "test" THEN [buf EXCEPT ![t].start = 0] ELSE buf
            /\ UNCHANGED raisedAt
            \* _get_shouldStop returns what the target's flag was when this thread, holding the semaphore, read it
            /\ reads' = IF Item(t).kind = "shouldStop"
                        THEN [reads EXCEPT ![t] = Append(@, StopBefore(LastCallOf(t)))] ELSE reads
    /\ exc' = [exc EXCEPT ![t] = FALSE]
    /\ UNCHANGED <<work, faults, idx, tlog, ncalls>>
    /\ Log(t, "release", NoEntry, IF exc[t] THEN "raised" ELSE "ok")

Step(t) == Local(t) \/ Acquire(t) \/ Call(t) \/ Release(t)
Done == AllFinished /\ UNCHANGED vars
DoLocal   == \E t \in Threads : Local(t)
DoAcquire == \E t \in Threads : Acquire(t)
DoCall    == \E t \in Threads : Call(t)
DoRelease == \E t \in Threads : Release(t)
Next == DoLocal \/ DoAcquire \/ DoCall \/ DoRelease \/ Done

Fairness == \A t \in 1..4 : WF_vars(t \in Threads /\ Step(t))

-----------------------------------------------------------------------------
(* MEANING of C12, over what the target saw                                 *)

IsOutcome(e) == e.call \in Outcomes
\* the test an entry is about (0: none - time and tags calls carry no test; where they belong is fixed by BlockShape)
About(e) == IF e.call \in {"startTest", "stopTest"} \cup Outcomes THEN e.v ELSE 0
OwnerOf(d) == d \div 100
IndexOf(d) == (d % 100) \div 10
Shape(e) == <<e.call, e.v, e.tg>>

\* every call on the target is made while the caller holds the semaphore
HolderOnly == \A i \in DOMAIN tlog : tlog[i].h = tlog[i].thr

\* blocks of distinct tests never interleave; a block is the work of one thread
Contiguous ==
    \A i, k \in DOMAIN tlog :
        (i < k /\ About(tlog[i]) # 0 /\ About(tlog[i]) = About(tlog[k])) =>
            /\ tlog[i].thr = tlog[k].thr
            /\ \A j \in (i + 1)..(k - 1) :
                  /\ tlog[j].thr = tlog[i].thr
                  /\ About(tlog[j]) \in {0, About(tlog[i])}
                  /\ tlog[j].call \notin RunLevel

\* global tags of thread t as of its i-th item: fold of _merge_tags over the tags() given outside tests since the
\* forwarder's last startTestRun
RECURSIVE GlobalTags(_, _)
GlobalTags(t, i) == IF i = 0 THEN NoTags
                    ELSE IF work[t][i].kind = "test" THEN Merge(GlobalTags(t, i - 1), work[t][i].gt)
                    ELSE IF work[t][i].kind = "startTestRun" THEN NoTags      \* a new run starts without tags
                    ELSE GlobalTags(t, i - 1)

Expected(t, i) ==
    LET it == work[t][i]  d == Id(t, i)  g == GlobalTags(t, i) IN
    <<  <<"time", StartT(t, i), NoTags>>, <<"startTest", d, NoTags>>, <<"time", EndT(t, i), NoTags>> >>
    \o (IF AnyTags(g) THEN << <<"tags", 0, g>> >> ELSE <<>>)
    \o (IF AnyTags(it.xt) THEN << <<"tags", 0, it.xt>> >> ELSE <<>>)
    \o << <<it.out, d, NoTags>>, <<"stopTest", d, NoTags>> >>

\* EVERY complete block in which the target did not raise - also the blocks a thread reports after the target
\* raised on an earlier one - is exactly: start time, startTest, end time, that test's own tags, its outcome,
\* stopTest
BlockShape ==
    \A p \in DOMAIN tlog : tlog[p].call = "startTest" =>
        LET d == tlog[p].v
            t == tlog[p].thr
            ends == {q \in DOMAIN tlog : q > p /\ tlog[q].call = "stopTest" /\ tlog[q].v = d}
        IN /\ p > 1
           /\ OwnerOf(d) = t /\ IndexOf(d) \in 1..Len(work[t]) /\ work[t][IndexOf(d)].kind = "test"
           /\ ends # {} =>
                LET q == CHOOSE x \in ends : \A y \in ends : x <= y
                    blk == SubSeq(tlog, p - 1, q)
                IN (\A j \in DOMAIN blk : ~blk[j].f) =>
                      [j \in DOMAIN blk |-> Shape(blk[j])] = Expected(t, IndexOf(d))

OutIdx(t) == SelectSeq([j \in DOMAIN tlog |-> j], LAMBDA j : tlog[j].thr = t /\ IsOutcome(tlog[j]))

\* every outcome exactly once, each thread's tests in that thread's order, with the test's own start time
OnceInOrder ==
    /\ \A j \in DOMAIN tlog : IsOutcome(tlog[j]) => OwnerOf(tlog[j].v) = tlog[j].thr
    /\ \A t \in Threads :
          LET o == OutIdx(t) IN
          /\ \A a \in DOMAIN o :
                LET e == tlog[o[a]]  i == IndexOf(e.v) IN
                /\ i \in 1..Len(work[t]) /\ work[t][i].kind = "test" /\ work[t][i].out = e.call
                /\ a > 1 => tlog[o[a - 1]].v < e.v
                /\ \E q \in 2..(o[a] - 1) :
                      /\ tlog[q].call = "startTest" /\ tlog[q].v = e.v /\ tlog[q].thr = t
                      /\ tlog[q - 1].call = "time" /\ tlog[q - 1].v = StartT(t, i) /\ tlog[q - 1].thr = t
                      /\ \A r \in (q + 1)..(o[a] - 1) : tlog[r].call # "startTest"
          /\ \A i \in 1..Len(work[t]) :
                (<<t, i>> \in completed /\ work[t][i].kind = "test") =>
                    /\ \E a \in DOMAIN o : tlog[o[a]].v = Id(t, i)
                    /\ \E q \in DOMAIN tlog : tlog[q].call = "stopTest" /\ tlog[q].v = Id(t, i)

\* the semaphore is free whenever no thread is inside a forwarder call, and never held by a thread that
\* has returned (normally or by the target's exception)
Released ==
    /\ \A t \in Threads : pc[t] = "idle" => sem # t
    /\ (\A t \in Threads : pc[t] \in {"idle", "acq"}) => sem = Free

\* a shouldStop read never returns without having held the semaphore: the j-th value a thread was given is the
\* target's flag as its j-th (non-raising) shouldStop call on the target found it, and that call was made under the
\* semaphore - so once a stop() has been forwarded and its block released, every later read returns TRUE
ShouldStopReads ==
    \A t \in Threads :
        LET ent == SelectSeq([j \in DOMAIN tlog |-> j],
                             LAMBDA j : tlog[j].thr = t /\ tlog[j].call = "shouldStop" /\ ~tlog[j].f)
        IN /\ Len(reads[t]) <= Len(ent)
           /\ \A j \in DOMAIN reads[t] : reads[t][j] = StopBefore(ent[j]) /\ tlog[ent[j]].h = t

\* the exception raised by the target reaches the reporting thread
FaultsSurface ==
    \A t \in Threads : (pc[t] = "idle" /\ \E j \in DOMAIN tlog : tlog[j].thr = t /\ tlog[j].f)
                          => \E i \in 1..idx[t] : <<t, i>> \in raisedAt

Termination == <>[]AllFinished

-----------------------------------------------------------------------------
ExportC == AllFinished => PrintT(<<"EXPORT", ToJson([work |-> work, faults |-> faults, hist |-> hist])>>)
=============================================================================
