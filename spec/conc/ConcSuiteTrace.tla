--------------------------- MODULE ConcSuiteTrace ---------------------------
(***************************************************************************)
(* Trace validation for ConcSuite: executions of the REAL                  *)
(* ConcurrentTestSuite.run with the scheduler's Thread/Queue/Semaphore     *)
(* (harness/sched.py), one event per scheduler step:                       *)
(*   [thr, act, e (the call on the caller's result, if any), holder,       *)
(*    alive, started, queue, told, main, prop, ran, abort]                 *)
(* Strict: each event must be the corresponding action of ConcSuite with   *)
(* the same observable effect.  Loose: the state the C13 invariants talk   *)
(* about is reconstructed from the observation alone.                      *)
(***************************************************************************)
EXTENDS ConcSuite, IOUtils

CONSTANT Strict
VARIABLES tid, l
tvars == <<script, makeFault, intrAt, mpc, cause, propagated, wpc, wi, wk, sem, queue, threads, clog, runBy,
           told, abortAlive, ngets, hist, tid, l>>

Traces == JsonDeserialize(IOEnv.TRACE_FILE)
SetOf(s) == {s[i] : i \in DOMAIN s}
ScriptOf(tr) == [w \in DOMAIN tr.script |-> [tests |-> tr.script[w].tests, raises |-> tr.script[w].raises,
                                              tfault |-> tr.script[w].tfault]]

TraceInit ==
    \E n \in DOMAIN Traces :
        /\ tid = n /\ l = 0
        /\ InitWith(ScriptOf(Traces[n]), Traces[n].makeFault, Traces[n].intrAt)

Ev == Traces[tid].ev[l + 1]
EntryOf(x) == Entry(x.thr, x.call, x.v, x.h)
Status(p) == IF p \in {"returned", "raised"} THEN p ELSE "run"

StrictStep ==
    LET e == Ev IN
    /\ IF e.thr = Main
       THEN CASE e.act = "begin"   -> MBegin
              [] e.act = "start"   -> MSpawn
              [] e.act = "get"     -> MGet
              [] e.act = "join"    -> MJoin
              [] e.act = "acquire" -> MStopAcq
              [] e.act = "call"    -> MStopCall /\ clog'[Len(clog')] = EntryOf(e.e)
              [] e.act = "release" -> MStopRel
              [] OTHER -> FALSE
       ELSE /\ e.thr \in Workers
            /\ CASE e.act = "begin"   -> WStart(e.thr)
                 [] e.act = "local"   -> WLocal(e.thr)
                 [] e.act = "acquire" -> WAcquire(e.thr)
                 [] e.act = "call"    -> WCall(e.thr) /\ clog'[Len(clog')] = EntryOf(e.e)
                 [] e.act = "release" -> WRelease(e.thr)
                 [] e.act = "put"     -> WPut(e.thr)
                 [] e.act = "exit" -> WExit(e.thr)
                 [] OTHER -> FALSE
    /\ sem' = e.holder
    /\ Alive(wpc') = SetOf(e.alive)
    /\ told' = SetOf(e.told)
    /\ queue' = e.queue
    /\ Status(mpc'.pc) = e.main
    /\ propagated' = e.prop

LooseStep ==
    LET e == Ev IN
    /\ e.thr \in Workers \cup {Main}
    /\ sem' = CASE e.act = "acquire" -> e.thr [] e.act = "release" -> Free [] OTHER -> sem
    /\ clog' = IF e.act = "call" THEN Append(clog, EntryOf(e.e)) ELSE clog
    /\ wpc' = [w \in Workers |-> IF w \in SetOf(e.alive) THEN "run" ELSE IF w \in SetOf(e.started) THEN "done" ELSE "new"]
    /\ mpc' = PC(Status(e.main), 0)
    /\ runBy' = IF e.ran \in Workers THEN [runBy EXCEPT ![e.ran] = Append(@, e.thr)] ELSE runBy
    /\ told' = SetOf(e.told)
    /\ propagated' = e.prop
    /\ cause' = IF e.abort # None /\ cause = None THEN e.abort ELSE cause
    /\ abortAlive' = IF e.abort # None /\ cause = None THEN SetOf(e.alive) ELSE abortAlive
    /\ queue' = e.queue
    /\ UNCHANGED <<script, makeFault, intrAt, wi, wk, threads, ngets, hist>>

TraceNext ==
    /\ l < Len(Traces[tid].ev)
    /\ IF Strict THEN StrictStep ELSE LooseStep
    /\ l' = l + 1 /\ UNCHANGED tid

TraceSpec == TraceInit /\ [][TraceNext]_tvars

AtEnd == l = Len(Traces[tid].ev)
AcceptC ==
    /\ IOEnv.TRACE_PROGRESS = "1" => PrintT(<<"AT", tid, l>>)
    /\ AtEnd => PrintT(<<"ACCEPT", tid>>)

\* an execution that ran to completion: run() has returned or raised, no worker is alive, semaphore free
EndState == (AtEnd /\ Traces[tid].complete) => /\ mpc.pc \in {"returned", "raised"}
                                               /\ Alive(wpc) = {} /\ sem = Free
=============================================================================
