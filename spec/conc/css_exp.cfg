SPECIFICATION Spec
CONSTANTS
  Record = TRUE
  Scripts <- ScriptsX
  FaultChoices <- ExpFaults
CONSTRAINT ExportC
INVARIANT EachOnce
INVARIANT ReturnsAfterAll
INVARIANT EventsOnceInOrder
INVARIANT StreamFields
INVARIANT BrokenReported
INVARIANT AbortTellsAll
CHECK_DEADLOCK TRUE
