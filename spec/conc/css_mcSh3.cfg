SPECIFICATION Spec
CONSTANTS
  Record = FALSE
  Scripts <- ScriptsSh3
  FaultChoices <- FaultsSh3
  RouteChoices <- SharedRoutes3

INVARIANT EachOnce
INVARIANT ReturnsAfterAll
INVARIANT EventsOnceInOrder
INVARIANT StreamFields
INVARIANT BrokenReported
INVARIANT AbortTellsAll
CHECK_DEADLOCK TRUE
