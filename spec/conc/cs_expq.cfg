SPECIFICATION Spec
CONSTANTS
  Record = TRUE
  Scripts <- ScriptsXq
  FaultChoices <- ExpFaultsQ
CONSTRAINT ExportC
INVARIANT EachOnce
INVARIANT ReturnsAfterAll
INVARIANT EventsOnceInOrder
INVARIANT OneAtATime
INVARIANT OwnBlock
INVARIANT BrokenReported
INVARIANT AbortTellsAll
CHECK_DEADLOCK TRUE
